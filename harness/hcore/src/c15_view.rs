//! C15, stream `view`: the VIEW LAYER between packed bytes and hashes
//! (util/types/src/core/views.rs, advanced_builders.rs, extension.rs).
//!
//! One case = one base block.  The first op of a case, `vblk <seed> <blockhex>` (c15_term.rs), and the two
//! `vpath <k> <blockhex>` ops after it are the lines compared with the Lean model; everything else in this file is implementation-only oracle
//! work, deterministic in (seed, block bytes) so that a replay file consisting of the `vblk` line
//! re-runs exactly the same checks.
//!
//! Oracle classes are `view-<path>-<accessor>`: <path> names how the view was obtained, <accessor>
//! names what disagreed with the independent recomputation (`recompute` of c15_term.rs over the
//! view's own `data()` bytes, `b2(header bytes)`, and a raw molecule parse of the extension field).
//!
//! Construction paths of the commitment sweep (every single-part change of a CONSISTENT block c0 is
//! built through each of them):
//!   P1   c0.as_advanced_builder().<setter>().build()                         (core::BlockBuilder from BlockView, reset)
//!   P1u  … .build_unchecked()                                                (no reset)
//!   P2   c0.data().as_advanced_builder().<setter>().build()                  (from packed::Block, reset)
//!   P2u  … .build_unchecked()
//!   P3   c0.data().as_builder().<field>().build().into_view()                (generated builder: DROPS the extension, reset)
//!   P3v1 packed::Block / BlockV1::new_builder()…build().as_v0().into_view()  (faithful packed rebuild, reset)
//!   P3w  same, into_view_without_reset_header()                              (no reset)
//!   P4   faithful packed block .reset_header() then into_view_without_reset_header()
//!   P5   faithful packed block .reset_header_with_hashes(calc_tx_hashes, calc_tx_witness_hashes)
//!   P6   BlockView::new_advanced_builder() + header/transactions/uncles/proposals/extension setters, build()
//!   P6u  … build_unchecked()
//!   P7   BlockView::new_unchecked / new_unchecked_with_extension               (no reset)
//!   P8a  packed -> json::Block -> text -> json::Block -> packed -> into_view()
//!   P8b  core::BlockView -> json::BlockView -> text -> back -> core::BlockView (JSON `hash` fields checked)
use super::term::*;
use super::*;
use ckb_types::core::{BlockBuilder, BlockView, EpochNumberWithFraction, HeaderView, TransactionView, UncleBlockView};
use std::cell::RefCell;
use std::collections::{BTreeMap, HashSet};
use std::rc::Rc;

thread_local! {
    /// (change, path) -> number of constructions checked, over the whole run
    static MATRIX: RefCell<BTreeMap<String, BTreeMap<String, u64>>> = RefCell::new(BTreeMap::new());
}

const PATHS: &[(&str, &str)] = &[
    ("P1", "P1_view_adv_build"),
    ("P1u", "P1u_view_adv_build_unchecked"),
    ("P2", "P2_packed_adv_build"),
    ("P2u", "P2u_packed_adv_build_unchecked"),
    ("P3", "P3_as_builder_into_view"),
    ("P3v1", "P3v1_packed_rebuild_into_view"),
    ("P3w", "P3w_packed_rebuild_without_reset"),
    ("P4", "P4_reset_header"),
    ("P5", "P5_reset_header_with_hashes"),
    ("P6", "P6_new_adv_build"),
    ("P6u", "P6u_new_adv_build_unchecked"),
    ("P7", "P7_new_unchecked"),
    ("P8a", "P8a_json_block"),
    ("P8b", "P8b_json_blockview"),
];

// ------------------------------------------------------------------------------------------------
// small helpers

fn rd_u32(b: &[u8]) -> u32 {
    u32::from_le_bytes(b[..4].try_into().unwrap())
}
fn rd_u64(b: &[u8]) -> u64 {
    u64::from_le_bytes(b[..8].try_into().unwrap())
}
fn rd_u128(b: &[u8]) -> u128 {
    u128::from_le_bytes(b[..16].try_into().unwrap())
}

fn trunc_hex(bs: &[u8], max_bytes: usize) -> String {
    if bs.len() <= max_bytes {
        hex(bs)
    } else {
        format!("{}..(+{}B)", hex(&bs[..max_bytes]), bs.len() - max_bytes)
    }
}

fn guard<R>(f: impl FnOnce() -> R) -> Result<R, String> {
    catch_unwind(AssertUnwindSafe(f)).map_err(panic_text)
}

fn eq32s(a: &[packed::Byte32], b: &[[u8; 32]]) -> bool {
    a.len() == b.len() && a.iter().zip(b).all(|(x, y)| x.as_slice() == &y[..])
}

fn p32(b: &[u8]) -> packed::Byte32 {
    packed::Byte32::from_slice(&b[..32]).expect("32 bytes")
}

/// packed::Bytes from its raw content, through the molecule layout (no conversion helper of the repo)
fn pbytes(raw: &[u8]) -> packed::Bytes {
    let mut v = (raw.len() as u32).to_le_bytes().to_vec();
    v.extend_from_slice(raw);
    packed::Bytes::from_slice(&v).expect("a fixvec of bytes")
}

/// independent molecule parse of the first extra field of a (compatible) Block: Some(raw data) iff
/// it exists and is a well-formed `Bytes`
fn raw_extension(bs: &[u8]) -> Option<Vec<u8>> {
    if bs.len() < 8 {
        return None;
    }
    let total = rd_u32(bs) as usize;
    let first = rd_u32(&bs[4..]) as usize;
    if first < 4 || first % 4 != 0 || first > bs.len() {
        return None;
    }
    let count = first / 4 - 1;
    if count < 5 {
        return None;
    }
    let start = rd_u32(&bs[20..]) as usize;
    let end = if count == 5 { total } else { rd_u32(&bs[24..]) as usize };
    if start > end || end > bs.len() {
        return None;
    }
    let f = &bs[start..end];
    if f.len() < 4 || rd_u32(f) as usize != f.len() - 4 {
        return None;
    }
    Some(f[4..].to_vec())
}

/// HeaderBuilder::build() debug assertions: compact_target > 0, number == 0 or epoch well formed
fn builder_safe(h: &[u8]) -> bool {
    let e = rd_u64(&h[24..]);
    let (idx, len) = ((e >> 24) & 0xffff, (e >> 40) & 0xffff);
    rd_u32(&h[4..]) > 0 && (rd_u64(&h[16..]) == 0 || (len > 0 && idx < len))
}

fn mk_epoch(rng: &mut Rng) -> u64 {
    let len = match rng.below(4) {
        0 => 1,
        1 => rng.range(2, 10),
        2 => rng.range(11, 2000),
        _ => 0xffff,
    };
    let idx = if rng.chance(1, 4) { len - 1 } else { rng.below(len) };
    let num = if rng.chance(1, 4) { 0 } else { rng.below(1 << 24) };
    let top = if rng.chance(1, 6) { rng.below(256) << 56 } else { 0 };
    let e = EpochNumberWithFraction::new_unchecked(num, idx, len).full_value() | top;
    debug_assert!(EpochNumberWithFraction::from_full_value_unchecked(e).is_well_formed());
    e
}

/// normalise a header so that the advanced builders' debug assertions hold
pub fn builder_safe_header(rng: &mut Rng, h: &packed::Header) -> packed::Header {
    let mut b = h.as_slice().to_vec();
    if rd_u32(&b[4..]) == 0 {
        b[4] |= 1;
    }
    if !builder_safe(&b) || rng.chance(1, 2) {
        if rng.chance(1, 6) {
            b[16..24].copy_from_slice(&[0u8; 8]);
        } else {
            let e = mk_epoch(rng);
            b[24..32].copy_from_slice(&e.to_le_bytes());
        }
    }
    debug_assert!(builder_safe(&b));
    packed::Header::from_slice(&b).expect("208 bytes")
}

fn gen_p<T: Entity>(t: &Table, rng: &mut Rng, name: &str, budget: i64, jsonv: bool) -> T {
    let v = {
        let mut g = Gen { t, rng, budget, mode: if jsonv { ByteMode::JsonValid } else { ByteMode::Any }, big: false };
        g.val(name, None)
    };
    T::from_slice(&glue::encode(name, &v).unwrap()).expect("own encoding")
}

fn script_json_ok(s: &packed::Script) -> bool {
    let v = s.hash_type().as_slice()[0];
    v == 1 || v % 2 == 0
}

fn tx_json_ok(tx: &packed::Transaction) -> bool {
    let raw = tx.raw();
    raw.cell_deps().into_iter().all(|d| d.dep_type().as_slice()[0] <= 1)
        && raw.outputs().into_iter().all(|o| script_json_ok(&o.lock()) && o.type_().to_opt().map(|s| script_json_ok(&s)).unwrap_or(true))
}

// ------------------------------------------------------------------------------------------------
// the parts of a block, independent assembly

#[derive(Clone)]
struct Parts {
    header: Vec<u8>,
    uncles: Vec<packed::UncleBlock>,
    txs: Vec<packed::Transaction>,
    props: Vec<packed::ProposalShortId>,
    ext: Option<Vec<u8>>,
}

fn parts_of(blk: &packed::Block) -> Parts {
    Parts {
        header: blk.header().as_slice().to_vec(),
        uncles: blk.uncles().into_iter().collect(),
        txs: blk.transactions().into_iter().collect(),
        props: blk.proposals().into_iter().collect(),
        ext: raw_extension(blk.as_slice()),
    }
}

fn hdr_of(p: &Parts) -> packed::Header {
    packed::Header::from_slice(&p.header).expect("208 bytes")
}
fn uncles_vec(us: &[packed::UncleBlock]) -> packed::UncleBlockVec {
    packed::UncleBlockVec::new_builder().extend(us.iter().cloned()).build()
}
fn txs_vec(ts: &[packed::Transaction]) -> packed::TransactionVec {
    packed::TransactionVec::new_builder().extend(ts.iter().cloned()).build()
}
fn props_vec(ps: &[packed::ProposalShortId]) -> packed::ProposalShortIdVec {
    packed::ProposalShortIdVec::new_builder().extend(ps.iter().cloned()).build()
}

fn assemble(p: &Parts) -> packed::Block {
    match &p.ext {
        None => packed::Block::new_builder().header(hdr_of(p)).uncles(uncles_vec(&p.uncles)).transactions(txs_vec(&p.txs)).proposals(props_vec(&p.props)).build(),
        Some(e) => {
            let v1 = packed::BlockV1::new_builder()
                .header(hdr_of(p))
                .uncles(uncles_vec(&p.uncles))
                .transactions(txs_vec(&p.txs))
                .proposals(props_vec(&p.props))
                .extension(pbytes(e))
                .build();
            packed::Block::from_compatible_slice(v1.as_slice()).expect("a BlockV1 is a compatible Block")
        }
    }
}

fn slices_eq<T: Entity>(a: &[T], b: &[T]) -> bool {
    a.len() == b.len() && a.iter().zip(b).all(|(x, y)| x.as_slice() == y.as_slice())
}

/// did a part change that the block hash commits to?
fn committed_changed(a: &Parts, b: &Parts) -> bool {
    a.header[..64] != b.header[..64]
        || a.header[160..] != b.header[160..]
        || !slices_eq(&a.txs, &b.txs)
        || !slices_eq(&a.props, &b.props)
        || a.uncles.len() != b.uncles.len()
        || a.uncles.iter().zip(&b.uncles).any(|(x, y)| x.header().as_slice() != y.header().as_slice())
        || a.ext != b.ext
}

// ------------------------------------------------------------------------------------------------
// the per-case checker context

pub struct Ck<'a> {
    out: &'a mut Out,
    seed: u64,
    dict: Dict,
    fired: HashSet<String>,
    fcache: HashMap<Vec<u8>, Rc<Fields>>,
    change: String,
}

impl<'a> Ck<'a> {
    fn new(out: &'a mut Out, seed: u64) -> Ck<'a> {
        Ck { out, seed, dict: Dict::new(), fired: HashSet::new(), fcache: HashMap::new(), change: "base".into() }
    }
    /// one oracle line per class and case; detail = text + (truncated) hex of the bytes under check
    fn fail(&mut self, class: &str, msg: &str, bytes: &[u8]) {
        if !self.fired.insert(class.to_string()) {
            self.out.count("view-fail-repeat");
            return;
        }
        let shown = if self.out.oracle_fails > 300 { 0 } else { 1400 };
        self.out.oracle_fail(class, &format!("{} [change={} seed={}] bytes={}", msg, self.change, self.seed, trunc_hex(bytes, shown)));
    }
    fn fields(&mut self, blk: &packed::Block) -> Rc<Fields> {
        if let Some(f) = self.fcache.get(blk.as_slice()) {
            return f.clone();
        }
        let f = Rc::new(recompute(&mut self.dict, blk));
        self.fcache.insert(blk.as_slice().to_vec(), f.clone());
        f
    }
}

macro_rules! bad {
    ($e:expr, $c:expr, $a:expr) => {
        if !($c) {
            $e.push(($a.to_string(), String::new()));
        }
    };
    ($e:expr, $c:expr, $a:expr, $($m:tt)*) => {
        if !($c) {
            $e.push(($a.to_string(), format!($($m)*)));
        }
    };
}

/// the unpacked header getters of HeaderView / UncleBlockView / BlockView against the raw header bytes
macro_rules! getter_fails {
    ($e:expr, $pre:expr, $x:expr, $hb:expr) => {{
        let hb: &[u8] = $hb;
        let x = $x;
        bad!($e, x.version() == rd_u32(&hb[0..]), format!("{}version", $pre));
        bad!($e, x.compact_target() == rd_u32(&hb[4..]), format!("{}compact_target", $pre));
        bad!($e, x.timestamp() == rd_u64(&hb[8..]), format!("{}timestamp", $pre));
        bad!($e, x.number() == rd_u64(&hb[16..]), format!("{}number", $pre));
        bad!($e, x.epoch().full_value() == rd_u64(&hb[24..]), format!("{}epoch", $pre));
        bad!($e, x.parent_hash().as_slice() == &hb[32..64], format!("{}parent_hash", $pre));
        bad!($e, x.transactions_root().as_slice() == &hb[64..96], format!("{}transactions_root", $pre));
        bad!($e, x.proposals_hash().as_slice() == &hb[96..128], format!("{}proposals_hash", $pre));
        bad!($e, x.extra_hash().as_slice() == &hb[128..160], format!("{}extra_hash", $pre));
        bad!($e, x.dao().as_slice() == &hb[160..192], format!("{}dao", $pre));
        bad!($e, x.nonce() == rd_u128(&hb[192..]), format!("{}nonce", $pre));
    }};
}

fn props_hash(ps: &packed::ProposalShortIdVec) -> [u8; 32] {
    if ps.is_empty() {
        [0u8; 32]
    } else {
        let cat: Vec<u8> = ps.clone().into_iter().flat_map(|p| p.as_slice().to_vec()).collect();
        b2(&cat)
    }
}

type Fails = Vec<(String, String)>;

/// every accessor of an UncleBlockView against the uncle's bytes
fn uncle_view_fails(e: &mut Fails, pre: &str, uv: &UncleBlockView, u: &packed::UncleBlock) {
    let hb = u.header();
    let hb = hb.as_slice();
    let hh = b2(hb);
    bad!(e, uv.hash().as_slice() == &hh[..], format!("{}hash", pre));
    bad!(e, uv.data().as_slice() == u.as_slice(), format!("{}data", pre));
    let h = uv.header();
    bad!(e, h.hash().as_slice() == &hh[..], format!("{}header-hash", pre));
    bad!(e, h.data().as_slice() == hb, format!("{}header-data", pre));
    bad!(e, uv.calc_proposals_hash().as_slice() == &props_hash(&u.proposals())[..], format!("{}calc_proposals_hash", pre));
    getter_fails!(e, format!("{}getter-", pre), uv, hb);
}

/// every cached value reachable through every accessor of a BlockView against the recomputation
/// `f` over the view's own `data()` bytes
fn bv_fails(v: &BlockView, f: &Fields) -> Fails {
    let mut e: Fails = vec![];
    let data = v.data();
    let hdr = data.header();
    let hb = hdr.as_slice();
    let hh = b2(hb);
    let txs: Vec<packed::Transaction> = data.transactions().into_iter().collect();
    let uncles: Vec<packed::UncleBlock> = data.uncles().into_iter().collect();
    let n = txs.len();
    // the recomputation's view of the extension against a raw molecule parse
    let ext = raw_extension(data.as_slice());
    let ext_hash = ext.as_ref().map(|x| b2(x));
    let xh = match ext_hash {
        None => f.uncles_hash,
        Some(h) => {
            let mut cat = f.uncles_hash.to_vec();
            cat.extend_from_slice(&h);
            b2(&cat)
        }
    };
    bad!(e, f.extension_hash == ext_hash && f.extra_hash == xh, "oracle-extension", "packed::Block::extension() disagrees with the raw molecule parse of the first extra field");
    bad!(e, f.raw_root == cbmt_root(&f.tx_hashes) && f.witness_root == cbmt_root(&f.witness_hashes) && f.transactions_root == cbmt_root(&[f.raw_root, f.witness_root]), "oracle-cbmt");

    bad!(e, v.hash().as_slice() == &hh[..], "hash");
    let hv = v.header();
    bad!(e, hv.hash().as_slice() == &hh[..], "header-hash");
    bad!(e, hv.data().as_slice() == hb, "header-data");
    getter_fails!(e, "header-getter-", &hv, hb);
    getter_fails!(e, "getter-", v, hb);

    bad!(e, eq32s(v.tx_hashes(), &f.tx_hashes), "tx_hashes");
    bad!(e, eq32s(v.tx_witness_hashes(), &f.witness_hashes), "tx_witness_hashes");
    let tvs = v.transactions();
    bad!(e, tvs.len() == n, "transactions-len", "{} views for {} transactions", tvs.len(), n);
    for (i, tv) in tvs.iter().enumerate().take(n) {
        bad!(e, tv.data().as_slice() == txs[i].as_slice(), "transactions-data", "index {}", i);
        bad!(e, tv.hash().as_slice() == &f.tx_hashes[i][..], "transactions-hash", "index {}", i);
        bad!(e, tv.witness_hash().as_slice() == &f.witness_hashes[i][..], "transactions-witness_hash", "index {}", i);
    }
    for i in 0..n {
        match v.transaction(i) {
            None => e.push(("transaction_i-missing".into(), format!("index {} of {}", i, n))),
            Some(tv) => {
                bad!(e, tv.data().as_slice() == txs[i].as_slice(), "transaction_i-data", "index {}", i);
                bad!(e, tv.hash().as_slice() == &f.tx_hashes[i][..], "transaction_i-hash", "index {}", i);
                bad!(e, tv.witness_hash().as_slice() == &f.witness_hashes[i][..], "transaction_i-witness_hash", "index {}", i);
                if let Some(o) = tvs.get(i) {
                    bad!(
                        e,
                        tv.data().as_slice() == o.data().as_slice() && tv.hash() == o.hash() && tv.witness_hash() == o.witness_hash(),
                        "transaction_i-vs-transactions",
                        "index {}",
                        i
                    );
                }
            }
        }
    }
    bad!(e, v.transaction(n).is_none() && v.transaction(n + 3).is_none(), "transaction_i-none", "transaction({}) or transaction({}) is Some", n, n + 3);
    for (i, tx) in txs.iter().enumerate() {
        let outs = tx.raw().outputs();
        for j in 0..outs.len() {
            bad!(e, v.output(i, j).map(|o| o.as_slice().to_vec()) == outs.get(j).map(|o| o.as_slice().to_vec()), "output", "({}, {})", i, j);
        }
        bad!(e, v.output(i, outs.len()).is_none(), "output", "({}, {}) is Some", i, outs.len());
    }
    bad!(e, v.output(n, 0).is_none(), "output", "({}, 0) is Some", n);

    // uncles
    let uh: Vec<packed::Byte32> = v.uncle_hashes().into_iter().collect();
    bad!(e, eq32s(&uh, &f.uncle_hashes), "uncle_hashes");
    let uvv = v.uncles();
    bad!(e, uvv.data().as_slice() == data.uncles().as_slice(), "uncles-data");
    let uvh: Vec<packed::Byte32> = uvv.hashes().into_iter().collect();
    bad!(e, eq32s(&uvh, &f.uncle_hashes), "uncles-hashes");
    for (i, u) in uncles.iter().enumerate() {
        match uvv.get(i) {
            None => e.push(("uncles-get-missing".into(), format!("index {}", i))),
            Some(uv) => uncle_view_fails(&mut e, "uncles-get-", &uv, u),
        }
    }
    bad!(e, uvv.get(uncles.len()).is_none() && uvv.get(uncles.len() + 2).is_none(), "uncles-get-none");
    let it = uvv.clone().into_iter();
    bad!(e, it.len() == uncles.len(), "uncles-iter-len");
    let iv: Vec<UncleBlockView> = it.collect();
    bad!(e, iv.len() == uncles.len(), "uncles-iter-len");
    for (uv, u) in iv.iter().zip(&uncles) {
        uncle_view_fails(&mut e, "uncles-iter-", uv, u);
    }
    let au = v.as_uncle();
    bad!(e, au.hash().as_slice() == &hh[..], "as_uncle-hash");
    bad!(e, au.data().header().as_slice() == hb && au.data().proposals().as_slice() == data.proposals().as_slice(), "as_uncle-data");
    bad!(e, au.header().hash().as_slice() == &hh[..] && au.header().data().as_slice() == hb, "as_uncle-header");
    bad!(e, au.calc_proposals_hash().as_slice() == &f.proposals_hash[..], "as_uncle-calc_proposals_hash");

    // extension and the calc_* family
    bad!(e, v.extension().map(|b| b.raw_data().to_vec()) == ext, "extension");
    bad!(e, v.calc_uncles_hash().as_slice() == &f.uncles_hash[..], "calc_uncles_hash");
    bad!(e, v.calc_extension_hash().map(|h| h.as_slice().to_vec()) == ext_hash.map(|h| h.to_vec()), "calc_extension_hash");
    let xv = v.calc_extra_hash();
    bad!(e, xv.uncles_hash().as_slice() == &f.uncles_hash[..], "calc_extra_hash-uncles_hash");
    bad!(e, xv.extension_hash().map(|h| h.as_slice().to_vec()) == ext_hash.map(|h| h.to_vec()), "calc_extra_hash-extension_hash");
    bad!(e, xv.extra_hash().as_slice() == &xh[..], "calc_extra_hash-extra_hash");
    bad!(e, v.calc_proposals_hash().as_slice() == &f.proposals_hash[..], "calc_proposals_hash");
    bad!(e, v.calc_raw_transactions_root().as_slice() == &f.raw_root[..], "calc_raw_transactions_root");
    bad!(e, v.calc_witnesses_root().as_slice() == &f.witness_root[..], "calc_witnesses_root");
    bad!(e, v.calc_transactions_root().as_slice() == &f.transactions_root[..], "calc_transactions_root");
    let want_ids: Vec<Vec<u8>> = data
        .proposals()
        .into_iter()
        .map(|p| p.as_slice().to_vec())
        .chain(uncles.iter().flat_map(|u| u.proposals().into_iter().map(|p| p.as_slice().to_vec()).collect::<Vec<_>>()))
        .collect();
    let got_ids: Vec<Vec<u8>> = v.union_proposal_ids_iter().map(|p| p.as_slice().to_vec()).collect();
    bad!(e, got_ids == want_ids, "union_proposal_ids_iter");
    let set: HashSet<Vec<u8>> = v.union_proposal_ids().into_iter().map(|p| p.as_slice().to_vec()).collect();
    bad!(e, set == want_ids.iter().cloned().collect::<HashSet<_>>(), "union_proposal_ids");

    // packed level
    bad!(e, data.calc_header_hash().as_slice() == &hh[..], "packed-calc_header_hash");
    bad!(e, data.calc_proposals_hash().as_slice() == &f.proposals_hash[..], "packed-calc_proposals_hash");
    bad!(e, data.calc_uncles_hash().as_slice() == &f.uncles_hash[..], "packed-calc_uncles_hash");
    bad!(e, data.calc_extension_hash().map(|h| h.as_slice().to_vec()) == ext_hash.map(|h| h.to_vec()), "packed-calc_extension_hash");
    bad!(e, eq32s(&data.calc_tx_hashes(), &f.tx_hashes), "packed-calc_tx_hashes");
    bad!(e, eq32s(&data.calc_tx_witness_hashes(), &f.witness_hashes), "packed-calc_tx_witness_hashes");
    let px = data.calc_extra_hash();
    bad!(e, px.extra_hash().as_slice() == &xh[..] && px.uncles_hash().as_slice() == &f.uncles_hash[..], "packed-calc_extra_hash");
    bad!(e, data.as_uncle().header().as_slice() == hb && data.as_uncle().proposals().as_slice() == data.proposals().as_slice(), "packed-as_uncle");
    e
}

/// accessor sweep of one BlockView; oracle classes `view-<path>-<accessor>`
pub fn check_block_view(ck: &mut Ck, path: &str, v: &BlockView) {
    let data = v.data();
    let f = ck.fields(&data);
    match guard(|| bv_fails(v, &f)) {
        Ok(fs) => {
            for (a, m) in fs {
                ck.fail(&format!("view-{}-{}", path, a), &m, data.as_slice());
            }
        }
        Err(p) => ck.fail(&format!("view-{}-panic", path), &format!("accessor sweep panicked: {}", p), data.as_slice()),
    }
    ck.out.count("check_block_view");
}

// ------------------------------------------------------------------------------------------------
// standalone TransactionView / HeaderView / UncleBlockView

fn tx_view_fails(tv: &TransactionView, want: &[u8]) -> Fails {
    let mut e: Fails = vec![];
    let w = packed::Transaction::from_slice(want).expect("expected transaction bytes");
    let h = b2(w.raw().as_slice());
    bad!(e, tv.data().as_slice() == want, "data", "got {}", trunc_hex(tv.data().as_slice(), 300));
    bad!(e, tv.hash().as_slice() == &h[..], "hash");
    bad!(e, tv.witness_hash().as_slice() == &b2(want)[..], "witness_hash");
    bad!(e, tv.proposal_short_id().as_slice() == &h[..10], "proposal_short_id");
    bad!(e, tv.data().proposal_short_id().as_slice() == &h[..10], "packed-proposal_short_id");
    let n = w.raw().outputs().len();
    let pts = tv.output_pts();
    let pti: Vec<packed::OutPoint> = tv.output_pts_iter().collect();
    bad!(e, pts.len() == n && pti.len() == n, "output_pts", "{} / {} out points for {} outputs", pts.len(), pti.len(), n);
    for (i, (a, b)) in pts.iter().zip(&pti).enumerate() {
        let mut want_pt = h.to_vec();
        want_pt.extend_from_slice(&(i as u32).to_le_bytes());
        bad!(e, a.as_slice() == &want_pt[..] && b.as_slice() == &want_pt[..], "output_pts", "index {}", i);
    }
    bad!(e, tv.witnesses().as_slice() == w.witnesses().as_slice() && tv.inputs().as_slice() == w.raw().inputs().as_slice() && tv.outputs().as_slice() == w.raw().outputs().as_slice(), "field-getters");
    bad!(e, tv.data().calc_tx_hash().as_slice() == &h[..] && tv.data().calc_witness_hash().as_slice() == &b2(want)[..], "packed-calc_hash");
    e
}

fn check_tx_view(ck: &mut Ck, path: &str, build: impl FnOnce() -> TransactionView, want: &[u8]) {
    match guard(|| {
        let tv = build();
        tx_view_fails(&tv, want)
    }) {
        Ok(fs) => {
            for (a, m) in fs {
                ck.fail(&format!("view-{}-{}", path, a), &m, want);
            }
        }
        Err(p) => ck.fail(&format!("view-{}-panic", path), &p, want),
    }
    ck.out.count("check_tx_view");
}

fn tx_standalone(ck: &mut Ck, t: &Table, rng: &mut Rng) {
    let tx: packed::Transaction = gen_p(t, rng, "Transaction", 500, true);
    let raw = tx.raw();
    let want = tx.as_slice().to_vec();
    check_tx_view(ck, "tx.into_view", || tx.clone().into_view(), &want);
    check_tx_view(ck, "tx.packed_adv_build", || tx.as_advanced_builder().build(), &want);
    check_tx_view(ck, "tx.view_adv_build", || tx.clone().into_view().as_advanced_builder().build(), &want);
    let (cd, hd, ins, outs, od, ws): (Vec<_>, Vec<_>, Vec<_>, Vec<_>, Vec<_>, Vec<_>) = (
        raw.cell_deps().into_iter().collect(),
        raw.header_deps().into_iter().collect(),
        raw.inputs().into_iter().collect(),
        raw.outputs().into_iter().collect(),
        raw.outputs_data().into_iter().collect(),
        tx.witnesses().into_iter().collect(),
    );
    check_tx_view(
        ck,
        "tx.new_adv_push",
        || {
            let mut b = TransactionView::new_advanced_builder().version(raw.version());
            for x in &cd {
                b = b.cell_dep(x.clone());
            }
            for x in &hd {
                b = b.header_dep(x.clone());
            }
            for x in &ins {
                b = b.input(x.clone());
            }
            for x in &outs {
                b = b.output(x.clone());
            }
            for x in &od {
                b = b.output_data(x.clone());
            }
            for x in &ws {
                b = b.witness(x.clone());
            }
            b.build()
        },
        &want,
    );
    check_tx_view(
        ck,
        "tx.new_adv_extend",
        || {
            TransactionView::new_advanced_builder()
                .witnesses(ws.clone())
                .outputs_data(od.clone())
                .outputs(outs.clone())
                .inputs(ins.clone())
                .header_deps(hd.clone())
                .cell_deps(cd.clone())
                .version(raw.version())
                .build()
        },
        &want,
    );
    check_tx_view(
        ck,
        "tx.new_adv_set",
        || {
            // a set_* after a push must REPLACE the list
            TransactionView::new_advanced_builder()
                .witness(pbytes(b"x"))
                .version(raw.version())
                .set_cell_deps(cd.clone())
                .set_header_deps(hd.clone())
                .set_inputs(ins.clone())
                .set_outputs(outs.clone())
                .set_outputs_data(od.clone())
                .set_witnesses(ws.clone())
                .build()
        },
        &want,
    );
    // one more item per field on top of the existing transaction
    let base = tx.clone().into_view();
    let rb = |r: packed::RawTransaction| tx.clone().as_builder().raw(r).build();
    let x_cd: packed::CellDep = gen_p(t, rng, "CellDep", 50, true);
    let x_hd: packed::Byte32 = gen_p(t, rng, "Byte32", 40, true);
    let x_in: packed::CellInput = gen_p(t, rng, "CellInput", 50, true);
    let x_out: packed::CellOutput = gen_p(t, rng, "CellOutput", 90, true);
    let x_od: packed::Bytes = gen_p(t, rng, "Bytes", 30, true);
    let x_w: packed::Bytes = gen_p(t, rng, "Bytes", 30, true);
    let ver = rd_u32(raw.version().as_slice()).wrapping_add(1 + rng.below(3) as u32);
    let variants: Vec<(&str, packed::Transaction, TransactionView)> = vec![
        ("version", rb(raw.clone().as_builder().version(packed::Uint32::from_slice(&ver.to_le_bytes()).unwrap()).build()), base.as_advanced_builder().version(ver).build()),
        ("cell_dep", rb(raw.clone().as_builder().cell_deps(raw.cell_deps().as_builder().push(x_cd.clone()).build()).build()), base.as_advanced_builder().cell_dep(x_cd.clone()).build()),
        ("cell_deps", rb(raw.clone().as_builder().cell_deps(raw.cell_deps().as_builder().push(x_cd.clone()).build()).build()), base.as_advanced_builder().cell_deps(vec![x_cd]).build()),
        ("header_dep", rb(raw.clone().as_builder().header_deps(raw.header_deps().as_builder().push(x_hd.clone()).build()).build()), base.as_advanced_builder().header_dep(x_hd.clone()).build()),
        ("header_deps", rb(raw.clone().as_builder().header_deps(raw.header_deps().as_builder().push(x_hd.clone()).build()).build()), base.as_advanced_builder().header_deps(vec![x_hd]).build()),
        ("input", rb(raw.clone().as_builder().inputs(raw.inputs().as_builder().push(x_in.clone()).build()).build()), base.as_advanced_builder().input(x_in.clone()).build()),
        ("inputs", rb(raw.clone().as_builder().inputs(raw.inputs().as_builder().push(x_in.clone()).build()).build()), base.as_advanced_builder().inputs(vec![x_in]).build()),
        ("output", rb(raw.clone().as_builder().outputs(raw.outputs().as_builder().push(x_out.clone()).build()).build()), base.as_advanced_builder().output(x_out.clone()).build()),
        ("outputs", rb(raw.clone().as_builder().outputs(raw.outputs().as_builder().push(x_out.clone()).build()).build()), base.as_advanced_builder().outputs(vec![x_out]).build()),
        ("output_data", rb(raw.clone().as_builder().outputs_data(raw.outputs_data().as_builder().push(x_od.clone()).build()).build()), base.as_advanced_builder().output_data(x_od.clone()).build()),
        ("outputs_data", rb(raw.clone().as_builder().outputs_data(raw.outputs_data().as_builder().push(x_od.clone()).build()).build()), base.as_advanced_builder().outputs_data(vec![x_od]).build()),
        ("witness", tx.clone().as_builder().witnesses(tx.witnesses().as_builder().push(x_w.clone()).build()).build(), base.as_advanced_builder().witness(x_w.clone()).build()),
        ("witnesses", tx.clone().as_builder().witnesses(tx.witnesses().as_builder().push(x_w.clone()).build()).build(), base.as_advanced_builder().witnesses(vec![x_w]).build()),
    ];
    for (name, want_tx, got) in variants {
        let path = format!("tx.adv_setter_{}", name);
        let w = want_tx.as_slice().to_vec();
        check_tx_view(ck, &path, || got.clone(), &w);
        let witness_only = name.starts_with("witness");
        if witness_only != (got.hash() == base.hash()) {
            ck.fail(&format!("view-{}-hash-binding", path), "tx hash must change with every raw field and must not change with witnesses", &w);
        }
        if got.witness_hash() == base.witness_hash() {
            ck.fail(&format!("view-{}-witness_hash-binding", path), "witness hash unchanged although the transaction changed", &w);
        }
    }
    // JSON view carries the hash
    match guard(|| {
        let j: json::TransactionView = base.clone().into();
        let s = serde_json::to_string(&j).expect("to_string");
        let j2: json::TransactionView = serde_json::from_str(&s).expect("from_str");
        let back: packed::Transaction = j2.inner.clone().into();
        (j2.hash.as_bytes().to_vec(), back.as_slice().to_vec())
    }) {
        Ok((h, b)) => {
            if h[..] != b2(raw.as_slice())[..] {
                ck.fail("view-tx.json-hash", "json TransactionView.hash differs from blake2b(raw)", &want);
            }
            if b != want {
                ck.fail("view-tx.json-data", "json TransactionView round trip changed the bytes", &want);
            }
        }
        Err(p) => ck.fail("view-tx.json-panic", &p, &want),
    }
}

macro_rules! set_hdr_fields {
    ($b:expr, $old:expr, $new:expr) => {{
        let mut b = $b;
        let (o, n): (&[u8], &[u8]) = ($old, $new);
        if o[0..4] != n[0..4] {
            b = b.version(packed::Uint32::from_slice(&n[0..4]).unwrap());
        }
        if o[4..8] != n[4..8] {
            b = b.compact_target(packed::Uint32::from_slice(&n[4..8]).unwrap());
        }
        if o[8..16] != n[8..16] {
            b = b.timestamp(packed::Uint64::from_slice(&n[8..16]).unwrap());
        }
        if o[16..24] != n[16..24] {
            b = b.number(packed::Uint64::from_slice(&n[16..24]).unwrap());
        }
        if o[24..32] != n[24..32] {
            b = b.epoch(packed::Uint64::from_slice(&n[24..32]).unwrap());
        }
        if o[32..64] != n[32..64] {
            b = b.parent_hash(p32(&n[32..64]));
        }
        if o[64..96] != n[64..96] {
            b = b.transactions_root(p32(&n[64..96]));
        }
        if o[96..128] != n[96..128] {
            b = b.proposals_hash(p32(&n[96..128]));
        }
        if o[128..160] != n[128..160] {
            b = b.extra_hash(p32(&n[128..160]));
        }
        if o[160..192] != n[160..192] {
            b = b.dao(p32(&n[160..192]));
        }
        if o[192..208] != n[192..208] {
            b = b.nonce(packed::Uint128::from_slice(&n[192..208]).unwrap());
        }
        b
    }};
}

const HDR_FIELDS: &[(&str, usize, usize)] = &[
    ("version", 0, 4),
    ("compact_target", 4, 8),
    ("timestamp", 8, 16),
    ("number", 16, 24),
    ("epoch", 24, 32),
    ("parent_hash", 32, 64),
    ("transactions_root", 64, 96),
    ("proposals_hash", 96, 128),
    ("extra_hash", 128, 160),
    ("dao", 160, 192),
    ("nonce", 192, 208),
];

/// new header bytes with one field changed (really changed); keeps the builder assertions when `safe`
fn change_hdr_field(rng: &mut Rng, base: &[u8], field: &str, safe: bool) -> Vec<u8> {
    let (_, lo, hi) = *HDR_FIELDS.iter().find(|f| f.0 == field).expect("header field");
    let mut h = base.to_vec();
    match rng.below(3) {
        0 => {
            for b in &mut h[lo..hi] {
                *b = rng.next() as u8;
            }
        }
        1 => h[lo] = h[lo].wrapping_add(1),
        _ => {
            let k = lo + rng.below((hi - lo) as u64) as usize;
            h[k] ^= 1 << rng.below(8);
        }
    }
    if safe && field == "epoch" {
        h[lo..hi].copy_from_slice(&mk_epoch(rng).to_le_bytes());
    }
    if safe && field == "compact_target" && rd_u32(&h[lo..]) == 0 {
        h[lo] = 1;
    }
    if h[lo..hi] == base[lo..hi] {
        h[lo + 1] ^= 0x10;
    }
    h
}

fn header_view_fails(hv: &HeaderView, want: &[u8]) -> Fails {
    let mut e: Fails = vec![];
    bad!(e, hv.data().as_slice() == want, "data", "got {}", hex(hv.data().as_slice()));
    bad!(e, hv.hash().as_slice() == &b2(want)[..], "hash");
    bad!(e, hv.data().calc_header_hash().as_slice() == &b2(want)[..], "packed-calc_header_hash");
    getter_fails!(e, "getter-", hv, want);
    e
}

fn check_header_view(ck: &mut Ck, path: &str, build: impl FnOnce() -> HeaderView, want: &[u8]) {
    match guard(|| header_view_fails(&build(), want)) {
        Ok(fs) => {
            for (a, m) in fs {
                ck.fail(&format!("view-{}-{}", path, a), &m, want);
            }
        }
        Err(p) => ck.fail(&format!("view-{}-panic", path), &p, want),
    }
    ck.out.count("check_header_view");
}

fn header_standalone(ck: &mut Ck, t: &Table, rng: &mut Rng) {
    let h: packed::Header = gen_p(t, rng, "Header", 300, false);
    let hb = h.as_slice().to_vec();
    check_header_view(ck, "header.into_view", || h.clone().into_view(), &hb);
    match guard(|| {
        let j: json::HeaderView = h.clone().into_view().into();
        let s = serde_json::to_string(&j).expect("to_string");
        let j2: json::HeaderView = serde_json::from_str(&s).expect("from_str");
        let jh = j2.hash.as_bytes().to_vec();
        let back: HeaderView = j2.into();
        (jh, back)
    }) {
        Ok((jh, back)) => {
            if jh[..] != b2(&hb)[..] {
                ck.fail("view-header.json-hash", "json HeaderView.hash differs from blake2b(header)", &hb);
            }
            check_header_view(ck, "header.json_roundtrip", || back, &hb);
        }
        Err(p) => ck.fail("view-header.json-panic", &p, &hb),
    }
    let s = builder_safe_header(rng, &h);
    let sb = s.as_slice().to_vec();
    check_header_view(ck, "header.packed_adv_build", || s.as_advanced_builder().build(), &sb);
    check_header_view(ck, "header.view_adv_build", || s.clone().into_view().as_advanced_builder().build(), &sb);
    let zero = [0u8; 208];
    check_header_view(
        ck,
        "header.new_adv_setters",
        || {
            // every field through its setter, starting from the default builder (whose fields are not all zero)
            let d = HeaderView::new_advanced_builder().build();
            let db = d.data().as_slice().to_vec();
            let mut b = HeaderView::new_advanced_builder();
            b = set_hdr_fields!(b, &zero[..], &sb[..]);
            b = set_hdr_fields!(b, &db[..], &sb[..]);
            b.build()
        },
        &sb,
    );
    for (name, _, _) in HDR_FIELDS {
        let nb = change_hdr_field(rng, &sb, name, true);
        if !builder_safe(&nb) {
            ck.out.count("skip-builder-unsafe");
            continue;
        }
        let path = format!("header.adv_setter_{}", name);
        check_header_view(
            ck,
            &path,
            || {
                let b = s.clone().into_view().as_advanced_builder();
                set_hdr_fields!(b, &sb[..], &nb[..]).build()
            },
            &nb,
        );
    }
}

fn uncle_standalone(ck: &mut Ck, t: &Table, rng: &mut Rng) {
    let u: packed::UncleBlock = gen_p(t, rng, "UncleBlock", 400, false);
    let ub = u.as_slice().to_vec();
    match guard(|| {
        let uv = u.clone().into_view();
        let mut e: Fails = vec![];
        uncle_view_fails(&mut e, "", &uv, &u);
        let j: json::UncleBlockView = uv.clone().into();
        let s = serde_json::to_string(&j).expect("to_string");
        let j2: json::UncleBlockView = serde_json::from_str(&s).expect("from_str");
        bad!(e, j2.header.hash.as_bytes() == &b2(u.header().as_slice())[..], "json-header-hash");
        let j3: json::UncleBlock = u.clone().into();
        let back: packed::UncleBlock = j3.into();
        bad!(e, back.as_slice() == u.as_slice(), "json-data");
        bad!(e, u.calc_header_hash().as_slice() == &b2(u.header().as_slice())[..], "packed-calc_header_hash");
        e
    }) {
        Ok(fs) => {
            for (a, m) in fs {
                ck.fail(&format!("view-uncle.into_view-{}", a), &m, &ub);
            }
        }
        Err(p) => ck.fail("view-uncle.into_view-panic", &p, &ub),
    }
    ck.out.count("check_uncle_view");
}

// ------------------------------------------------------------------------------------------------
// the commitment sweep: single-part changes

#[derive(Clone, Copy, PartialEq, Debug)]
enum Touch {
    None,
    Hdr,
    Txs,
    Props,
    Uncles,
    Ext,
}

struct Change {
    name: String,
    touch: Touch,
    p1: Parts,
    /// p1's touched list is p0's plus one item at the end
    push: bool,
    /// witness-only change of this transaction
    wit_idx: Option<usize>,
}

fn two_indices(rng: &mut Rng, n: usize) -> (usize, usize) {
    let i = rng.below(n as u64) as usize;
    let j = (i + 1 + rng.below(n as u64 - 1) as usize) % n;
    (i, j)
}

fn gen_uncle(t: &Table, rng: &mut Rng) -> packed::UncleBlock {
    let h: packed::Header = gen_p(t, rng, "Header", 300, false);
    let h = if rng.chance(1, 2) { builder_safe_header(rng, &h) } else { h };
    let k = match rng.below(5) {
        0 => 0,
        1 | 2 => 1,
        3 => 2,
        _ => rng.range(3, 4),
    };
    let ps: Vec<packed::ProposalShortId> = (0..k).map(|_| gen_p(t, rng, "ProposalShortId", 20, false)).collect();
    packed::UncleBlock::new_builder().header(h).proposals(props_vec(&ps)).build()
}

fn ext_bytes(rng: &mut Rng, len: usize) -> Vec<u8> {
    (0..len).map(|_| rng.next() as u8).collect()
}

fn gen_changes(t: &Table, rng: &mut Rng, p0: &Parts) -> Vec<Change> {
    let mut cs: Vec<Change> = vec![];
    let mut add = |name: &str, touch: Touch, p1: Parts, push: bool, wit_idx: Option<usize>| cs.push(Change { name: name.to_string(), touch, p1, push, wit_idx });
    add("nochange", Touch::None, p0.clone(), false, None);
    // proposals
    {
        let newp: packed::ProposalShortId = gen_p(t, rng, "ProposalShortId", 20, false);
        let n = p0.props.len();
        let mut p = p0.clone();
        p.props.push(newp.clone());
        add(if n == 0 { "prop-add-from-empty" } else { "prop-push" }, Touch::Props, p, true, None);
        if n > 0 {
            let i = rng.below(n as u64) as usize;
            let mut p = p0.clone();
            p.props.remove(i);
            add("prop-remove", Touch::Props, p, false, None);
            let i = rng.below(n as u64) as usize;
            let mut p = p0.clone();
            p.props[i] = gen_p(t, rng, "ProposalShortId", 20, false);
            add("prop-replace", Touch::Props, p, false, None);
            let mut p = p0.clone();
            p.props.clear();
            add("prop-clear", Touch::Props, p, false, None);
        }
        if n >= 2 {
            let (i, j) = two_indices(rng, n);
            let mut p = p0.clone();
            p.props.swap(i, j);
            add("prop-swap", Touch::Props, p, false, None);
        }
    }
    // transactions
    {
        let n = p0.txs.len();
        let newtx: packed::Transaction = gen_p(t, rng, "Transaction", 300, true);
        let mut p = p0.clone();
        p.txs.push(newtx);
        add("tx-push", Touch::Txs, p, true, None);
        if n > 0 {
            let i = rng.below(n as u64) as usize;
            let mut p = p0.clone();
            p.txs.remove(i);
            add("tx-remove", Touch::Txs, p, false, None);
            let i = rng.below(n as u64) as usize;
            let mut p = p0.clone();
            p.txs[i] = gen_p(t, rng, "Transaction", 300, true);
            add("tx-replace", Touch::Txs, p, false, None);
            let i = rng.below(n as u64) as usize;
            let mut p = p0.clone();
            p.txs.push(p0.txs[i].clone());
            add("tx-dup", Touch::Txs, p, true, None);
        }
        if n >= 2 {
            let (i, j) = two_indices(rng, n);
            let mut p = p0.clone();
            p.txs.swap(i, j);
            add("tx-swap", Touch::Txs, p, false, None);
        }
        // witness-only changes of one transaction
        if n > 0 {
            let i = rng.below(n as u64) as usize;
            let tx = &p0.txs[i];
            let ws: Vec<packed::Bytes> = tx.witnesses().into_iter().collect();
            let with = |ws: &[packed::Bytes]| {
                let mut p = p0.clone();
                p.txs[i] = tx.clone().as_builder().witnesses(packed::BytesVec::new_builder().extend(ws.iter().cloned()).build()).build();
                p
            };
            let w: packed::Bytes = gen_p(t, rng, "Bytes", 40, false);
            let mut w1 = ws.clone();
            w1.push(w);
            add("wit-push", Touch::Txs, with(&w1), false, Some(i));
            if !ws.is_empty() {
                let k = rng.below(ws.len() as u64) as usize;
                let mut w2 = ws.clone();
                w2.remove(k);
                add("wit-remove", Touch::Txs, with(&w2), false, Some(i));
                let k = rng.below(ws.len() as u64) as usize;
                let mut nw: packed::Bytes = gen_p(t, rng, "Bytes", 40, false);
                if nw.as_slice() == ws[k].as_slice() {
                    let mut raw = nw.raw_data().to_vec();
                    raw.push(0x5a);
                    nw = pbytes(&raw);
                }
                let mut w3 = ws.clone();
                w3[k] = nw;
                add("wit-replace", Touch::Txs, with(&w3), false, Some(i));
            }
        }
    }
    // uncles
    {
        let n = p0.uncles.len();
        let mut p = p0.clone();
        p.uncles.push(gen_uncle(t, rng));
        add("uncle-push", Touch::Uncles, p, true, None);
        if n > 0 {
            let i = rng.below(n as u64) as usize;
            let mut p = p0.clone();
            p.uncles.remove(i);
            add("uncle-remove", Touch::Uncles, p, false, None);
            let i = rng.below(n as u64) as usize;
            let mut p = p0.clone();
            p.uncles[i] = gen_uncle(t, rng);
            add("uncle-replace", Touch::Uncles, p, false, None);
            // only the PROPOSALS of one uncle: not committed by the block's extra_hash
            let i = rng.below(n as u64) as usize;
            let u = &p0.uncles[i];
            let mut ps: Vec<packed::ProposalShortId> = u.proposals().into_iter().collect();
            if !ps.is_empty() && rng.chance(1, 3) {
                ps.remove(rng.below(ps.len() as u64) as usize);
            } else {
                ps.push(gen_p(t, rng, "ProposalShortId", 20, false));
            }
            let mut p = p0.clone();
            p.uncles[i] = u.clone().as_builder().proposals(props_vec(&ps)).build();
            add("uncle-proposals", Touch::Uncles, p, false, None);
        }
        if n >= 2 {
            let (i, j) = two_indices(rng, n);
            let mut p = p0.clone();
            p.uncles.swap(i, j);
            add("uncle-swap", Touch::Uncles, p, false, None);
        }
    }
    // extension
    {
        let len = *rng.pick(&[1usize, 32, 96, 208]);
        let fresh = ext_bytes(rng, len);
        let with = |e: Option<Vec<u8>>| {
            let mut p = p0.clone();
            p.ext = e;
            p
        };
        match &p0.ext {
            None => {
                add("ext-absent-to-empty", Touch::Ext, with(Some(vec![])), false, None);
                add("ext-absent-to-nonempty", Touch::Ext, with(Some(fresh)), false, None);
            }
            Some(e) if e.is_empty() => {
                add("ext-empty-to-absent", Touch::Ext, with(None), false, None);
                add("ext-empty-to-nonempty", Touch::Ext, with(Some(fresh)), false, None);
            }
            Some(e) => {
                add("ext-nonempty-to-absent", Touch::Ext, with(None), false, None);
                add("ext-nonempty-to-empty", Touch::Ext, with(Some(vec![])), false, None);
                let mut other = if rng.chance(1, 2) { fresh } else { e.clone() };
                if &other == e {
                    let k = rng.below(other.len() as u64) as usize;
                    other[k] ^= 1 << rng.below(8);
                }
                add("ext-nonempty-to-other", Touch::Ext, with(Some(other)), false, None);
            }
        }
    }
    // header: non-commitment fields, then the commitment fields set to garbage
    let safe = builder_safe(&p0.header);
    for f in ["version", "compact_target", "timestamp", "number", "epoch", "parent_hash", "dao", "nonce"] {
        let mut p = p0.clone();
        p.header = change_hdr_field(rng, &p0.header, f, safe);
        add(&format!("hdr-{}", f), Touch::Hdr, p, false, None);
    }
    for f in ["transactions_root", "proposals_hash", "extra_hash"] {
        let mut p = p0.clone();
        p.header = change_hdr_field(rng, &p0.header, f, safe);
        add(&format!("garbage-{}", f), Touch::Hdr, p, false, None);
    }
    cs
}

// ------------------------------------------------------------------------------------------------
// the construction paths

struct Built {
    view: BlockView,
    /// failures found while constructing (JSON hash fields, packed identity): (accessor, text)
    extra: Fails,
}

/// views for a transaction list, taken from c0's caches where c0 already has the transaction
fn tx_views_from(c0: &BlockView, c0txs: &[TransactionView], p0: &Parts, txs: &[packed::Transaction], style: u64) -> Vec<TransactionView> {
    txs.iter()
        .enumerate()
        .map(|(i, tx)| {
            let j = if i < p0.txs.len() && p0.txs[i].as_slice() == tx.as_slice() { Some(i) } else { p0.txs.iter().position(|o| o.as_slice() == tx.as_slice()) };
            match j {
                Some(j) if (style >> (i % 16)) & 1 == 0 => c0txs[j].clone(),
                Some(j) => c0.transaction(j).expect("index in range"),
                None => tx.clone().into_view(),
            }
        })
        .collect()
}

fn uncle_views_from(c0: &BlockView, p0: &Parts, us: &[packed::UncleBlock], style: u64) -> Vec<UncleBlockView> {
    let all: Vec<UncleBlockView> = c0.uncles().into_iter().collect();
    us.iter()
        .enumerate()
        .map(|(i, u)| {
            let j = if i < p0.uncles.len() && p0.uncles[i].as_slice() == u.as_slice() { Some(i) } else { p0.uncles.iter().position(|o| o.as_slice() == u.as_slice()) };
            match j {
                Some(j) if (style >> (i % 16)) & 1 == 0 => all[j].clone(),
                Some(j) => c0.uncles().get(j).expect("index in range"),
                None => u.clone().into_view(),
            }
        })
        .collect()
}

/// apply the change on top of an advanced builder that already holds c0
fn adv_apply(b: BlockBuilder, from_view: bool, c0: &BlockView, c0txs: &[TransactionView], p0: &Parts, ch: &Change, style: u64) -> BlockBuilder {
    let p1 = &ch.p1;
    let how = (style >> 20) % 3;
    match ch.touch {
        Touch::None => b,
        Touch::Hdr => set_hdr_fields!(b, &p0.header[..], &p1.header[..]),
        Touch::Ext => b.extension(p1.ext.as_ref().map(|e| pbytes(e))),
        Touch::Props => {
            let last = p1.props.last().cloned();
            match (ch.push, how) {
                (true, 0) => b.proposal(last.unwrap()),
                (true, 1) => b.proposals(vec![last.unwrap()]),
                _ => b.set_proposals(p1.props.clone()),
            }
        }
        Touch::Txs => {
            let views = if from_view { tx_views_from(c0, c0txs, p0, &p1.txs, style) } else { p1.txs.iter().map(|x| x.clone().into_view()).collect() };
            match (ch.push, how) {
                (true, 0) => b.transaction(views.last().cloned().unwrap()),
                (true, 1) => b.transactions(vec![views.last().cloned().unwrap()]),
                _ => b.set_transactions(views),
            }
        }
        Touch::Uncles => {
            let views = if from_view { uncle_views_from(c0, p0, &p1.uncles, style) } else { p1.uncles.iter().map(|x| x.clone().into_view()).collect() };
            match (ch.push, how) {
                (true, 0) => b.uncle(views.last().cloned().unwrap()),
                (true, 1) => b.uncles(vec![views.last().cloned().unwrap()]),
                _ => b.set_uncles(views),
            }
        }
    }
}

fn new_adv(p1: &Parts, style: u64) -> BlockBuilder {
    let mut b = BlockView::new_advanced_builder();
    if style & 1 == 0 {
        b = b.header(hdr_of(p1).into_view());
    } else {
        // field by field; the default builder is not all zeros, so set against both
        let d = BlockView::new_advanced_builder().build_unchecked().data().header().as_slice().to_vec();
        b = set_hdr_fields!(b, &[0u8; 208][..], &p1.header[..]);
        b = set_hdr_fields!(b, &d[..], &p1.header[..]);
    }
    let tvs: Vec<TransactionView> = p1.txs.iter().map(|x| x.clone().into_view()).collect();
    let uvs: Vec<UncleBlockView> = p1.uncles.iter().map(|x| x.clone().into_view()).collect();
    b = match (style >> 1) % 3 {
        0 => b.set_transactions(tvs),
        1 => b.transactions(tvs),
        _ => tvs.into_iter().fold(b, |b, x| b.transaction(x)),
    };
    b = match (style >> 3) % 3 {
        0 => b.set_uncles(uvs),
        1 => b.uncles(uvs),
        _ => uvs.into_iter().fold(b, |b, x| b.uncle(x)),
    };
    b = match (style >> 5) % 3 {
        0 => b.set_proposals(p1.props.clone()),
        1 => b.proposals(p1.props.clone()),
        _ => p1.props.iter().cloned().fold(b, |b, x| b.proposal(x)),
    };
    b.extension(p1.ext.as_ref().map(|e| pbytes(e)))
}

/// None = the path does not apply to this change
fn build_path(id: &str, c0: &BlockView, c0txs: &[TransactionView], p0: &Parts, ch: &Change, style: u64) -> Option<Built> {
    let p1 = &ch.p1;
    let plain = |view: BlockView| Some(Built { view, extra: vec![] });
    match id {
        "P1" => plain(adv_apply(c0.as_advanced_builder(), true, c0, c0txs, p0, ch, style).build()),
        "P1u" => plain(adv_apply(c0.as_advanced_builder(), true, c0, c0txs, p0, ch, style).build_unchecked()),
        "P2" => plain(adv_apply(c0.data().as_advanced_builder(), false, c0, c0txs, p0, ch, style).build()),
        "P2u" => plain(adv_apply(c0.data().as_advanced_builder(), false, c0, c0txs, p0, ch, style).build_unchecked()),
        "P3" => {
            let b = c0.data().as_builder();
            let b = match ch.touch {
                Touch::None => b,
                Touch::Hdr => b.header(hdr_of(p1)),
                Touch::Txs => {
                    if style & 1 == 0 {
                        b.transactions(p1.txs.clone())
                    } else {
                        b.transactions(txs_vec(&p1.txs))
                    }
                }
                Touch::Props => b.proposals(props_vec(&p1.props)),
                Touch::Uncles => b.uncles(uncles_vec(&p1.uncles)),
                Touch::Ext if p1.ext.is_none() => b,
                Touch::Ext => return None,
            };
            plain(b.build().into_view())
        }
        "P3v1" => plain(assemble(p1).into_view()),
        "P3w" => plain(assemble(p1).into_view_without_reset_header()),
        "P4" => plain(assemble(p1).reset_header().into_view_without_reset_header()),
        "P5" => {
            let b = assemble(p1);
            let (th, wh) = (b.calc_tx_hashes(), b.calc_tx_witness_hashes());
            plain(b.reset_header_with_hashes(&th[..], &wh[..]).into_view_without_reset_header())
        }
        "P6" => plain(new_adv(p1, style).build()),
        "P6u" => plain(new_adv(p1, style).build_unchecked()),
        "P7" => {
            let hv = hdr_of(p1).into_view();
            // an UncleBlockVecView can only be obtained from a BlockView
            let uv = packed::Block::new_builder().uncles(uncles_vec(&p1.uncles)).build().into_view_without_reset_header().uncles();
            let body: Vec<TransactionView> = p1.txs.iter().map(|x| x.clone().into_view()).collect();
            plain(match &p1.ext {
                None => BlockView::new_unchecked(hv, uv, body, props_vec(&p1.props)),
                Some(e) => BlockView::new_unchecked_with_extension(hv, uv, body, props_vec(&p1.props), pbytes(e)),
            })
        }
        "P8a" => {
            let p = assemble(p1);
            let j: json::Block = p.clone().into();
            let s = serde_json::to_string(&j).expect("to_string");
            let j2: json::Block = serde_json::from_str(&s).expect("from_str");
            let back: packed::Block = j2.into();
            let mut extra: Fails = vec![];
            bad!(extra, back.as_slice() == p.as_slice(), "json-packed-identity", "packed -> json -> packed gives {}", trunc_hex(back.as_slice(), 600));
            Some(Built { view: back.into_view(), extra })
        }
        "P8b" => {
            // the view handed to JSON keeps c0's (now stale) header: its hash is still blake2b(header)
            let p = assemble(p1);
            let v0 = p.clone().into_view_without_reset_header();
            let f = recompute(&mut Dict::new(), &p);
            let j: json::BlockView = v0.into();
            let s = serde_json::to_string(&j).expect("to_string");
            let j2: json::BlockView = serde_json::from_str(&s).expect("from_str");
            let mut extra: Fails = vec![];
            bad!(extra, j2.header.hash.as_bytes() == &b2(&p1.header)[..], "json-header-hash");
            bad!(extra, j2.uncles.len() == f.uncle_hashes.len() && j2.uncles.iter().zip(&f.uncle_hashes).all(|(u, h)| u.header.hash.as_bytes() == &h[..]), "json-uncle-hash");
            bad!(extra, j2.transactions.len() == f.tx_hashes.len() && j2.transactions.iter().zip(&f.tx_hashes).all(|(x, h)| x.hash.as_bytes() == &h[..]), "json-transaction-hash");
            let back: BlockView = j2.into();
            Some(Built { view: back, extra })
        }
        other => panic!("unknown path {other}"),
    }
}

fn path_resets(id: &str) -> bool {
    !matches!(id, "P1u" | "P2u" | "P3w" | "P6u" | "P7")
}
fn path_needs_safe_header(id: &str) -> bool {
    matches!(id, "P1" | "P1u" | "P2" | "P2u" | "P6" | "P6u")
}

/// judge one constructed view against the intended parts
fn judge(ck: &mut Ck, id: &str, path: &str, c0: &BlockView, p0: &Parts, ch: &Change, built: &Built) {
    let v = &built.view;
    let data = v.data();
    for (a, m) in &built.extra {
        ck.fail(&format!("view-{}-{}", path, a), m, data.as_slice());
    }
    // P3 goes through the generated `Block::as_builder()`, which rebuilds the four declared fields only
    let mut pexp = ch.p1.clone();
    if id == "P3" {
        pexp.ext = None;
    }
    let reset = path_resets(id);
    let got = parts_of(&data);
    // (1) body
    let mut wrong: Vec<&str> = vec![];
    if !slices_eq(&got.txs, &pexp.txs) {
        wrong.push("transactions");
    }
    if !slices_eq(&got.props, &pexp.props) {
        wrong.push("proposals");
    }
    if !slices_eq(&got.uncles, &pexp.uncles) {
        wrong.push("uncles");
    }
    if got.ext != pexp.ext {
        wrong.push("extension");
    }
    if !wrong.is_empty() {
        ck.fail(&format!("view-{}-body", path), &format!("the built block's {} differ from the intended parts", wrong.join("/")), data.as_slice());
    }
    // (2) header
    let f = ck.fields(&data);
    let hb = &got.header;
    if reset {
        if hb[64..96] != f.transactions_root[..] {
            ck.fail(&format!("view-{}-transactions_root", path), "header.transactions_root differs from the recomputation over the new body", data.as_slice());
        }
        if hb[96..128] != f.proposals_hash[..] {
            ck.fail(&format!("view-{}-proposals_hash", path), "header.proposals_hash differs from the recomputation over the new body", data.as_slice());
        }
        if hb[128..160] != f.extra_hash[..] {
            ck.fail(&format!("view-{}-extra_hash", path), "header.extra_hash differs from the recomputation over the new body", data.as_slice());
        }
    } else if hb[64..160] != pexp.header[64..160] {
        ck.fail(&format!("view-{}-header-commitments-touched", path), "a non-reset path changed the header's commitment fields", data.as_slice());
    }
    if hb[..64] != pexp.header[..64] || hb[160..] != pexp.header[160..] {
        ck.fail(&format!("view-{}-header-other", path), "a header field other than the three commitments differs from the intended header", data.as_slice());
    }
    // (6) exact bytes: every path must produce the one block the independent assembly produces
    let want = if reset {
        let raw = assemble(&pexp);
        let fr = ck.fields(&raw);
        let mut q = pexp.clone();
        q.header[64..96].copy_from_slice(&fr.transactions_root);
        q.header[96..128].copy_from_slice(&fr.proposals_hash);
        q.header[128..160].copy_from_slice(&fr.extra_hash);
        assemble(&q)
    } else {
        assemble(&pexp)
    };
    if data.as_slice() != want.as_slice() {
        ck.fail(&format!("view-{}-bytes", path), &format!("block bytes differ from the independent assembly {}", trunc_hex(want.as_slice(), 500)), data.as_slice());
    }
    // (3) every accessor
    check_block_view(ck, path, v);
    // (4) the block hash changes iff a committed part changed
    if reset {
        let changed = committed_changed(p0, &pexp);
        if changed && v.hash() == c0.hash() {
            ck.fail(&format!("view-{}-hash-unchanged-after-{}", path, ch.name), "a committed part changed but the block hash did not", data.as_slice());
        }
        if !changed && v.hash() != c0.hash() {
            ck.fail(&format!("view-{}-hash-changed-without-change", path), "no committed part changed but the block hash did", data.as_slice());
        }
        ck.out.count(if changed { "iff-changed" } else { "iff-unchanged" });
    }
    // (5) witness-only change
    if let Some(i) = ch.wit_idx {
        let ok = guard(|| {
            let mut e: Fails = vec![];
            bad!(e, v.tx_hashes().get(i) == c0.tx_hashes().get(i), "witness-only-tx_hash-changed");
            bad!(e, v.tx_witness_hashes().get(i) != c0.tx_witness_hashes().get(i), "witness-only-witness_hash-unchanged");
            bad!(e, v.calc_raw_transactions_root() == c0.calc_raw_transactions_root(), "witness-only-raw_root-changed");
            bad!(e, v.calc_witnesses_root() != c0.calc_witnesses_root(), "witness-only-witnesses_root-unchanged");
            bad!(e, v.calc_transactions_root() != c0.calc_transactions_root(), "witness-only-calc_transactions_root-unchanged");
            if reset {
                bad!(e, v.transactions_root() != c0.transactions_root(), "witness-only-transactions_root-unchanged");
            }
            e
        });
        match ok {
            Ok(fs) => {
                for (a, m) in fs {
                    ck.fail(&format!("view-{}-{}", path, a), &m, data.as_slice());
                }
            }
            Err(p) => ck.fail(&format!("view-{}-panic", path), &p, data.as_slice()),
        }
    }
}

fn sweep(ck: &mut Ck, t: &Table, rng: &mut Rng, blk: &packed::Block) {
    ck.change = "base".into();
    let c0 = match guard(|| blk.clone().into_view()) {
        Ok(v) => v,
        Err(p) => {
            ck.fail("view-into_view-panic", &p, blk.as_slice());
            return;
        }
    };
    let c0txs = match guard(|| c0.transactions()) {
        Ok(x) => x,
        Err(p) => {
            ck.fail("view-into_view-panic", &p, blk.as_slice());
            return;
        }
    };
    let p0 = parts_of(&c0.data());
    let jsonv = p0.txs.iter().all(tx_json_ok);
    ck.out.count(if jsonv { "base-json-valid" } else { "base-json-invalid" });
    ck.out.count(if builder_safe(&p0.header) { "base-builder-safe" } else { "base-builder-unsafe" });
    let changes = gen_changes(t, rng, &p0);
    for ch in &changes {
        ck.change = ch.name.clone();
        ck.out.count(&format!("sweep-{}", ch.name));
        let safe = builder_safe(&ch.p1.header);
        for (id, path) in PATHS {
            if path_needs_safe_header(id) && !safe {
                ck.out.count("skip-builder-unsafe");
                continue;
            }
            if id.starts_with("P8") && !jsonv {
                ck.out.count("skip-json-invalid");
                continue;
            }
            let style = rng.next();
            match guard(|| build_path(id, &c0, &c0txs, &p0, ch, style)) {
                Ok(None) => ck.out.count("skip-path-not-applicable"),
                Ok(Some(built)) => {
                    judge(ck, id, path, &c0, &p0, ch, &built);
                    ck.out.count(&format!("path-{}", id));
                    MATRIX.with(|m| *m.borrow_mut().entry(ch.name.clone()).or_default().entry(id.to_string()).or_insert(0) += 1);
                }
                Err(p) => ck.fail(&format!("view-{}-panic", path), &format!("construction panicked: {}", p), assemble(&ch.p1).as_slice()),
            }
        }
    }
}

// ------------------------------------------------------------------------------------------------

/// all checks of one case; deterministic in (seed, blk)
pub fn view_case(out: &mut Out, t: &Table, seed: u64, blk: &packed::Block) {
    vblk_op(out, seed, blk);
    // two views built through construction paths of the view MODEL (Model/HashView.lean), dumped as
    // hash terms and compared with the model line by line
    vpath_op(out, vpath_choice(seed, blk), blk);
    vpath_op(out, vpath_choice(seed.wrapping_add(3), blk), blk);
    let mut rng = Rng::new(seed);
    let mut ck = Ck::new(out, seed);
    // A. the base block as it is (arbitrary header): no reset, reset, packed reset
    match guard(|| blk.clone().into_view_without_reset_header()) {
        Ok(v) => {
            if v.data().as_slice() != blk.as_slice() {
                ck.fail("view-into_view_without_reset_header-data", "into_view_without_reset_header() changed the block bytes", blk.as_slice());
            }
            check_block_view(&mut ck, "into_view_without_reset_header", &v);
        }
        Err(p) => ck.fail("view-into_view_without_reset_header-panic", &p, blk.as_slice()),
    }
    let raw_parts = parts_of(blk);
    for (path, which) in [("into_view", 0), ("reset_header", 1), ("reset_header_with_hashes", 2)] {
        let r = guard(|| match which {
            0 => blk.clone().into_view(),
            1 => blk.clone().reset_header().into_view_without_reset_header(),
            _ => {
                let (th, wh) = (blk.calc_tx_hashes(), blk.calc_tx_witness_hashes());
                blk.clone().reset_header_with_hashes(&th[..], &wh[..]).into_view_without_reset_header()
            }
        });
        match r {
            Ok(v) => {
                let d = v.data();
                let got = parts_of(&d);
                let f = ck.fields(&d);
                if !slices_eq(&got.txs, &raw_parts.txs) || !slices_eq(&got.props, &raw_parts.props) || !slices_eq(&got.uncles, &raw_parts.uncles) || got.ext != raw_parts.ext {
                    ck.fail(&format!("view-{}-body", path), "resetting the header changed the body", d.as_slice());
                }
                if got.header[64..96] != f.transactions_root[..] {
                    ck.fail(&format!("view-{}-transactions_root", path), "header.transactions_root differs from the recomputation", d.as_slice());
                }
                if got.header[96..128] != f.proposals_hash[..] {
                    ck.fail(&format!("view-{}-proposals_hash", path), "header.proposals_hash differs from the recomputation", d.as_slice());
                }
                if got.header[128..160] != f.extra_hash[..] {
                    ck.fail(&format!("view-{}-extra_hash", path), "header.extra_hash differs from the recomputation", d.as_slice());
                }
                if got.header[..64] != raw_parts.header[..64] || got.header[160..] != raw_parts.header[160..] {
                    ck.fail(&format!("view-{}-header-other", path), "resetting the header changed another header field", d.as_slice());
                }
                check_block_view(&mut ck, path, &v);
            }
            Err(p) => ck.fail(&format!("view-{}-panic", path), &p, blk.as_slice()),
        }
    }
    // standalone transaction / header / uncle views
    ck.change = "standalone".into();
    for _ in 0..2 {
        if let Err(p) = guard(|| tx_standalone(&mut ck, t, &mut rng)) {
            ck.fail("view-tx.standalone-panic", &p, &[]);
        }
    }
    if let Err(p) = guard(|| header_standalone(&mut ck, t, &mut rng)) {
        ck.fail("view-header.standalone-panic", &p, &[]);
    }
    if let Err(p) = guard(|| uncle_standalone(&mut ck, t, &mut rng)) {
        ck.fail("view-uncle.standalone-panic", &p, &[]);
    }
    // C. the commitment sweep from the consistent block
    if let Err(p) = guard(|| sweep(&mut ck, t, &mut rng, blk)) {
        ck.fail("view-sweep-panic", &p, blk.as_slice());
    }
    ck.out.count("view-case");
}

pub fn gen_block(t: &Table, rng: &mut Rng) -> packed::Block {
    let jsonv = rng.chance(4, 5);
    let n = match rng.below(100) {
        0..=9 => 0,
        10..=27 => 1,
        28..=47 => 2,
        48..=63 => 3,
        _ => rng.range(4, 12) as usize,
    };
    let budget = (1000 / (n as i64 + 1)).clamp(50, 400);
    let mut txs: Vec<packed::Transaction> = (0..n).map(|_| gen_p(t, rng, "Transaction", budget, jsonv)).collect();
    // the schema-directed generator usually runs out of budget before the (last) witnesses field
    for x in txs.iter_mut() {
        if rng.chance(3, 5) {
            let k = rng.range(1, 3);
            let ws: Vec<packed::Bytes> = (0..k).map(|_| gen_p(t, rng, "Bytes", 40, false)).collect();
            *x = x.clone().as_builder().witnesses(packed::BytesVec::new_builder().extend(ws).build()).build();
        }
    }
    if n > 0 && rng.chance(1, 6) {
        // no witnesses at all
        txs = txs.into_iter().map(|x| x.as_builder().witnesses(packed::BytesVec::default()).build()).collect();
    }
    if n >= 2 && rng.chance(1, 5) {
        // two IDENTICAL transactions
        let (i, j) = two_indices(rng, n);
        txs[j] = txs[i].clone();
    }
    if n >= 2 && rng.chance(1, 5) {
        // two transactions differing only in witnesses
        let (i, j) = two_indices(rng, n);
        let w: packed::Bytes = gen_p(t, rng, "Bytes", 30, false);
        txs[j] = txs[i].clone().as_builder().witnesses(txs[i].witnesses().as_builder().push(w).build()).build();
    }
    let nu = match rng.below(10) {
        0..=3 => 0,
        4..=6 => 1,
        7..=8 => 2,
        _ => 3,
    };
    let mut uncles: Vec<packed::UncleBlock> = (0..nu).map(|_| gen_uncle(t, rng)).collect();
    if nu >= 2 && rng.chance(1, 6) {
        uncles[1] = uncles[0].clone();
    }
    let np = match rng.below(10) {
        0..=2 => 0,
        3..=5 => rng.range(1, 2) as usize,
        _ => rng.range(3, 6) as usize,
    };
    let mut props: Vec<packed::ProposalShortId> = (0..np).map(|_| gen_p(t, rng, "ProposalShortId", 20, false)).collect();
    if np >= 2 && rng.chance(1, 4) {
        let (i, j) = two_indices(rng, np);
        props[j] = props[i].clone();
    }
    let header: packed::Header = gen_p(t, rng, "Header", 300, false);
    let header = if rng.chance(7, 10) { builder_safe_header(rng, &header) } else { header };
    let ext = match rng.below(10) {
        0..=3 => None,
        4..=5 => Some(vec![]),
        _ => {
            let len = *rng.pick(&[1usize, 32, 96, 208]);
            if len == 208 && rng.chance(1, 2) {
                Some(header.as_slice().to_vec())
            } else {
                Some(ext_bytes(rng, len))
            }
        }
    };
    let p = Parts { header: header.as_slice().to_vec(), uncles, txs, props, ext };
    match &p.ext {
        None => assemble(&p),
        // through the repo's own `as_v0()` as well
        Some(e) if rng.chance(1, 2) => packed::BlockV1::new_builder()
            .header(hdr_of(&p))
            .uncles(uncles_vec(&p.uncles))
            .transactions(txs_vec(&p.txs))
            .proposals(props_vec(&p.props))
            .extension(pbytes(e))
            .build()
            .as_v0(),
        Some(_) => assemble(&p),
    }
}

pub fn run_view(opts: &Opts, out: &mut Out) {
    let t = Table::new();
    let mut rng = Rng::new(opts.seed ^ 0x76696577);
    out.begin_case("cbmt");
    for n in 0..=40 {
        cbmt_op(out, n);
    }
    for _ in 0..(if opts.thorough() { 60 } else { 8 } * opts.scale) {
        let n = rng.range(41, if opts.thorough() { 3000 } else { 400 }) as usize;
        cbmt_op(out, n);
    }
    let rounds = if opts.thorough() { 5000 } else { 200 } * opts.scale;
    for _ in 0..rounds {
        out.begin_case("view");
        let blk = gen_block(&t, &mut rng);
        let seed = rng.next() >> 16;
        view_case(out, &t, seed, &blk);
        out.nontrivial(format!("view-{}-{}-{}", blk.transactions().len().min(6), blk.uncles().len().min(3), blk.proposals().len().min(3)));
    }
    // coverage: how often each (change, path) pair was constructed and judged
    MATRIX.with(|m| {
        let m = m.borrow();
        let min = m.values().flat_map(|r| r.values().copied()).min().unwrap_or(0);
        out.extra.insert("view_change_path_matrix".into(), serde_json::to_value(&*m).unwrap());
        out.extra.insert("view_change_path_min".into(), min.into());
        out.extra.insert("view_paths".into(), serde_json::to_value(PATHS.iter().map(|(a, b)| (a.to_string(), b.to_string())).collect::<BTreeMap<_, _>>()).unwrap());
    });
}

/// replay of one `view`-stream op line
pub fn replay_line(out: &mut Out, ts: &[&str]) {
    match ts[0] {
        "cbmt" => cbmt_op(out, ts[1].parse().expect("leaf count")),
        "vblk" => {
            let t = Table::new();
            let seed: u64 = ts[1].parse().expect("seed");
            let bs = unhex(ts[2]);
            let blk = packed::Block::from_compatible_slice(&bs).expect("vblk: a (compatible) Block encoding");
            view_case(out, &t, seed, &blk);
        }
        // emitted by the `vblk` line of the same case (view_case); a recorded copy is not re-run
        "vpath" => {}
        other => panic!("C15 view replay: unknown op {other}"),
    }
}
