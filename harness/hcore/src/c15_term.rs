//! C15, stream `view`: the hash-TERM registry and the two ops that are compared with the Lean model
//! (`lean/CkbVerif/Model/Hash.lean`, instantiated with the free term algebra `Dg`).
//!
//! A *term* says which bytes a 32-byte digest is the blake2b-256 of:
//!   0            Byte32::zero()
//!   h<hex>       blake2b(literal bytes)              (`h-` for the empty string)
//!   d(t1,..,tn)  blake2b(digest(t1) ‖ … ‖ digest(tn))   (CBMT merge = d(l,r), uncles hash, extra hash)
//!   ?xxxxxxxx    a digest the registry cannot explain
//! The registry is filled by an independent recomputation (array-indexed CBMT, plain concatenations);
//! a digest produced by the REAL code is then looked up: if it is found, the real bytes are exactly
//! the evaluation of that term, and the term is what the model must print.
//!
//!   cbmt <n>               -> <term>     REAL `ckb_types::utilities::merkle_root` over n leaves h<i as 2 bytes LE>
//!   vblk <seed> <blockhex> -> tr=<term> ph=<term> xh=<term>
//!                             REAL `packed::Block::into_view()` header fields transactions_root /
//!                             proposals_hash / extra_hash of the (compatible) Block given in hex
use super::*;
use ckb_types::utilities::merkle_root;

pub struct Dict(pub HashMap<[u8; 32], String>);

impl Dict {
    pub fn new() -> Dict {
        let mut m = HashMap::new();
        m.insert([0u8; 32], "0".to_string());
        Dict(m)
    }
    /// blake2b of literal bytes
    pub fn hb(&mut self, data: &[u8]) -> [u8; 32] {
        let h = b2(data);
        self.0.entry(h).or_insert_with(|| format!("h{}", hex(data)));
        h
    }
    /// blake2b of concatenated digests
    pub fn hd(&mut self, ds: &[[u8; 32]]) -> [u8; 32] {
        let h = b2(&ds.concat());
        if !self.0.contains_key(&h) {
            let t = format!("d({})", ds.iter().map(|d| self.term(d)).collect::<Vec<_>>().join(","));
            self.0.insert(h, t);
        }
        h
    }
    pub fn term(&self, d: &[u8]) -> String {
        let mut k = [0u8; 32];
        if d.len() == 32 {
            k.copy_from_slice(d);
            if let Some(t) = self.0.get(&k) {
                return t.clone();
            }
        }
        format!("?{}", &hex(d)[..8.min(hex(d).len())])
    }
    /// complete binary merkle tree, array form: node i has children 2i+1, 2i+2; leaves are the last n nodes
    pub fn cbmt(&mut self, leaves: &[[u8; 32]]) -> [u8; 32] {
        let n = leaves.len();
        if n == 0 {
            return [0u8; 32];
        }
        let mut nodes = vec![[0u8; 32]; 2 * n - 1];
        nodes[n - 1..].copy_from_slice(leaves);
        for i in (0..n - 1).rev() {
            nodes[i] = self.hd(&[nodes[2 * i + 1], nodes[2 * i + 2]]);
        }
        nodes[0]
    }
}

/// independent recomputation of the three body commitments of a (compatible) block
pub struct Fields {
    pub tx_hashes: Vec<[u8; 32]>,
    pub witness_hashes: Vec<[u8; 32]>,
    pub uncle_hashes: Vec<[u8; 32]>,
    pub raw_root: [u8; 32],
    pub witness_root: [u8; 32],
    pub transactions_root: [u8; 32],
    pub proposals_hash: [u8; 32],
    pub uncles_hash: [u8; 32],
    pub extension_hash: Option<[u8; 32]>,
    pub extra_hash: [u8; 32],
}

pub fn recompute(d: &mut Dict, blk: &packed::Block) -> Fields {
    let txs: Vec<packed::Transaction> = blk.transactions().into_iter().collect();
    let tx_hashes: Vec<[u8; 32]> = txs.iter().map(|x| d.hb(x.raw().as_slice())).collect();
    let witness_hashes: Vec<[u8; 32]> = txs.iter().map(|x| d.hb(x.as_slice())).collect();
    let raw_root = d.cbmt(&tx_hashes);
    let witness_root = d.cbmt(&witness_hashes);
    let transactions_root = d.hd(&[raw_root, witness_root]);
    let props: Vec<u8> = blk.proposals().into_iter().flat_map(|p| p.as_slice().to_vec()).collect();
    let proposals_hash = if props.is_empty() { [0u8; 32] } else { d.hb(&props) };
    let uncle_hashes: Vec<[u8; 32]> = blk.uncles().into_iter().map(|u| d.hb(u.header().as_slice())).collect();
    let uncles_hash = if uncle_hashes.is_empty() { [0u8; 32] } else { d.hd(&uncle_hashes) };
    let extension_hash = blk.extension().map(|e| d.hb(&e.raw_data()));
    let extra_hash = match extension_hash {
        None => uncles_hash,
        Some(e) => d.hd(&[uncles_hash, e]),
    };
    Fields { tx_hashes, witness_hashes, uncle_hashes, raw_root, witness_root, transactions_root, proposals_hash, uncles_hash, extension_hash, extra_hash }
}

pub fn cbmt_op(out: &mut Out, n: usize) {
    let mut d = Dict::new();
    let leaves: Vec<[u8; 32]> = (0..n).map(|i| d.hb(&[(i & 0xff) as u8, (i >> 8) as u8])).collect();
    let expect = d.cbmt(&leaves);
    let packed_leaves: Vec<packed::Byte32> = leaves.iter().map(|l| packed::Byte32::from_slice(l).unwrap()).collect();
    let real = merkle_root(&packed_leaves);
    if real.as_slice() != &expect[..] {
        out.oracle_fail("hash-cbmt", &format!("merkle_root over {} leaves differs from the complete-binary-merkle-tree recomputation", n));
    }
    out.op(&format!("cbmt {}", n), &d.term(real.as_slice()));
    out.count("cbmt");
}

pub fn vblk_op(out: &mut Out, seed: u64, blk: &packed::Block) {
    let mut d = Dict::new();
    let f = recompute(&mut d, blk);
    let v = blk.clone().into_view();
    let (tr, ph, xh) = (v.transactions_root(), v.proposals_hash(), v.extra_hash());
    if tr.as_slice() != &f.transactions_root[..] || ph.as_slice() != &f.proposals_hash[..] || xh.as_slice() != &f.extra_hash[..] {
        out.oracle_fail("view-reset-fields", &format!("Block::into_view() header fields differ from the recomputation over the body: {}", hex(blk.as_slice())));
    }
    out.op(
        &format!("vblk {} {}", seed, hex(blk.as_slice())),
        &format!("tr={} ph={} xh={}", d.term(tr.as_slice()), d.term(ph.as_slice()), d.term(xh.as_slice())),
    );
    out.count("vblk");
}

// ------------------------------------------------------------------------------------------------
// `vpath`: a view built through one construction path, dumped as terms (model: Model/HashView.lean)

/// the debug assertions of `HeaderBuilder::build()` hold for this header
pub fn header_builder_safe(h: &[u8]) -> bool {
    let ct = u32::from_le_bytes(h[4..8].try_into().unwrap());
    let number = u64::from_le_bytes(h[16..24].try_into().unwrap());
    let e = u64::from_le_bytes(h[24..32].try_into().unwrap());
    let (idx, len) = ((e >> 24) & 0xffff, (e >> 40) & 0xffff);
    ct > 0 && (number == 0 || (len > 0 && idx < len))
}

fn raw_term(b: &[u8]) -> String {
    if b.iter().all(|x| *x == 0) { "0".into() } else { format!("?{}", &hex(b)[..8]) }
}

impl Dict {
    /// term of the hash of a 208-byte header: `m<literal fields>(transactions_root,proposals_hash,extra_hash)`
    pub fn header_term(&self, h: &[u8], raw_fields: bool) -> String {
        let mut lit = h[..64].to_vec();
        lit.extend_from_slice(&h[160..]);
        let f = |b: &[u8]| if raw_fields { raw_term(b) } else { self.term(b) };
        format!("m{}({},{},{})", hex(&lit), f(&h[64..96]), f(&h[96..128]), f(&h[128..160]))
    }
}

fn join_terms(v: Vec<String>) -> String {
    if v.is_empty() { "-".into() } else { v.join(";") }
}

/// which path `vpath` takes for this (seed, block): builder paths only on builder-safe headers
pub fn vpath_choice(seed: u64, blk: &packed::Block) -> u64 {
    let k = seed % 8;
    if header_builder_safe(blk.header().as_slice()) || k == 0 || k == 5 {
        k
    } else if k % 2 == 0 {
        0
    } else {
        5
    }
}

pub fn vpath_op(out: &mut Out, k: u64, blk: &packed::Block) {
    use ckb_types::core::BlockView;
    let op = format!("vpath {} {}", k, hex(blk.as_slice()));
    let built = catch_unwind(AssertUnwindSafe(|| -> BlockView {
        let v0 = blk.clone().into_view();
        match k {
            0 => v0,
            1 => {
                let mut ps: Vec<packed::ProposalShortId> = v0.data().proposals().into_iter().collect();
                ps.reverse();
                v0.as_advanced_builder().set_proposals(ps).build()
            }
            2 => {
                let mut ts = v0.transactions();
                if let Some(last) = ts.pop() {
                    ts.insert(0, last);
                }
                v0.as_advanced_builder().set_transactions(ts).build()
            }
            3 => {
                let e = match v0.extension() {
                    Some(_) => None,
                    None => Some(packed::Bytes::default()),
                };
                v0.as_advanced_builder().extension(e).build()
            }
            4 => {
                let us: Vec<_> = v0.uncles().into_iter().skip(1).collect();
                v0.as_advanced_builder().set_uncles(us).build()
            }
            5 => blk.clone().into_view_without_reset_header(),
            6 => blk.as_advanced_builder().proposal(packed::ProposalShortId::from_slice(&[6u8; 10]).unwrap()).build_unchecked(),
            7 => {
                let mut body = v0.transactions();
                body.reverse();
                match v0.extension() {
                    Some(e) => BlockView::new_unchecked_with_extension(v0.header(), v0.uncles(), body, v0.data().proposals(), e),
                    None => BlockView::new_unchecked(v0.header(), v0.uncles(), body, v0.data().proposals()),
                }
            }
            _ => panic!("vpath: unknown path"),
        }
    }));
    let v = match built {
        Ok(v) => v,
        Err(e) => {
            out.op(&op, "panic");
            out.oracle_fail(&format!("view-vpath{}-panic", k), &format!("{} block={}", panic_text(e), hex(blk.as_slice())));
            return;
        }
    };
    let mut d = Dict::new();
    recompute(&mut d, &blk.clone().into_view_without_reset_header().data());
    let fv = recompute(&mut d, &v.data());
    let raw_fields = k == 5 || k == 6;
    {
        let eq = |a: &[packed::Byte32], b: &[[u8; 32]]| a.len() == b.len() && a.iter().zip(b).all(|(x, y)| x.as_slice() == &y[..]);
        let uh: Vec<packed::Byte32> = v.uncle_hashes().into_iter().collect();
        let n = fv.tx_hashes.len();
        let ti_ok = (0..n + 2).all(|i| match v.transaction(i) {
            Some(t) => i < n && t.hash().as_slice() == &fv.tx_hashes[i][..] && t.witness_hash().as_slice() == &fv.witness_hashes[i][..] && t.data().as_slice() == v.data().transactions().get(i).unwrap().as_slice(),
            None => i >= n,
        });
        if !eq(v.tx_hashes(), &fv.tx_hashes) || !eq(v.tx_witness_hashes(), &fv.witness_hashes) || !eq(&uh, &fv.uncle_hashes) || !ti_ok || v.hash().as_slice() != &b2(v.data().header().as_slice())[..] {
            out.oracle_fail(&format!("view-vpath{}-cache", k), &format!("a cached hash (tx_hashes / tx_witness_hashes / uncle_hashes / transaction(i) / hash) differs from the recomputation over the view's data: block={}", hex(blk.as_slice())));
        }
        if !raw_fields && k != 7 {
            let h = v.data().header();
            let h = h.as_slice();
            if h[64..96] != fv.transactions_root[..] || h[96..128] != fv.proposals_hash[..] || h[128..160] != fv.extra_hash[..] {
                out.oracle_fail(&format!("view-vpath{}-commitment", k), &format!("a reset path left a header commitment field that is not the recomputation over the new body: block={}", hex(blk.as_slice())));
            }
        }
    }
    let hdr = v.data().header();
    let h = hdr.as_slice();
    // register the header hash under its term
    let hh = b2(h);
    d.0.entry(hh).or_insert_with(|| String::new());
    let hterm = d.header_term(h, raw_fields);
    d.0.insert(hh, hterm);
    let f = |b: &[u8]| if raw_fields { raw_term(b) } else { d.term(b) };
    let n = v.data().transactions().len();
    let ti: Vec<String> = (0..n + 2)
        .map(|i| match v.transaction(i) {
            Some(t) => format!("{}/{}", d.term(t.hash().as_slice()), d.term(t.witness_hash().as_slice())),
            None => "none".into(),
        })
        .collect();
    let pp: Vec<u8> = v.data().proposals().into_iter().flat_map(|p| p.as_slice().to_vec()).collect();
    let dump = format!(
        "hash={} tr={} ph={} xh={} th={} wh={} uh={} ti={} pp={} ext={}",
        d.term(v.hash().as_slice()),
        f(&h[64..96]),
        f(&h[96..128]),
        f(&h[128..160]),
        join_terms(v.tx_hashes().iter().map(|x| d.term(x.as_slice())).collect()),
        join_terms(v.tx_witness_hashes().iter().map(|x| d.term(x.as_slice())).collect()),
        join_terms(v.uncle_hashes().into_iter().map(|x| d.term(x.as_slice())).collect()),
        join_terms(ti),
        hex(&pp),
        match v.extension() {
            None => "none".to_string(),
            Some(e) => format!("x{}", hex(&e.raw_data())),
        }
    );
    // every cached digest must be explained by the recomputation over the view's own data
    let explained = if raw_fields {
        let cut: Vec<&str> = dump.split(' ').filter(|t| !(t.starts_with("tr=") || t.starts_with("ph=") || t.starts_with("xh=") || t.starts_with("hash="))).collect();
        !cut.join(" ").contains('?') && v.hash().as_slice() == &hh[..]
    } else {
        !dump.contains('?')
    };
    if !explained {
        out.oracle_fail(&format!("view-vpath{}-unexplained-digest", k), &format!("a cached hash of the view is not the recomputation over its data: {} block={}", &dump[..dump.len().min(600)], hex(blk.as_slice())));
    }
    out.op(&op, &dump);
    out.count(&format!("vpath-{}", k));
}
