//! C07 — epoch length / difficulty / issuance arithmetic: the real functions are called directly on
//! boundary-biased random inputs and compared with the Lean model (lean/CkbVerif/Model/Epoch.lean
//! through lean/CkbVerif/Driver/C07.lean); the oracle evaluates the property's equalities and
//! inequalities on the implementation's outputs with independent wide-integer arithmetic (U1024).
//!
//! Protocol (numbers decimal or 0x-hex; `fail` = the implementation panicked or returned Err):
//!   consts                                  -> tau=.. min=.. max=.. ort=n/d bits=24,16,16 target=..
//!   c2t <compact>                           -> <target hex> <overflow 0|1>     compact_to_target
//!   t2c <target>                            -> <compact>                       target_to_compact
//!   c2d <compact>                           -> <difficulty hex>                compact_to_difficulty
//!   d2c <difficulty>                        -> <compact> | fail                difficulty_to_compact
//!   pow <compact> <digest> <nonce> <number> -> 0|1     EaglesongPowEngine::verify (digest = eaglesong of
//!                                                      the real header's pow message, computed here; the
//!                                                      model ignores nonce and number)
//!   enf <full_value>                        -> <number> <index> <length> wf=0|1 gen=0|1
//!   enfnew <number> <index> <length>        -> <full_value>                    new_unchecked
//!   succ <self> <pred>                      -> 0|1                             is_successor_of
//!   reward <start> <len> <base> <rem> <n>   -> <shannons> | fail               EpochExt::block_reward
//!   sec <start> <len> <epoch_issuance> <n>  -> <shannons> | fail               secondary_block_issuance
//!   nwf <number> <start> <len> <n>          -> <full_value>                    EpochExt::number_with_fraction
//!   prim <initial> <halving> <epoch_number> -> <shannons> | fail               Consensus::primary_epoch_reward
//!   next <T> <initial> <halving> <ortN> <ortD> <number> <base> <rem> <prevHR> <start> <len>
//!        <hdr_number> <hdr_compact> <uncles> <dur_ms>
//!                                           -> fail | <number> <base> <rem> <hr hex> <start> <len> <compact>
//!                                              Consensus::next_epoch_ext through a mock EpochProvider
//!   nextperm <T> <initial> <halving> <number> <base> <rem> <prevHR> <start> <len> <hdr_number> <compact>
//!                                           -> fail | <number> <base> <rem> <hr hex> <start> <len> <compact>
//!                                              the same with Pow::Dummy + permanent_difficulty_in_dummy
//!   genesis <reward> <compact> <len> <T> <on> <od> -> fail | <base> <rem> <hr hex> <len> <compact>
//!                                              build_genesis_epoch_ext
//!   uadd|usub|umul|udiv|urem <a> <b>        -> <hex> | fail      numext U256 operators (panic = fail)
//!   ugcd <a> <b> -> <hex>   ucmp <a> <b> -> lt|eq|gt   ushl|ushr <a> <k> -> <hex>
//!   ulz|utz|ulow <a>                        -> leading_zeros / trailing_zeros / lowest limb (decimal)
//!   rnew <n> <d> | rmul|rdiv <an> <ad> <bn> <bd> | rmulu|raddu|rsatsub <an> <ad> <u>
//!                                           -> <numer>/<denom> (decimal) | fail     ckb_rational::RationalU256 on
//!                                              raw (unreduced) operands;  rgt -> 0|1|fail;  rfloor <an> <ad> -> <hex>|fail
use crate::common::*;
use ckb_chain_spec::consensus::{Consensus, ConsensusBuilder};
use ckb_pow::{EaglesongPowEngine, PowEngine};
use ckb_rational::RationalU256;
use ckb_traits::{BlockEpoch, EpochProvider};
use ckb_types::{
    U256,
    core::{BlockExt, BlockNumber, Capacity, EpochExt, EpochNumberWithFraction, HeaderBuilder, HeaderView},
    packed::Byte32,
    utilities::{compact_to_difficulty, compact_to_target, difficulty_to_compact, target_to_compact},
};
use numext_fixed_uint::U1024;
use std::panic::{AssertUnwindSafe, catch_unwind};

const MAINNET_INITIAL: u64 = 1_917_808_21917808;
const MAINNET_SECONDARY: u64 = 613_698_63013698;

fn hx(u: &U256) -> String {
    format!("{:#x}", u)
}

fn u256_from_hex(s: &str) -> U256 {
    let s = s.strip_prefix("0x").unwrap_or_else(|| panic!("hex expected: {s}"));
    U256::from_hex_str(s).unwrap_or_else(|_| panic!("bad hex {s}"))
}

fn parse_u256(s: &str) -> U256 {
    if s.starts_with("0x") { u256_from_hex(s) } else { U256::from(s.parse::<u64>().expect("u64")) }
}

fn parse_u64(s: &str) -> u64 {
    if let Some(h) = s.strip_prefix("0x") { u64::from_str_radix(h, 16).expect("hex u64") } else { s.parse().expect("u64") }
}

fn big(u: &U256) -> U1024 {
    let mut b = [0u8; 32];
    u.into_big_endian(&mut b).unwrap();
    let mut w = [0u8; 128];
    w[96..].copy_from_slice(&b);
    U1024::from_big_endian(&w).unwrap()
}

fn big64(x: u64) -> U1024 {
    U1024::from(x)
}

/// random U256 with a uniformly chosen bit length (so every magnitude is exercised)
fn rand_u256(rng: &mut Rng) -> U256 {
    let bits = rng.range(0, 256);
    if bits == 0 {
        return U256::zero();
    }
    let mut b = [0u8; 32];
    for x in b.iter_mut() {
        *x = rng.next() as u8;
    }
    let mut v = U256::from_big_endian(&b).unwrap();
    v = v >> (256 - bits as u32);
    // force the top bit so the length is exact
    v | (U256::one() << (bits as u32 - 1))
}

fn rand_u64_biased(rng: &mut Rng) -> u64 {
    match rng.below(8) {
        0 => 0,
        1 => 1,
        2 => u64::MAX,
        3 => u64::MAX - rng.below(3),
        4 => 1u64 << rng.below(64),
        5 => (1u64 << rng.range(1, 63)) - 1,
        _ => {
            let bits = rng.range(1, 64);
            rng.next() >> (64 - bits)
        }
    }
}

thread_local! { static QUIET: std::cell::Cell<bool> = const { std::cell::Cell::new(false) }; }

/// run code under test; a panic is an answer (`None`), not noise
fn quiet<T>(f: impl FnOnce() -> T) -> Option<T> {
    QUIET.with(|q| q.set(true));
    let r = catch_unwind(AssertUnwindSafe(f)).ok();
    QUIET.with(|q| q.set(false));
    r
}

struct Mock {
    epoch: EpochExt,
    uncles: u64,
    dur: u64,
}

impl EpochProvider for Mock {
    fn get_epoch_ext(&self, _h: &HeaderView) -> Option<EpochExt> {
        Some(self.epoch.clone())
    }
    fn get_block_hash(&self, _n: BlockNumber) -> Option<Byte32> {
        None
    }
    fn get_block_ext(&self, _h: &Byte32) -> Option<BlockExt> {
        None
    }
    fn get_block_header(&self, _h: &Byte32) -> Option<HeaderView> {
        None
    }
    fn get_block_epoch(&self, _h: &HeaderView) -> Option<BlockEpoch> {
        Some(BlockEpoch::TailBlock {
            epoch: self.epoch.clone(),
            epoch_uncles_count: self.uncles,
            epoch_duration_in_milliseconds: self.dur,
        })
    }
}

fn mk_epoch(start: u64, len: u64, base: u64, rem: u64) -> EpochExt {
    EpochExt::new_builder()
        .number(0)
        .base_block_reward(Capacity::shannons(base))
        .remainder_reward(Capacity::shannons(rem))
        .start_number(start)
        .length(len)
        .build()
}

struct Ctx {
    consensus: Consensus,
    /// Pow::Dummy + permanent_difficulty_in_dummy
    perm: Consensus,
    min_len: u64,
    max_len: u64,
}

#[derive(Clone, Debug)]
struct NextIn {
    t: u64,
    initial: u64,
    halving: u64,
    ort: (u32, u32),
    number: u64,
    base: u64,
    rem: u64,
    prev_hr: U256,
    start: u64,
    len: u64,
    hdr_number: u64,
    hdr_compact: u32,
    uncles: u64,
    dur: u64,
}

impl NextIn {
    fn line(&self) -> String {
        format!(
            "next {} {} {} {} {} {} {} {} {} {} {} {} {:#x} {} {}",
            self.t, self.initial, self.halving, self.ort.0, self.ort.1, self.number, self.base, self.rem, hx(&self.prev_hr), self.start, self.len,
            self.hdr_number, self.hdr_compact, self.uncles, self.dur
        )
    }
    fn parse(t: &[&str]) -> NextIn {
        NextIn {
            t: parse_u64(t[1]),
            initial: parse_u64(t[2]),
            halving: parse_u64(t[3]),
            ort: (parse_u64(t[4]) as u32, parse_u64(t[5]) as u32),
            number: parse_u64(t[6]),
            base: parse_u64(t[7]),
            rem: parse_u64(t[8]),
            prev_hr: parse_u256(t[9]),
            start: parse_u64(t[10]),
            len: parse_u64(t[11]),
            hdr_number: parse_u64(t[12]),
            hdr_compact: parse_u64(t[13]) as u32,
            uncles: parse_u64(t[14]),
            dur: parse_u64(t[15]),
        }
    }
}

/// floor(a / b) on U1024, None on b == 0 or overflow upstream
fn bdiv(a: &U1024, b: &U1024) -> Option<U1024> {
    if b.is_zero() { None } else { Some(a / b) }
}

fn bmul(xs: &[U1024]) -> Option<U1024> {
    let mut acc = U1024::one();
    for x in xs {
        acc = acc.checked_mul(x)?;
    }
    Some(acc)
}

/// The property's side of `next`, on the implementation's output, with exact wide arithmetic that
/// shares nothing with RationalU256 or the model.
fn next_oracle(out: &mut Out, ctx: &Ctx, i: &NextIn, e: &EpochExt) {
    let l2 = e.length();
    // (a) length bounds
    if i.len >= ctx.min_len && i.len <= ctx.max_len {
        if !(l2 >= ctx.min_len && l2 <= ctx.max_len) {
            out.oracle_fail("next-length-out-of-consensus-bounds", &format!("{} -> L'={}", i.line(), l2));
        }
        if !(l2 >= i.len / 2 && l2 <= i.len * 2) {
            out.oracle_fail("next-length-more-than-factor-two", &format!("{} -> L'={}", i.line(), l2));
        }
    }
    // (b) difficulty never zero
    let diff2 = compact_to_difficulty(e.compact_target());
    if diff2.is_zero() {
        out.oracle_fail("next-difficulty-zero", &format!("{} -> compact={:#x}", i.line(), e.compact_target()));
    }
    // (c) hash-rate estimate clamped to a factor two of the previous estimate, and >= 1
    let adj = e.previous_epoch_hash_rate().clone();
    if adj.is_zero() {
        out.oracle_fail("next-hash-rate-zero", &i.line());
    }
    if !i.prev_hr.is_zero() {
        let lo = big(&i.prev_hr) / big64(2);
        let hi = big(&i.prev_hr) * big64(2);
        let a = big(&adj);
        if a < lo || a > hi {
            out.oracle_fail("next-hash-rate-not-clamped", &format!("{} -> {}", i.line(), hx(&adj)));
        }
    }
    // the estimate itself: clamp(diff * (L + u) / max(ms/1000,1))
    let diff = compact_to_difficulty(i.hdr_compact);
    let d_secs = std::cmp::max(i.dur / 1000, 1);
    let raw_hr = big(&diff) * (big64(i.len) + big64(i.uncles)) / big64(d_secs);
    let expect_adj = {
        let mut v = raw_hr.clone();
        if !i.prev_hr.is_zero() {
            let lo = big(&i.prev_hr) / big64(2);
            let hi = big(&i.prev_hr) * big64(2);
            if v < lo {
                v = lo
            } else if v > hi {
                v = hi
            }
        }
        if v.is_zero() { U1024::one() } else { v }
    };
    if big(&adj) != expect_adj {
        out.oracle_fail("next-hash-rate-estimate", &format!("{} -> {} expected {:#x}", i.line(), hx(&adj), expect_adj));
    }
    // (d) epoch reward: base' * L' + rem' = scheduled primary issuance, rem' < L'
    if i.halving > 0 {
        let n1 = i.number as u128 + 1;
        let expect_r: Option<u128> = if n1 % i.halving as u128 == 0 {
            let h = n1 / i.halving as u128;
            if h < 64 { Some((i.initial >> h) as u128) } else { None }
        } else {
            Some(i.base as u128 * i.len as u128 + i.rem as u128)
        };
        let got = e.base_block_reward().as_u64() as u128 * l2 as u128 + e.remainder_reward().as_u64() as u128;
        if expect_r != Some(got) || e.remainder_reward().as_u64() >= l2 {
            out.oracle_fail("next-epoch-reward", &format!("{} -> base={} rem={} L'={} expected total {:?}", i.line(), e.base_block_reward(), e.remainder_reward(), l2, expect_r));
        }
    }
    if e.number() as u128 != i.number as u128 + 1 || e.start_number() as u128 != i.hdr_number as u128 + 1 {
        out.oracle_fail("next-epoch-number-or-start", &i.line());
    }
    // (e) difficulty = max(1, floor(HR_adj * T / ((1 + o) * L'))) with o per RFC branch
    let (u, l, t, d, lp) = (big64(i.uncles), big64(i.len), big64(i.t), big64(d_secs), big64(l2));
    let (on, od) = (big64(i.ort.0 as u64), big64(i.ort.1 as u64));
    let formula: Option<(U1024, U1024, &str)> = (|| {
        if i.uncles == 0 {
            return Some((U1024::zero(), U1024::one(), "o=0"));
        }
        // was the length bounded?  raw = floor(o_ideal (1+o_i) T L / (o_i (1+o_ideal) D)), low 64 bits
        let raw_n = bmul(&[on.clone(), &u + &l, t.clone(), l.clone()])?;
        let raw_d = bmul(&[u.clone(), &on + &od, d.clone()])?;
        let raw = bdiv(&raw_n, &raw_d)?;
        let raw64 = raw % (U1024::one() << 64u32);
        let max_l = std::cmp::min(ctx.max_len as u128, i.len as u128 * 2);
        let min_l = std::cmp::max(ctx.min_len, i.len / 2);
        let bound = raw64 > U1024::from(max_l) || raw64 < big64(min_l);
        if !bound {
            return Some((on.clone(), od.clone(), "o=ideal"));
        }
        // o_{i+1} = 1 / ( (1+o_i) T L / (o_i D L') - 1 ), or o_ideal when that reciprocal is <= 0
        let a = bmul(&[&u + &l, t.clone(), l.clone()])?;
        let b = bmul(&[u.clone(), d.clone(), lp.clone()])?;
        if a <= b { Some((on.clone(), od.clone(), "o=ideal-fallback")) } else { Some((b.clone(), &a - &b, "o=estimated")) }
    })();
    if let Some((p, q, tag)) = formula {
        out.count(&format!("next-branch-{tag}"));
        if !(&p + &q).is_zero() && l2 != 0 {
            let num = bmul(&[big(&adj), t.clone(), q.clone()]);
            let den = bmul(&[&p + &q, lp.clone()]);
            if let (Some(num), Some(den)) = (num, den) {
                let mut want = &num / &den;
                if want.is_zero() {
                    want = U1024::one();
                }
                if want < (U1024::one() << 256u32) {
                    let mut w = [0u8; 128];
                    want.into_big_endian(&mut w).unwrap();
                    let want256 = U256::from_big_endian(&w[96..]).unwrap();
                    let want_compact = difficulty_to_compact(want256.clone());
                    if want_compact != e.compact_target() {
                        out.oracle_fail(
                            "next-difficulty-formula",
                            &format!("{} -> compact={:#x} expected {:#x} (diff {}) branch {}", i.line(), e.compact_target(), want_compact, hx(&want256), tag),
                        );
                    }
                }
            }
        }
    }
}

fn do_next(out: &mut Out, ctx: &mut Ctx, i: &NextIn) {
    ctx.consensus.epoch_duration_target = i.t;
    ctx.consensus.initial_primary_epoch_reward = Capacity::shannons(i.initial);
    ctx.consensus.primary_epoch_reward_halving_interval = i.halving;
    ctx.consensus.orphan_rate_target = RationalU256::new_raw(U256::from(i.ort.0), U256::from(i.ort.1));
    let epoch = EpochExt::new_builder()
        .number(i.number)
        .base_block_reward(Capacity::shannons(i.base))
        .remainder_reward(Capacity::shannons(i.rem))
        .previous_epoch_hash_rate(i.prev_hr.clone())
        .start_number(i.start)
        .length(i.len)
        .compact_target(i.hdr_compact)
        .build();
    let header = HeaderBuilder::default().number(i.hdr_number).epoch(EpochNumberWithFraction::new(1, 0, 1000)).compact_target(i.hdr_compact).build();
    let mock = Mock { epoch, uncles: i.uncles, dur: i.dur };
    let consensus = &ctx.consensus;
    let res = quiet(|| consensus.next_epoch_ext(&header, &mock).map(|n| n.epoch()));
    let ans = match &res {
        Some(Some(e)) => {
            if e.last_block_hash_in_previous_epoch() != header.hash() {
                out.oracle_fail("next-last-block-hash", &i.line());
            }
            format!(
                "{} {} {} {} {} {} {}",
                e.number(),
                e.base_block_reward().as_u64(),
                e.remainder_reward().as_u64(),
                hx(e.previous_epoch_hash_rate()),
                e.start_number(),
                e.length(),
                e.compact_target()
            )
        }
        _ => "fail".to_string(),
    };
    out.op(&i.line(), &ans);
    out.count(if ans == "fail" { "next-fail" } else { "next-ok" });
    if let Some(Some(e)) = &res {
        next_oracle(out, ctx, i, e);
        if i.len >= ctx.min_len && i.len <= ctx.max_len {
            out.nontrivial(format!("{} {} {} {} {}", i.len, i.uncles, i.dur, e.length(), e.compact_target()));
        }
    }
}

fn do_nextperm(out: &mut Out, ctx: &mut Ctx, t: u64, initial: u64, halving: u64, number: u64, base: u64, rem: u64, prev_hr: &U256, start: u64, len: u64, hn: u64, compact: u32) {
    ctx.perm.epoch_duration_target = t;
    ctx.perm.initial_primary_epoch_reward = Capacity::shannons(initial);
    ctx.perm.primary_epoch_reward_halving_interval = halving;
    let epoch = EpochExt::new_builder()
        .number(number)
        .base_block_reward(Capacity::shannons(base))
        .remainder_reward(Capacity::shannons(rem))
        .previous_epoch_hash_rate(prev_hr.clone())
        .start_number(start)
        .length(len)
        .compact_target(compact)
        .build();
    let header = HeaderBuilder::default().number(hn).epoch(EpochNumberWithFraction::new(1, 0, 1000)).compact_target(compact.max(1)).build();
    let mock = Mock { epoch, uncles: 0, dur: 0 };
    let c = &ctx.perm;
    let res = quiet(|| c.next_epoch_ext(&header, &mock).map(|n| n.epoch()));
    let line = format!("nextperm {t} {initial} {halving} {number} {base} {rem} {} {start} {len} {hn} {:#x}", hx(prev_hr), compact);
    let ans = match &res {
        Some(Some(e)) => {
            // the dev-chain arm must still hand out exactly the scheduled reward
            let got = e.base_block_reward().as_u64() as u128 * e.length() as u128 + e.remainder_reward().as_u64() as u128;
            if halving > 0 {
                let n1 = number as u128 + 1;
                let want = if n1 % halving as u128 == 0 { let h = n1 / halving as u128; if h < 64 { Some((initial >> h) as u128) } else { None } } else { Some(base as u128 * len as u128 + rem as u128) };
                if want != Some(got) || e.remainder_reward().as_u64() >= e.length() {
                    out.oracle_fail("nextperm-epoch-reward", &line);
                }
            }
            format!("{} {} {} {} {} {} {}", e.number(), e.base_block_reward().as_u64(), e.remainder_reward().as_u64(), hx(e.previous_epoch_hash_rate()), e.start_number(), e.length(), e.compact_target())
        }
        _ => "fail".to_string(),
    };
    out.op(&line, &ans);
    out.count("nextperm");
}

fn do_genesis(out: &mut Out, r: u64, compact: u32, len: u64, t: u64, on: u32, od: u32) {
    let res = quiet(|| ckb_chain_spec::consensus::build_genesis_epoch_ext(Capacity::shannons(r), compact, len, t, (on, od)));
    let line = format!("genesis {r} {:#x} {len} {t} {on} {od}", compact);
    let ans = match &res {
        Some(e) => {
            if e.base_block_reward().as_u64() as u128 * len as u128 + e.remainder_reward().as_u64() as u128 != r as u128 {
                out.oracle_fail("genesis-epoch-reward", &line);
            }
            format!("{} {} {} {} {}", e.base_block_reward().as_u64(), e.remainder_reward().as_u64(), hx(e.previous_epoch_hash_rate()), e.length(), e.compact_target())
        }
        None => "fail".to_string(),
    };
    out.op(&line, &ans);
    out.count("genesis");
}

fn gen_compact(rng: &mut Rng) -> u32 {
    match rng.below(10) {
        0 => 0x1a08a8b1,
        1 => 0x2080_0000,
        2 => 0x2001_0000,
        3 => 0x1d00_ffff,
        4 => (rng.range(0, 40) as u32) << 24,                                   // zero mantissa
        5 => ((rng.range(33, 255) as u32) << 24) | (rng.next() as u32 & 0xff_ffff), // overflow range
        6 => ((rng.range(0, 4) as u32) << 24) | (rng.next() as u32 & 0xff_ffff),   // tiny exponents
        7 => rng.next() as u32,
        _ => ((rng.range(1, 33) as u32) << 24) | (rng.next() as u32 & 0xff_ffff),
    }
}

fn gen_next(rng: &mut Rng, ctx: &Ctx) -> NextIn {
    let t = match rng.below(12) {
        0 => 1,
        1 => 8,
        2 => rng.range(1, 100_000),
        3 => rand_u64_biased(rng),
        _ => 14_400,
    };
    let initial = match rng.below(8) {
        0 => rand_u64_biased(rng),
        1 => rng.range(0, 5000),
        _ => MAINNET_INITIAL,
    };
    let halving = match rng.below(8) {
        0 => rng.range(1, 4),
        1 => rng.range(1, 100),
        2 => rand_u64_biased(rng).max(1),
        _ => 8760,
    };
    let ort = match rng.below(10) {
        0 => (rng.range(0, 5) as u32, rng.range(1, 50) as u32),
        1 => (rng.next() as u32, (rng.next() as u32).max(1)),
        _ => (1, 40),
    };
    let number = match rng.below(10) {
        0 => halving.saturating_mul(rng.range(1, 70)).saturating_sub(1),
        1 => halving.saturating_mul(rng.range(1, 70)).saturating_sub(2),
        2 => halving.saturating_mul(rng.range(1, 70)),
        3 => rand_u64_biased(rng),
        _ => rng.range(0, 20_000),
    };
    let len = match rng.below(16) {
        0 => ctx.min_len,
        1 => ctx.max_len,
        2 => ctx.max_len / 2 + rng.range(0, 2) - 1,
        3 => ctx.min_len * 2 + rng.range(0, 2) - 1,
        4 => rng.range(1, ctx.min_len),
        5 => rng.range(ctx.max_len, ctx.max_len * 3),
        6 => rand_u64_biased(rng),
        _ => rng.range(ctx.min_len, ctx.max_len),
    };
    let (base, rem) = match rng.below(8) {
        0 => (rand_u64_biased(rng), rand_u64_biased(rng)),
        _ => {
            let r = initial >> (rng.below(4));
            if len == 0 { (r, 0) } else { (r / len, r % len) }
        }
    };
    let hdr_compact = match rng.below(6) {
        0 => gen_compact(rng),
        1 => ((rng.range(4, 32) as u32) << 24) | (rng.next() as u32 & 0xff_ffff),
        2 => 0x2080_0000,
        3 => 0x2100_0001 - rng.range(0, 2) as u32 * 0x0100_0000,
        _ => 0x1a08a8b1u32.wrapping_add(rng.below(0x100000) as u32),
    }
    .max(1); // HeaderBuilder debug-asserts a non-zero compact target
    let uncles = match rng.below(12) {
        0 | 1 => 0,
        2 => 1,
        3 => len / 40,
        4 => (len / 40).saturating_add(rng.range(0, 2)).saturating_sub(1),
        5 => len.saturating_mul(2),
        6 => rand_u64_biased(rng),
        7 => rng.range(0, len.saturating_mul(2).min(1 << 40)),
        _ => rng.range(0, (len / 10).max(1)),
    };
    let ideal_ms = t.saturating_mul(1000);
    let dur = match rng.below(14) {
        0 => 0,
        1 => 1,
        2 => 999,
        3 => 1000,
        4 => 1999,
        5 => ideal_ms / 4,
        6 => ideal_ms / 2,
        7 => ideal_ms.saturating_mul(2),
        8 => ideal_ms.saturating_mul(4),
        9 => rand_u64_biased(rng),
        10 => rng.range(0, ideal_ms.saturating_mul(8).clamp(1, u64::MAX - 1)),
        _ => ideal_ms.saturating_add(rng.range(0, 2_000_000)).saturating_sub(1_000_000),
    };
    // previous hash rate: around the clamp boundaries of the estimate that this epoch will produce
    let diff = compact_to_difficulty(hdr_compact);
    let d_secs = std::cmp::max(dur / 1000, 1);
    let hr = quiet(|| &diff * (len.wrapping_add(uncles)) / U256::from(d_secs)).unwrap_or_else(U256::zero);
    let two = U256::from(2u64);
    let prev_hr = match rng.below(14) {
        0 => U256::zero(),
        1 => U256::one(),
        2 => hr.clone(),
        3 => hr.checked_mul(&two).unwrap_or_else(U256::max_value),
        4 => hr.checked_mul(&two).and_then(|x| x.checked_add(&U256::one())).unwrap_or_else(U256::max_value),
        5 => hr.checked_mul(&two).and_then(|x| x.checked_add(&two)).unwrap_or_else(U256::max_value),
        6 => hr.checked_mul(&two).and_then(|x| x.checked_sub(&U256::one())).unwrap_or_else(U256::zero),
        7 => &hr / &two,
        8 => (&hr / &two).checked_add(&U256::one()).unwrap(),
        9 => (&hr / &two).checked_sub(&U256::one()).unwrap_or_else(U256::zero),
        10 => rand_u256(rng),
        11 => U256::max_value() >> (rng.below(3) as u32),
        _ => {
            // within a factor of four either way
            let k = rng.range(1, 16);
            (&hr / U256::from(4u64)).checked_mul(&U256::from(k)).unwrap_or_else(U256::max_value)
        }
    };
    let start = match rng.below(10) {
        0 => rand_u64_biased(rng),
        _ => rng.range(0, 10_000_000),
    };
    let hdr_number = match rng.below(12) {
        0 => u64::MAX,
        1 => rand_u64_biased(rng),
        _ => start.wrapping_add(len).wrapping_sub(1),
    };
    NextIn { t, initial, halving, ort, number, base, rem, prev_hr, start, len, hdr_number, hdr_compact, uncles, dur }
}

// ------------------------------------------------------------------------------------------------
// simple ops: each executes one op line on the real code and returns the canonical answer

fn op_c2t(out: &mut Out, c: u32) {
    let (t, o) = compact_to_target(c);
    out.op(&format!("c2t {:#x}", c), &format!("{} {}", hx(&t), o as u8));
    out.count("c2t");
    // property: a non-overflowing compact's target re-encodes to a compact decoding to the same target;
    // the canonical re-encoding is a fixed point
    if !o && !t.is_zero() {
        let c2 = target_to_compact(t.clone());
        let (t2, o2) = compact_to_target(c2);
        if o2 || t2 != t {
            out.oracle_fail("compact-roundtrip", &format!("compact {:#x} target {} recompact {:#x} -> {}", c, hx(&t), c2, hx(&t2)));
        }
        if target_to_compact(t2) != c2 {
            out.oracle_fail("compact-canonical-fixpoint", &format!("compact {:#x}", c));
        }
    }
}

fn op_t2c(out: &mut Out, t: &U256) {
    let c = target_to_compact(t.clone());
    out.op(&format!("t2c {}", hx(t)), &format!("{}", c));
    out.count("t2c");
    // property: decoding never exceeds the target, loses less than 2^-15 of it, and never overflows
    let (t2, o) = compact_to_target(c);
    if o || t2 > *t {
        out.oracle_fail("target-compact-exceeds", &format!("target {} -> {:#x} -> {}", hx(t), c, hx(&t2)));
    }
    if !t.is_zero() && t2.is_zero() {
        out.oracle_fail("target-compact-zero", &format!("target {}", hx(t)));
    }
    if big(&(t - &t2)) * big64(1 << 15) > big(t) {
        out.oracle_fail("target-compact-precision", &format!("target {} -> {}", hx(t), hx(&t2)));
    }
}

fn op_c2d(out: &mut Out, c: u32) {
    let d = compact_to_difficulty(c);
    out.op(&format!("c2d {:#x}", c), &hx(&d));
    out.count("c2d");
    let (t, o) = compact_to_target(c);
    if (t.is_zero() || o) != d.is_zero() {
        out.oracle_fail("difficulty-zero-iff-invalid-target", &format!("compact {:#x}", c));
    }
}

fn op_d2c(out: &mut Out, d: &U256) {
    let r = quiet(|| difficulty_to_compact(d.clone()));
    out.op(&format!("d2c {}", hx(d)), &r.map(|c| c.to_string()).unwrap_or("fail".into()));
    out.count("d2c");
    if let Some(c) = r {
        // property: a difficulty >= 1 never round-trips to zero, and the decoded difficulty is >= the
        // requested one (target rounding is downwards, so difficulty rounds upwards) within 2^-14
        let d2 = compact_to_difficulty(c);
        if d2.is_zero() {
            out.oracle_fail("difficulty-roundtrip-zero", &format!("difficulty {}", hx(d)));
        }
        if d2 < *d {
            out.oracle_fail("difficulty-roundtrip-decreased", &format!("difficulty {} -> {:#x} -> {}", hx(d), c, hx(&d2)));
        }
    } else if !d.is_zero() {
        out.oracle_fail("difficulty-to-compact-panics", &format!("difficulty {}", hx(d)));
    }
}

fn digest_of(header: &ckb_types::packed::Header) -> U256 {
    let input = ckb_pow::pow_message(&header.as_reader().calc_pow_hash(), header.nonce().into());
    let mut output = [0u8; 32];
    eaglesong::eaglesong(&input, &mut output);
    U256::from_big_endian(&output).unwrap()
}

fn op_pow(out: &mut Out, compact: u32, nonce: u128, number: u64) {
    let header = HeaderBuilder::default().number(number).epoch(EpochNumberWithFraction::new(1, 0, 1000)).compact_target(compact).nonce(nonce).build().data();
    let digest = digest_of(&header);
    let ok = EaglesongPowEngine.verify(&header);
    out.op(&format!("pow {:#x} {} {:#x} {}", compact, hx(&digest), nonce, number), if ok { "1" } else { "0" });
    out.count(if ok { "pow-accept" } else { "pow-reject" });
    let (t, o) = compact_to_target(compact);
    let want = !t.is_zero() && !o && digest <= t;
    if ok != want {
        out.oracle_fail("pow-accept-iff-digest-le-target", &format!("compact {:#x} digest {} target {}", compact, hx(&digest), hx(&t)));
    }
    if ok {
        out.nontrivial(format!("pow {:#x} {}", compact, nonce));
    }
}

fn enf_line(v: u64) -> String {
    let e = EpochNumberWithFraction::from_full_value_unchecked(v);
    format!("{} {} {} wf={} gen={}", e.number(), e.index(), e.length(), e.is_well_formed() as u8, e.is_genesis() as u8)
}

fn op_enf(out: &mut Out, v: u64) {
    out.op(&format!("enf {:#x}", v), &enf_line(v));
    out.count("enf");
}

fn op_enfnew(out: &mut Out, n: u64, i: u64, l: u64) {
    let v = EpochNumberWithFraction::new_unchecked(n, i, l).full_value();
    out.op(&format!("enfnew {n} {i} {l}"), &v.to_string());
    out.count("enfnew");
    if n < (1 << 24) && i < (1 << 16) && l < (1 << 16) {
        let e = EpochNumberWithFraction::from_full_value_unchecked(v);
        if (e.number(), e.index(), e.length()) != (n, i, l) {
            out.oracle_fail("epoch-fraction-roundtrip", &format!("{n} {i} {l}"));
        }
    }
}

fn op_succ(out: &mut Out, s: u64, p: u64) {
    let (es, ep) = (EpochNumberWithFraction::from_full_value_unchecked(s), EpochNumberWithFraction::from_full_value_unchecked(p));
    let r = quiet(|| es.is_successor_of(ep)).unwrap_or(false);
    out.op(&format!("succ {:#x} {:#x}", s, p), if r { "1" } else { "0" });
    out.count(if r { "succ-yes" } else { "succ-no" });
    // gap-free: for a well-formed predecessor a well-formed successor is exactly the next position
    if ep.is_well_formed() && es.is_well_formed() {
        let want = if ep.index() + 1 == ep.length() {
            es.number() == ep.number() + 1 && es.index() == 0
        } else {
            es.number() == ep.number() && es.index() == ep.index() + 1 && es.length() == ep.length()
        };
        if r != want {
            out.oracle_fail("epoch-successor", &format!("{:#x} after {:#x}", s, p));
        }
    }
}

fn op_reward(out: &mut Out, start: u64, len: u64, base: u64, rem: u64, n: u64) -> Option<u64> {
    let e = mk_epoch(start, len, base, rem);
    let r = quiet(|| e.block_reward(n).ok().map(|c| c.as_u64())).flatten();
    out.op(&format!("reward {start} {len} {base} {rem} {n}"), &r.map(|v| v.to_string()).unwrap_or("fail".into()));
    out.count("reward");
    r
}

fn op_sec(out: &mut Out, start: u64, len: u64, sec: u64, n: u64) -> Option<u64> {
    let e = mk_epoch(start, len, 0, 0);
    let r = quiet(|| e.secondary_block_issuance(n, Capacity::shannons(sec)).ok().map(|c| c.as_u64())).flatten();
    out.op(&format!("sec {start} {len} {sec} {n}"), &r.map(|v| v.to_string()).unwrap_or("fail".into()));
    out.count("sec");
    r
}

fn op_nwf(out: &mut Out, number: u64, start: u64, len: u64, n: u64) {
    let e = EpochExt::new_builder().number(number).start_number(start).length(len).build();
    let r = quiet(|| e.number_with_fraction(n).full_value());
    out.op(&format!("nwf {number} {start} {len} {n}"), &r.map(|v| v.to_string()).unwrap_or("fail".into()));
    out.count("nwf");
    // gap-free: the position after this one, as the same epoch reports it, is its successor
    if let Some(v) = r {
        if n + 1 < start + len {
            if let Some(v2) = quiet(|| e.number_with_fraction(n + 1)) {
                let cur = EpochNumberWithFraction::from_full_value_unchecked(v);
                if !v2.is_successor_of(cur) || !v2.is_well_formed() {
                    out.oracle_fail("epoch-ext-positions-not-consecutive", &format!("number={number} start={start} len={len} n={n}"));
                }
            }
        }
    }
}

fn op_prim(out: &mut Out, ctx: &mut Ctx, initial: u64, halving: u64, n: u64) -> Option<u64> {
    ctx.consensus.initial_primary_epoch_reward = Capacity::shannons(initial);
    ctx.consensus.primary_epoch_reward_halving_interval = halving;
    let c = &ctx.consensus;
    let r = quiet(|| c.primary_epoch_reward(n).as_u64());
    out.op(&format!("prim {initial} {halving} {n}"), &r.map(|v| v.to_string()).unwrap_or("fail".into()));
    out.count("prim");
    r
}

/// whole-epoch sums: every block of an epoch, primary and secondary, must add up to the epoch amount
fn epoch_sums(out: &mut Out, start: u64, len: u64, primary: u64, sec: u64) {
    let (base, rem) = (primary / len, primary % len);
    let mut sum_p: u128 = 0;
    let mut sum_s: u128 = 0;
    let mut ok = true;
    // also the two blocks just outside the epoch get the base amount (no extra shannon)
    for i in 0..len {
        let Some(n) = start.checked_add(i) else {
            ok = false;
            break;
        };
        match (op_reward(out, start, len, base, rem, n), op_sec(out, start, len, sec, n)) {
            (Some(p), Some(s)) => {
                sum_p += p as u128;
                sum_s += s as u128;
            }
            _ => ok = false,
        }
    }
    if ok {
        if sum_p != primary as u128 {
            out.oracle_fail("primary-rewards-do-not-sum-to-epoch-reward", &format!("start={start} len={len} reward={primary} sum={sum_p}"));
        }
        if sum_s != sec as u128 {
            out.oracle_fail("secondary-issuance-does-not-sum-to-epoch-issuance", &format!("start={start} len={len} issuance={sec} sum={sum_s}"));
        }
        out.nontrivial(format!("sum {len} {} {}", primary % len, sec % len));
    }
}

// --- numext U256 operations and ckb_rational::RationalU256 operations, one by one -----------------

fn opt_hx(r: Option<U256>) -> String {
    r.map(|v| hx(&v)).unwrap_or_else(|| "fail".into())
}

/// Euclid with `%` (independent of the Stein implementation under test)
fn euclid(a: &U256, b: &U256) -> U256 {
    let (mut a, mut b) = (a.clone(), b.clone());
    while !b.is_zero() {
        let r = &a % &b;
        a = b;
        b = r;
    }
    a
}

fn op_u2(out: &mut Out, op: &str, a: &U256, b: &U256) {
    let line = format!("{} {} {}", op, hx(a), hx(b));
    let (ba, bb) = (big(a), big(b));
    let lim = U1024::one() << 256u32;
    let ans = match op {
        "uadd" => {
            let r = quiet(|| a + b);
            if r.is_some() != (&ba + &bb < lim) || r.as_ref().map(|r| big(r) != &ba + &bb).unwrap_or(false) {
                out.oracle_fail("u256-add", &line);
            }
            opt_hx(r)
        }
        "usub" => {
            let r = quiet(|| a - b);
            if r.is_some() != (ba >= bb) || r.as_ref().map(|r| big(r) + &bb != ba).unwrap_or(false) {
                out.oracle_fail("u256-sub", &line);
            }
            opt_hx(r)
        }
        "umul" => {
            let r = quiet(|| a * b);
            if r.is_some() != (&ba * &bb < lim) || r.as_ref().map(|r| big(r) != &ba * &bb).unwrap_or(false) {
                out.oracle_fail("u256-mul", &line);
            }
            opt_hx(r)
        }
        "udiv" => {
            let r = quiet(|| a / b);
            if r.is_some() == b.is_zero() || r.as_ref().map(|q| big(q) * &bb > ba || (big(q) + U1024::one()) * &bb <= ba).unwrap_or(false) {
                out.oracle_fail("u256-div", &line);
            }
            opt_hx(r)
        }
        "urem" => {
            let r = quiet(|| a % b);
            if r.is_some() == b.is_zero() || r.as_ref().map(|m| big(m) >= bb).unwrap_or(false) {
                out.oracle_fail("u256-rem", &line);
            }
            opt_hx(r)
        }
        "ugcd" => {
            let g = a.gcd(b);
            if g != euclid(a, b) {
                out.oracle_fail("u256-gcd", &line);
            }
            hx(&g)
        }
        "ucmp" => match a.cmp(b) {
            std::cmp::Ordering::Less => "lt".into(),
            std::cmp::Ordering::Equal => "eq".into(),
            std::cmp::Ordering::Greater => "gt".into(),
        },
        other => panic!("unknown op {other}"),
    };
    out.op(&line, &ans);
    out.count("u256-op");
}

fn op_ushift(out: &mut Out, op: &str, a: &U256, k: u32) {
    let line = format!("{} {} {}", op, hx(a), k);
    let r = if op == "ushl" { a << k } else { a >> k };
    let exact = if k >= 512 {
        U1024::zero()
    } else if op == "ushl" {
        (big(a) << k) & ((U1024::one() << 256u32) - U1024::one())
    } else {
        big(a) >> k
    };
    if big(&r) != exact {
        out.oracle_fail("u256-shift", &line);
    }
    out.op(&line, &hx(&r));
    out.count("u256-op");
}

fn op_u1(out: &mut Out, op: &str, a: &U256) {
    let line = format!("{} {}", op, hx(a));
    let ans = match op {
        "ulz" => a.leading_zeros().to_string(),
        "utz" => a.trailing_zeros().to_string(),
        "ulow" => a.0[0].to_string(),
        other => panic!("unknown op {other}"),
    };
    out.op(&line, &ans);
    out.count("u256-op");
}

fn rat_str(r: Option<RationalU256>) -> String {
    // Display of RationalU256 is "<numer>/<denom>" in decimal
    r.map(|r| format!("{}", r)).unwrap_or_else(|| "fail".into())
}

/// `RationalU256` operations on raw (unreduced) operands: `rnew n d`, `rmul an ad bn bd`, `rdiv an ad bn bd`,
/// `rmulu an ad u`, `raddu an ad u`, `rsatsub an ad u`, `rgt an ad bn bd`, `rfloor an ad`
fn op_rat(out: &mut Out, op: &str, v: &[U256]) {
    let line = format!("{} {}", op, v.iter().map(hx).collect::<Vec<_>>().join(" "));
    let raw = |i: usize| RationalU256::new_raw(v[i].clone(), v[i + 1].clone());
    let ans = match op {
        "rnew" => rat_str(quiet(|| RationalU256::new(v[0].clone(), v[1].clone()))),
        "rmul" => rat_str(quiet(|| &raw(0) * &raw(2))),
        "rdiv" => rat_str(quiet(|| &raw(0) / &raw(2))),
        "rmulu" => rat_str(quiet(|| &raw(0) * &v[2])),
        "raddu" => rat_str(quiet(|| &raw(0) + &v[2])),
        "rsatsub" => rat_str(quiet(|| raw(0).saturating_sub_u256(v[2].clone()))),
        "rgt" => quiet(|| raw(0) > raw(2)).map(|b| if b { "1".to_string() } else { "0".to_string() }).unwrap_or_else(|| "fail".into()),
        "rfloor" => opt_hx(quiet(|| raw(0).into_u256())),
        other => panic!("unknown op {other}"),
    };
    // value oracle (exact, wide): a returned product / quotient is the exact rational
    if let Some((n, d)) = ans.split_once('/') {
        let (n, d) = (U1024::from_dec_str(n).expect("dec"), U1024::from_dec_str(d).expect("dec"));
        let b = |i: usize| big(&v[i]);
        let ok = match op {
            "rnew" => &n * b(1) == &d * b(0),
            "rmul" => &n * b(1) * b(3) == &d * b(0) * b(2),
            "rdiv" => &n * b(1) * b(2) == &d * b(0) * b(3),
            "rmulu" => &n * b(1) == &d * b(0) * b(2),
            "raddu" => &n * b(1) == &d * (b(0) + b(1) * b(2)),
            "rsatsub" => {
                if b(0) < b(1) * b(2) { n.is_zero() } else { &n * b(1) == &d * (b(0) - b(1) * b(2)) }
            }
            _ => true,
        };
        if !ok {
            out.oracle_fail("rational-value", &format!("{line} => {ans}"));
        }
    }
    out.op(&line, &ans);
    out.count(&format!("rat-{op}"));
}

/// boundary-biased U256: zero, one, powers of two and neighbours, limb boundaries, all-ones, random lengths
fn gen_u256_edge(rng: &mut Rng) -> U256 {
    match rng.below(10) {
        0 => U256::zero(),
        1 => U256::one(),
        2 => U256::max_value(),
        3 => U256::one() << (rng.below(256) as u32),
        4 => (U256::one() << (rng.range(1, 255) as u32)) - U256::one(),
        5 => (U256::one() << (*rng.pick(&[64u32, 128, 192]))) - U256::from(rng.below(3)) + U256::one(),
        6 => U256::from(rand_u64_biased(rng)),
        _ => rand_u256(rng),
    }
}

/// random value of exactly `bits` bits (1..=256)
fn rand_bits(rng: &mut Rng, bits: u32) -> U256 {
    let mut b = [0u8; 32];
    for x in b.iter_mut() {
        *x = rng.next() as u8;
    }
    let v = U256::from_big_endian(&b).unwrap() >> (256 - bits);
    v | (U256::one() << (bits - 1))
}

fn gen_uops(out: &mut Out, rng: &mut Rng, k: u64) {
    out.begin_case("u256-ops");
    for _ in 0..600 * k {
        let a = gen_u256_edge(rng);
        let b = match rng.below(6) {
            0 => a.clone(),
            // products / sums around 2^256: b = floor(MAX / a) and neighbours
            1 if !a.is_zero() => {
                let q = U256::max_value() / &a;
                match rng.below(3) {
                    0 => q,
                    1 => q.checked_add(&U256::one()).unwrap_or_else(U256::max_value),
                    _ => q.checked_sub(&U256::one()).unwrap_or_else(U256::zero),
                }
            }
            2 => {
                let c = U256::max_value() - &a;
                match rng.below(3) {
                    0 => c,
                    1 => c.checked_add(&U256::one()).unwrap_or_else(U256::max_value),
                    _ => c.checked_sub(&U256::one()).unwrap_or_else(U256::zero),
                }
            }
            _ => gen_u256_edge(rng),
        };
        for op in ["uadd", "usub", "umul", "udiv", "urem", "ucmp"] {
            op_u2(out, op, &a, &b);
        }
        for op in ["ulz", "utz", "ulow"] {
            op_u1(out, op, &a);
        }
        let kk = match rng.below(8) {
            0 => 0,
            1 => *rng.pick(&[1u32, 7, 8, 63, 64, 65, 127, 128, 129, 191, 192, 193, 255]),
            2 => *rng.pick(&[256u32, 257, 511, 2016, 4096]),
            _ => rng.below(256) as u32,
        };
        op_ushift(out, "ushl", &a, kk);
        op_ushift(out, "ushr", &a, kk);
    }
    out.begin_case("u256-gcd");
    let (mut gcd_total, mut gcd_nontrivial) = (0u64, 0u64);
    for _ in 0..500 * k {
        // operands with a planted common factor (odd part and power of two), and unrelated ones
        let (a, b) = match rng.below(4) {
            0 => (gen_u256_edge(rng), gen_u256_edge(rng)),
            _ => {
                // exact bit lengths: g·x·2^sh stays below 2^256, so the planted factor survives
                let (gb, xb, yb) = (rng.range(1, 100) as u32, rng.range(1, 110) as u32, rng.range(1, 110) as u32);
                let g = rand_bits(rng, gb);
                let x = rand_bits(rng, xb);
                let y = rand_bits(rng, yb);
                let sh1 = rng.below(40) as u32;
                let sh2 = if rng.chance(1, 3) { sh1 } else { rng.below(40) as u32 };
                let a = quiet(|| (&g * &x) << sh1).unwrap_or_else(U256::one);
                let b = quiet(|| (&g * &y) << sh2).unwrap_or_else(U256::one);
                (a, b)
            }
        };
        op_u2(out, "ugcd", &a, &b);
        gcd_total += 1;
        if a.gcd(&b) > U256::one() {
            gcd_nontrivial += 1;
            out.count("ugcd-nontrivial");
        }
    }
    out.extra.insert("gcd_nontrivial_share_pct".into(), (gcd_nontrivial * 100 / gcd_total.max(1)).into());
    out.begin_case("rational-ops");
    for _ in 0..400 * k {
        // raw operands: small/large, sharing factors, zero numerators and (rarely) zero denominators
        let small = |rng: &mut Rng| -> U256 {
            match rng.below(6) {
                0 => U256::zero(),
                1 => U256::one(),
                2 => U256::from(rng.range(2, 2000)),
                3 => U256::from(rand_u64_biased(rng)),
                4 => rand_u256(rng) >> (rng.range(100, 200) as u32),
                _ => gen_u256_edge(rng),
            }
        };
        let den = |rng: &mut Rng| -> U256 {
            let d = small(rng);
            if d.is_zero() && !rng.chance(1, 8) { U256::one() } else { d }
        };
        let (an, ad, bn, bd, u) = (small(rng), den(rng), small(rng), den(rng), small(rng));
        op_rat(out, "rnew", &[an.clone(), ad.clone()]);
        op_rat(out, "rmul", &[an.clone(), ad.clone(), bn.clone(), bd.clone()]);
        // the gcd-before-multiply reductions: operands sharing a factor across the diagonal
        op_rat(out, "rmul", &[an.clone(), ad.clone(), ad.clone(), an.clone()]);
        op_rat(out, "rdiv", &[an.clone(), ad.clone(), bn.clone(), bd.clone()]);
        op_rat(out, "rdiv", &[an.clone(), ad.clone(), an.clone(), bd.clone()]);
        op_rat(out, "rmulu", &[an.clone(), ad.clone(), u.clone()]);
        op_rat(out, "rmulu", &[an.clone(), ad.clone(), ad.clone()]);
        op_rat(out, "raddu", &[an.clone(), ad.clone(), u.clone()]);
        op_rat(out, "rsatsub", &[an.clone(), ad.clone(), u.clone()]);
        op_rat(out, "rsatsub", &[an.clone(), ad.clone(), U256::one()]);
        op_rat(out, "rgt", &[an.clone(), ad.clone(), bn.clone(), bd.clone()]);
        op_rat(out, "rgt", &[an.clone(), ad.clone(), an.clone(), ad.clone()]);
        op_rat(out, "rfloor", &[an.clone(), ad.clone()]);
    }
}

fn exec_line(out: &mut Out, ctx: &mut Ctx, line: &str) {
    let t: Vec<&str> = line.split_whitespace().collect();
    match t[0] {
        "case" => {
            out.begin_case(&t[2..].join(" "));
        }
        "consts" => op_consts(out, ctx),
        "c2t" => op_c2t(out, parse_u64(t[1]) as u32),
        "t2c" => op_t2c(out, &parse_u256(t[1])),
        "c2d" => op_c2d(out, parse_u64(t[1]) as u32),
        "d2c" => op_d2c(out, &parse_u256(t[1])),
        // the digest token is recomputed from the real header (compact, nonce, number)
        "pow" => op_pow(out, parse_u64(t[1]) as u32, u128::from_str_radix(t[3].trim_start_matches("0x"), 16).expect("nonce"), parse_u64(t[4])),
        "enf" => op_enf(out, parse_u64(t[1])),
        "enfnew" => op_enfnew(out, parse_u64(t[1]), parse_u64(t[2]), parse_u64(t[3])),
        "succ" => op_succ(out, parse_u64(t[1]), parse_u64(t[2])),
        "reward" => {
            op_reward(out, parse_u64(t[1]), parse_u64(t[2]), parse_u64(t[3]), parse_u64(t[4]), parse_u64(t[5]));
        }
        "sec" => {
            op_sec(out, parse_u64(t[1]), parse_u64(t[2]), parse_u64(t[3]), parse_u64(t[4]));
        }
        "nwf" => op_nwf(out, parse_u64(t[1]), parse_u64(t[2]), parse_u64(t[3]), parse_u64(t[4])),
        "prim" => {
            op_prim(out, ctx, parse_u64(t[1]), parse_u64(t[2]), parse_u64(t[3]));
        }
        "sums" => epoch_sums(out, parse_u64(t[1]), parse_u64(t[2]), parse_u64(t[3]), parse_u64(t[4])),
        "next" => do_next(out, ctx, &NextIn::parse(&t)),
        "nextperm" => do_nextperm(out, ctx, parse_u64(t[1]), parse_u64(t[2]), parse_u64(t[3]), parse_u64(t[4]), parse_u64(t[5]), parse_u64(t[6]), &parse_u256(t[7]), parse_u64(t[8]), parse_u64(t[9]), parse_u64(t[10]), parse_u64(t[11]) as u32),
        "genesis" => do_genesis(out, parse_u64(t[1]), parse_u64(t[2]) as u32, parse_u64(t[3]), parse_u64(t[4]), parse_u64(t[5]) as u32, parse_u64(t[6]) as u32),
        "uadd" | "usub" | "umul" | "udiv" | "urem" | "ugcd" | "ucmp" => op_u2(out, t[0], &parse_u256(t[1]), &parse_u256(t[2])),
        "ushl" | "ushr" => op_ushift(out, t[0], &parse_u256(t[1]), parse_u64(t[2]) as u32),
        "ulz" | "utz" | "ulow" => op_u1(out, t[0], &parse_u256(t[1])),
        "rnew" | "rmul" | "rdiv" | "rmulu" | "raddu" | "rsatsub" | "rgt" | "rfloor" => {
            let v: Vec<U256> = t[1..].iter().map(|x| parse_u256(x)).collect();
            op_rat(out, t[0], &v)
        }
        other => panic!("unknown op {other}"),
    }
}

fn op_consts(out: &mut Out, ctx: &Ctx) {
    let c = ConsensusBuilder::default().build();
    let ort = format!("{}", c.orphan_rate_target());
    out.op(
        "consts",
        &format!(
            "tau={} min={} max={} ort={} bits={},{},{} target={}",
            ckb_constant::consensus::TAU,
            ctx.min_len,
            ctx.max_len,
            ort,
            EpochNumberWithFraction::NUMBER_BITS,
            EpochNumberWithFraction::INDEX_BITS,
            EpochNumberWithFraction::LENGTH_BITS,
            c.epoch_duration_target()
        ),
    );
}

pub fn run(opts: &Opts) {
    // panics of the code under test are answers ("fail"), not noise
    let default_hook = std::panic::take_hook();
    std::panic::set_hook(Box::new(move |info| {
        if !QUIET.with(|q| q.get()) {
            default_hook(info);
        }
    }));
    let consensus = ConsensusBuilder::default().build();
    let perm = ConsensusBuilder::default().pow(ckb_pow::Pow::Dummy).permanent_difficulty_in_dummy(true).build();
    assert!(perm.permanent_difficulty() && !consensus.permanent_difficulty());
    let mut ctx = Ctx { min_len: consensus.min_epoch_length(), max_len: consensus.max_epoch_length(), consensus, perm };
    let mut out = Out::new(&opts.out);
    let rule = "next: accepted epoch transition from a previous length within the consensus bounds (fingerprint L,uncles,duration,L',compact'); sums: a whole epoch's block rewards added up; pow: an accepted header";

    if let Some(rp) = &opts.replay {
        for line in read_replay_ops(rp) {
            if line.starts_with("sums ") {
                // `sums` expands into reward/sec lines in ops.txt
            }
            exec_line(&mut out, &mut ctx, &line);
        }
        out.finish(rule);
        return;
    }

    let mut rng = Rng::new(opts.seed);
    let k = opts.scale * if opts.thorough() { 100 } else { 8 };

    out.begin_case("consts");
    op_consts(&mut out, &ctx);

    // --- the U256 / RationalU256 layer, operation by operation ------------------------------
    gen_uops(&mut out, &mut rng, k);

    // --- compact / target / difficulty -----------------------------------------------------
    out.begin_case("compact-structured");
    for e in 0..=40u32 {
        for m in [0u32, 1, 2, 0x7f, 0x80, 0xff, 0x100, 0x7fff, 0x8000, 0xffff, 0x10000, 0x7fffff, 0x800000, 0xffffff] {
            let c = (e << 24) | m;
            op_c2t(&mut out, c);
            op_c2d(&mut out, c);
        }
    }
    for e in [41u32, 64, 127, 128, 200, 254, 255] {
        for m in [0u32, 1, 0x800000, 0xffffff] {
            op_c2t(&mut out, (e << 24) | m);
            op_c2d(&mut out, (e << 24) | m);
        }
    }
    out.begin_case("compact-random");
    for _ in 0..3000 * k {
        let c = gen_compact(&mut rng);
        op_c2t(&mut out, c);
        op_c2d(&mut out, c);
    }
    out.begin_case("target-difficulty");
    for bits in 0..=256u32 {
        // 2^bits - 1, 2^(bits-1), 2^(bits-1)+1
        let hi = if bits == 256 { U256::max_value() } else { (U256::one() << bits) - U256::one() };
        for v in [hi.clone(), &hi >> 1u32, (&hi >> 1u32).checked_add(&U256::one()).unwrap_or_else(U256::max_value), (&hi >> 1u32).checked_add(&U256::from(2u64)).unwrap_or_else(U256::max_value)] {
            op_t2c(&mut out, &v);
            op_d2c(&mut out, &v);
        }
    }
    for _ in 0..2000 * k {
        let v = rand_u256(&mut rng);
        op_t2c(&mut out, &v);
        op_d2c(&mut out, &v);
    }
    // monotonicity of the conversions on neighbouring / ordered pairs (oracle only; the lines are ordinary)
    for _ in 0..1500 * k {
        let a = rand_u256(&mut rng);
        let b = match rng.below(3) {
            0 => a.checked_add(&U256::one()).unwrap_or_else(U256::max_value),
            1 => rand_u256(&mut rng),
            _ => a.checked_add(&(&a >> (rng.range(1, 30) as u32))).unwrap_or_else(U256::max_value),
        };
        let (lo, hi) = if a <= b { (a, b) } else { (b, a) };
        op_t2c(&mut out, &lo);
        op_t2c(&mut out, &hi);
        let (tl, _) = compact_to_target(target_to_compact(lo.clone()));
        let (th, _) = compact_to_target(target_to_compact(hi.clone()));
        if tl > th {
            out.oracle_fail("target-compact-not-monotone", &format!("{} <= {} but {} > {}", hx(&lo), hx(&hi), hx(&tl), hx(&th)));
        }
        if !lo.is_zero() {
            let dl = quiet(|| compact_to_difficulty(difficulty_to_compact(lo.clone())));
            let dh = quiet(|| compact_to_difficulty(difficulty_to_compact(hi.clone())));
            if let (Some(dl), Some(dh)) = (dl, dh) {
                if dl > dh {
                    out.oracle_fail("difficulty-compact-not-monotone", &format!("{} <= {}", hx(&lo), hx(&hi)));
                }
            }
        }
        // target/difficulty are antitone: a larger target is a smaller (or equal) difficulty
        let cl = target_to_compact(lo.clone());
        let ch = target_to_compact(hi.clone());
        let (dl, dh) = (compact_to_difficulty(cl), compact_to_difficulty(ch));
        if !lo.is_zero() && dl < dh {
            out.oracle_fail("target-difficulty-not-antitone", &format!("{} <= {}", hx(&lo), hx(&hi)));
        }
    }

    // oracle-only sweep of the compact space (no model lines): every exponent, mantissas on a stride
    // plus both ends; checks the decode/encode laws on the implementation alone
    {
        let stride: u32 = if opts.thorough() { 251 } else { 65_521 };
        let mut checked = 0u64;
        for e in 0..=255u32 {
            let mut ms: Vec<u32> = (0..0x100_0000u32).step_by(stride as usize).collect();
            ms.extend(0..64u32);
            ms.extend(0xff_ffc0..=0xff_ffffu32);
            ms.extend([0x7f_ffff, 0x80_0000, 0x80_0001, 0xffff, 0x1_0000, 0xff, 0x100]);
            for m in ms {
                let c = (e << 24) | m;
                let (t, o) = compact_to_target(c);
                checked += 1;
                // the flag is exactly "mantissa != 0 and exponent > 32"; unflagged targets are exact
                if o != (m != 0 && e > 32) {
                    out.oracle_fail("compact-overflow-flag", &format!("compact {:#x}", c));
                }
                if !o && e <= 32 {
                    let exact = if e <= 3 { big64((m >> (8 * (3 - e))) as u64) } else { big64(m as u64) << (8 * (e - 3)) };
                    if big(&t) != exact {
                        out.oracle_fail("compact-to-target-value", &format!("compact {:#x} -> {}", c, hx(&t)));
                    }
                }
                if !o && !t.is_zero() {
                    let c2 = target_to_compact(t.clone());
                    let (t2, o2) = compact_to_target(c2);
                    if o2 || t2 != t {
                        out.oracle_fail("compact-roundtrip", &format!("compact {:#x} target {} recompact {:#x}", c, hx(&t), c2));
                    }
                }
            }
        }
        out.extra.insert("compact_sweep_checked".into(), checked.into());
    }

    // --- proof of work ---------------------------------------------------------------------
    out.begin_case("pow");
    for j in 0..600 * k {
        let compact = match rng.below(8) {
            0 => 0x2100_0000 | (rng.next() as u32 & 0xffff),         // exponent 33: flagged overflow
            1 => 0x2000_0000 | (rng.next() as u32 & 0xff_ffff),      // huge targets: about half accepted
            2 => 0x2080_0000,
            3 => 0x20ff_ffff,
            4 => 0x1f00_0000 | (rng.next() as u32 & 0xff_ffff),
            5 => gen_compact(&mut rng),
            6 => 0x2000_0000 | (1 << rng.below(24)),
            _ => 0x2000_0000 | (rng.next() as u32 & 0xff_ffff),
        }
        .max(1);
        op_pow(&mut out, compact, ((rng.next() as u128) << 64) | rng.next() as u128, j);
    }

    // --- epoch number with fraction ----------------------------------------------------------
    out.begin_case("epoch-fraction");
    for _ in 0..2000 * k {
        let (n, i, l) = match rng.below(6) {
            0 => (rand_u64_biased(&mut rng), rand_u64_biased(&mut rng), rand_u64_biased(&mut rng)),
            1 => ((1 << 24) - 1 - rng.below(2), (1 << 16) - 1 - rng.below(2), (1 << 16) - 1 - rng.below(2)),
            2 => (rng.below(1 << 24), 0, 0),
            _ => {
                let l = rng.range(1, 2000);
                (rng.below(1 << 24), rng.below(l + 1), l)
            }
        };
        op_enfnew(&mut out, n, i, l);
        let v = if rng.chance(1, 4) { rng.next() } else { EpochNumberWithFraction::new_unchecked(n & 0xff_ffff, i & 0xffff, l & 0xffff).full_value() };
        op_enf(&mut out, v);
        // successor candidates around v
        let e = EpochNumberWithFraction::from_full_value_unchecked(v);
        let (pn, pi, pl) = (e.number(), e.index(), e.length());
        let cands = [
            EpochNumberWithFraction::new_unchecked(pn, (pi + 1) & 0xffff, pl),
            EpochNumberWithFraction::new_unchecked((pn + 1) & 0xff_ffff, 0, rng.range(1, 2000)),
            EpochNumberWithFraction::new_unchecked((pn + 1) & 0xff_ffff, 0, pl),
            EpochNumberWithFraction::new_unchecked(pn, (pi + 2) & 0xffff, pl),
            EpochNumberWithFraction::new_unchecked(pn, (pi + 1) & 0xffff, pl + 1),
            EpochNumberWithFraction::new_unchecked((pn + 1) & 0xff_ffff, 1, pl),
            EpochNumberWithFraction::new_unchecked((pn + 2) & 0xff_ffff, 0, pl),
            EpochNumberWithFraction::new_unchecked(pn, pi, pl),
        ];
        for c in cands {
            op_succ(&mut out, c.full_value(), v);
        }
        if rng.chance(1, 8) {
            op_succ(&mut out, rng.next(), rng.next());
        }
    }
    // EpochExt::number_with_fraction on in-range positions (debug builds assert the range)
    out.begin_case("number-with-fraction");
    for _ in 0..1500 * k {
        let len = match rng.below(5) {
            0 => 1,
            1 => 65_535,
            _ => rng.range(1, 2000),
        };
        let number = if rng.chance(1, 5) { (1 << 24) - 1 - rng.below(2) } else { rng.below(1 << 24) };
        let start = if rng.chance(1, 10) { u64::MAX - len - rng.below(2) } else { rng.range(0, 100_000_000) };
        let n = match rng.below(4) {
            0 => start,
            1 => start + len - 1,
            _ => start + rng.below(len),
        };
        op_nwf(&mut out, number, start, len, n);
    }
    // a walk along a chain of epochs: every position has exactly one successor, no gaps
    out.begin_case("epoch-walk");
    {
        let mut cur = EpochNumberWithFraction::new_unchecked(rng.below(1000), 0, rng.range(1, 6));
        for _ in 0..400 * k {
            let next = if cur.index() + 1 == cur.length() {
                EpochNumberWithFraction::new_unchecked(cur.number() + 1, 0, rng.range(1, 6))
            } else {
                EpochNumberWithFraction::new_unchecked(cur.number(), cur.index() + 1, cur.length())
            };
            op_succ(&mut out, next.full_value(), cur.full_value());
            if !next.is_successor_of(cur) || !next.is_well_formed() {
                out.oracle_fail("epoch-walk-next-rejected", &format!("{:#x} after {:#x}", next.full_value(), cur.full_value()));
            }
            // skipping one position or repeating is never a successor
            op_succ(&mut out, cur.full_value(), cur.full_value());
            if cur.is_successor_of(cur) {
                out.oracle_fail("epoch-walk-repeat-accepted", &format!("{:#x}", cur.full_value()));
            }
            cur = next;
        }
    }

    // --- per-block rewards --------------------------------------------------------------------
    out.begin_case("reward-points");
    for _ in 0..3000 * k {
        let len = match rng.below(6) {
            0 => rand_u64_biased(&mut rng),
            1 => 0,
            _ => rng.range(1, 2000),
        };
        let start = if rng.chance(1, 6) { rand_u64_biased(&mut rng) } else { rng.range(0, 1_000_000) };
        let (base, rem) = if rng.chance(1, 6) { (rand_u64_biased(&mut rng), rand_u64_biased(&mut rng)) } else { (rng.range(0, 1 << 40), rng.below(len.max(1))) };
        let n = match rng.below(8) {
            0 => start.wrapping_sub(1),
            1 => start,
            2 => start.wrapping_add(rem),
            3 => start.wrapping_add(rem).wrapping_sub(1),
            4 => start.wrapping_add(len).wrapping_sub(1),
            5 => rand_u64_biased(&mut rng),
            _ => start.wrapping_add(rng.below(len.max(1))),
        };
        op_reward(&mut out, start, len, base, rem, n);
        let sec = if rng.chance(1, 5) { rand_u64_biased(&mut rng) } else { MAINNET_SECONDARY.wrapping_add(rng.below(5000)) };
        let n2 = if rng.chance(1, 2) { n } else { start.wrapping_add(if len == 0 { 0 } else { sec % len }).wrapping_sub(rng.below(2)) };
        op_sec(&mut out, start, len, sec, n2);
    }
    out.begin_case("halving");
    for _ in 0..1500 * k {
        let initial = if rng.chance(1, 4) { rand_u64_biased(&mut rng) } else { MAINNET_INITIAL };
        let halving = match rng.below(6) {
            0 => 0,
            1 => rng.range(1, 5),
            2 => rand_u64_biased(&mut rng),
            _ => 8760,
        };
        let n = match rng.below(6) {
            0 => rand_u64_biased(&mut rng),
            1 => halving.saturating_mul(rng.range(0, 70)),
            2 => halving.saturating_mul(rng.range(0, 70)).saturating_sub(1),
            3 => halving.saturating_mul(63).saturating_add(rng.below(halving.saturating_mul(2).max(1))),
            _ => rng.range(0, 1_000_000),
        };
        let a = op_prim(&mut out, &mut ctx, initial, halving, n);
        // halving on schedule: one interval later the epoch reward is exactly half (floor)
        if halving > 0 && n <= u64::MAX - halving {
            let b = op_prim(&mut out, &mut ctx, initial, halving, n + halving);
            if let (Some(a), Some(b)) = (a, b) {
                if b != a / 2 {
                    out.oracle_fail("halving-not-on-schedule", &format!("initial={initial} halving={halving} n={n}: {a} then {b}"));
                }
            }
            if n % halving != halving - 1 {
                let c = op_prim(&mut out, &mut ctx, initial, halving, n + 1);
                if let (Some(a), Some(c)) = (a, c) {
                    if a != c {
                        out.oracle_fail("halving-inside-interval", &format!("initial={initial} halving={halving} n={n}"));
                    }
                }
            }
        }
    }
    // whole epochs: every length in thorough, a boundary-biased sample in quick
    let lens: Vec<u64> = if opts.thorough() {
        (1..=2000u64).chain([4095, 4096, 65534, 65535]).collect()
    } else {
        let mut v: Vec<u64> = vec![1, 2, 3, 299, 300, 301, 999, 1000, 1001, 1799, 1800];
        for _ in 0..40 * opts.scale {
            v.push(rng.range(1, 1800));
        }
        v
    };
    for len in lens {
        out.begin_case(&format!("epoch-sums len={len}"));
        let primary = match rng.below(5) {
            0 => MAINNET_INITIAL >> rng.below(8),
            1 => len * rng.range(0, 1 << 30),                      // remainder 0
            2 => len * rng.range(0, 1 << 30) + (len - 1),          // remainder len-1
            3 => rng.below(len),                                   // base 0
            _ => rng.range(0, 1 << 50),
        };
        let sec = match rng.below(4) {
            0 => MAINNET_SECONDARY,
            1 => len * rng.range(0, 1 << 30) + (len - 1),
            2 => len * rng.range(0, 1 << 30),
            _ => rng.range(0, 1 << 50),
        };
        let start = if rng.chance(1, 10) { u64::MAX - len - rng.below(3) + 1 } else { rng.range(0, 100_000_000) };
        epoch_sums(&mut out, start, len, primary, sec);
    }

    // --- next_epoch_ext ------------------------------------------------------------------------
    let n_next = 4000 * k;
    let mut i = 0;
    while i < n_next {
        out.begin_case("next");
        for _ in 0..200 {
            let inp = gen_next(&mut rng, &ctx);
            do_next(&mut out, &mut ctx, &inp);
            i += 1;
        }
    }
    out.begin_case("nextperm-genesis");
    for _ in 0..300 * k {
        let inp = gen_next(&mut rng, &ctx);
        do_nextperm(&mut out, &mut ctx, inp.t, inp.initial, inp.halving, inp.number, inp.base, inp.rem, &inp.prev_hr, inp.start, inp.len, inp.hdr_number, inp.hdr_compact);
        let r = if rng.chance(1, 5) { rand_u64_biased(&mut rng) } else { MAINNET_INITIAL >> rng.below(5) };
        let od = if rng.chance(1, 20) { 0 } else { inp.ort.1 };
        do_genesis(&mut out, r, gen_compact(&mut rng), inp.len, inp.t, inp.ort.0, od);
    }
    // a chain of epochs: feed each output back in (realistic trajectories; the invariant
    // MIN <= L <= MAX is maintained by the implementation itself, which the oracle checks)
    for chain in 0..(6 * k) {
        out.begin_case(&format!("next-chain {chain}"));
        let t = 14_400u64;
        let halving = *rng.pick(&[2u64, 3, 5, 8760]);
        let initial = MAINNET_INITIAL;
        let mut len = *rng.pick(&[300u64, 1000, 1800, 743]);
        let mut number = rng.below(10);
        let mut r = initial >> (number / halving).min(63);
        let mut compact = *rng.pick(&[0x1a08a8b1u32, 0x2001_0000, 0x1d00ffff]);
        let mut start = rng.below(1000);
        let mut prev_hr = {
            let d = compact_to_difficulty(compact);
            &d * (len + len / 40) / U256::from(t)
        };
        for _ in 0..60 {
            let uncles = match rng.below(6) {
                0 => 0,
                1 => len / 40,
                2 => len * 2,
                _ => rng.range(0, len / 8 + 1),
            };
            let dur = match rng.below(6) {
                0 => t * 1000,
                1 => t * 250,
                2 => t * 4000,
                3 => rng.range(1, t * 1000),
                _ => t * 1000 + rng.range(0, 4_000_000) - 2_000_000,
            };
            let inp = NextIn {
                t, initial, halving, ort: (1, 40), number, base: r / len, rem: r % len, prev_hr: prev_hr.clone(), start, len,
                hdr_number: start + len - 1, hdr_compact: compact, uncles, dur,
            };
            do_next(&mut out, &mut ctx, &inp);
            // advance using the implementation's answer
            ctx.consensus.epoch_duration_target = t;
            let epoch = EpochExt::new_builder().number(number).base_block_reward(Capacity::shannons(r / len)).remainder_reward(Capacity::shannons(r % len))
                .previous_epoch_hash_rate(prev_hr.clone()).start_number(start).length(len).compact_target(compact).build();
            let header = HeaderBuilder::default().number(start + len - 1).epoch(EpochNumberWithFraction::new(1, 0, 1000)).compact_target(compact).build();
            let mock = Mock { epoch, uncles, dur };
            let c = &ctx.consensus;
            match quiet(|| c.next_epoch_ext(&header, &mock).map(|n| n.epoch())) {
                Some(Some(e)) => {
                    // epoch fields across the boundary: last block of this epoch, first of the next
                    if number + 1 < (1 << 24) {
                        let last = EpochNumberWithFraction::new(number, len - 1, len);
                        let first = e.number_with_fraction(e.start_number());
                        if !first.is_well_formed() || !first.is_successor_of(last) {
                            out.oracle_fail("epoch-boundary-not-consecutive", &format!("{:#x} after {:#x}", first.full_value(), last.full_value()));
                        }
                        op_nwf(&mut out, e.number(), e.start_number(), e.length(), e.start_number());
                    }
                    number = e.number();
                    r = e.primary_reward().as_u64();
                    len = e.length();
                    compact = e.compact_target();
                    start = e.start_number();
                    prev_hr = e.previous_epoch_hash_rate().clone();
                }
                _ => break,
            }
        }
    }
    out.finish(rule);
}
