//! C07 — correspondence harness (stub; see /verif/AGENT_GUIDE.md).
use crate::common::*;

pub fn run(_opts: &Opts) {
    eprintln!("C07: harness not implemented in this crate");
    std::process::exit(2);
}
