//! C15, stream `proof`: CBMT merkle proofs (model: `lean/CkbVerif/Model/HashProof.lean`).
//!
//! Two instantiations of the REAL merkle-cbt code:
//!  * generic `merkle_cbt::CBMT<u64, M64>` (the crate's code is generic over the item and the merge; `M64` is a cheap
//!    wrapping-arithmetic merge the Lean model computes too) — every input is on the op line, nothing is hinted:
//!      mpg <leaves> <leaf-indices>            -> none | panic | nodes=<l> idx=<l> lem=<l> ret=<l|none> root=<r|none> mr=<r>
//!                                                build_merkle_tree + build_proof, then retrieve_leaves + root on the result,
//!                                                and build_merkle_root
//!      mrg <indices> <lemmas> <leaves>        -> some <r> | none        MerkleProof::new(indices, lemmas).root(leaves)
//!      mlg <leaves> <indices>                 -> some <l> | none        CBMT::retrieve_leaves
//!  * ckb's own `ckb_types::utilities::{CBMT, MerkleProof, merkle_root}` over `Byte32` (merge = blake2b(l ‖ r)); digests are
//!    explained as hash TERMS by the independent registry of c15_term.rs; the byte order of the leaf digests (all the model
//!    cannot know of blake2b) is passed as a rank list:
//!      mpb <n> <ranks> <leaf-indices>         -> none | panic | idx=<l> lem=<terms> ret=<terms> root=<term|none> mr=<term>
//!      txv <n> <ranks> <leaf-indices> <tamper>-> none | panic | rej | ok <terms>
//!                                                get_transaction_proof's CBMT part, then the statements of
//!                                                verify_transaction_proof (retrieve_leaves, root, merkle_root([raw, witnesses]) ==
//!                                                transactions_root) on the proof after tamper #k (0 = untouched)
//! lists `a,b,c`, empty `-`; terms separated by `;`.
use super::*;
use ckb_types::utilities::{CBMT as CkbCBMT, MerkleProof as CkbProof, merkle_root};
use merkle_cbt::{CBMT, MerkleProof, merkle_tree::Merge};

pub struct M64;
impl Merge for M64 {
    type Item = u64;
    fn merge(l: &u64, r: &u64) -> u64 {
        l.wrapping_mul(31).wrapping_add(r.wrapping_mul(17)).wrapping_add(1)
    }
}
type G = CBMT<u64, M64>;
type GP = MerkleProof<u64, M64>;

fn list<T: ToString>(v: &[T]) -> String {
    if v.is_empty() { "-".into() } else { v.iter().map(|x| x.to_string()).collect::<Vec<_>>().join(",") }
}
fn parse_list<T: std::str::FromStr>(s: &str) -> Vec<T>
where
    T::Err: std::fmt::Debug,
{
    if s == "-" { vec![] } else { s.split(',').map(|x| x.parse().expect("number")).collect() }
}
fn terms(v: Vec<String>) -> String {
    if v.is_empty() { "-".into() } else { v.join(";") }
}

// ------------------------------------------------------------------------------------------------
// generic instantiation

pub fn mpg_op(out: &mut Out, leaves: &[u64], idx: &[u32]) -> Option<(Vec<u32>, Vec<u64>, Vec<u64>)> {
    let op = format!("mpg {} {}", list(leaves), list(idx));
    let mr = G::build_merkle_root(leaves);
    let r = catch_unwind(AssertUnwindSafe(|| {
        let tree = G::build_merkle_tree(leaves);
        let nodes = tree.nodes().to_vec();
        (nodes, tree.build_proof(idx))
    }));
    match r {
        Err(_) => {
            out.op(&op, "panic");
            out.count("mpg-panic");
            // the only panic of build_proof on in-range input: one leaf, several (equal) indices → assert!(queue.is_empty())
            if !(leaves.len() == 1 && idx.len() >= 2) {
                out.oracle_fail("proof-build-panic", &format!("build_merkle_proof panicked: {}", op));
            }
            None
        }
        Ok((_, None)) => {
            out.op(&op, "none");
            out.count("mpg-none");
            // completeness: distinct in-range indices over a non-empty tree always give a proof
            let mut s = idx.to_vec();
            s.sort();
            s.dedup();
            if !leaves.is_empty() && !idx.is_empty() && idx.iter().all(|i| (*i as usize) < leaves.len()) {
                out.oracle_fail("proof-complete", &format!("no proof for in-range indices: {}", op));
            }
            None
        }
        Ok((nodes, Some(p))) => {
            let ret = G::retrieve_leaves(leaves, &p);
            let root = ret.as_ref().and_then(|ls| p.root(ls));
            out.op(
                &op,
                &format!(
                    "nodes={} idx={} lem={} ret={} root={} mr={}",
                    list(&nodes),
                    list(p.indices()),
                    list(p.lemmas()),
                    ret.as_ref().map(|l| list(l)).unwrap_or("none".into()),
                    root.map(|r| r.to_string()).unwrap_or("none".into()),
                    mr
                ),
            );
            out.count("mpg-some");
            let mut s = idx.to_vec();
            s.sort();
            s.dedup();
            let distinct = s.len() == idx.len();
            if distinct {
                // completeness (implementation only): the honest proof verifies against build_merkle_root, in any leaf order
                let mut want: Vec<u64> = idx.iter().map(|i| leaves[*i as usize]).collect();
                let mut got = ret.clone().unwrap_or_default();
                want.sort();
                got.sort();
                if root != Some(mr) || want != got || !p.verify(&mr, &ret.clone().unwrap_or_default()) {
                    out.oracle_fail("proof-complete", &format!("honest proof does not verify: {}", op));
                }
                let mut rev = ret.clone().unwrap_or_default();
                rev.reverse();
                if p.root(&rev) != Some(mr) {
                    out.oracle_fail("proof-complete", &format!("honest proof does not verify on reordered leaves: {}", op));
                }
                if nodes.first().copied().unwrap_or_default() != mr {
                    out.oracle_fail("proof-tree-root", &format!("nodes[0] != build_merkle_root: {}", op));
                }
                out.count("mpg-honest-verified");
            } else {
                out.count("mpg-dup-indices");
            }
            ret.map(|r| (p.indices().to_vec(), p.lemmas().to_vec(), r))
        }
    }
}

pub fn mrg_op(out: &mut Out, indices: &[u32], lemmas: &[u64], leaves: &[u64]) -> Option<u64> {
    let op = format!("mrg {} {} {}", list(indices), list(lemmas), list(leaves));
    let p = GP::new(indices.to_vec(), lemmas.to_vec());
    let r = catch_unwind(AssertUnwindSafe(|| p.root(leaves)));
    match r {
        Err(_) => {
            out.op(&op, "panic");
            out.oracle_fail("proof-root-panic", &format!("MerkleProof::root panicked: {}", op));
            None
        }
        Ok(r) => {
            out.op(&op, &r.map(|x| format!("some {}", x)).unwrap_or("none".into()));
            out.count(if r.is_some() { "mrg-some" } else { "mrg-none" });
            r
        }
    }
}

pub fn mlg_op(out: &mut Out, leaves: &[u64], indices: &[u32]) {
    let op = format!("mlg {} {}", list(leaves), list(indices));
    let p = GP::new(indices.to_vec(), vec![]);
    let r = catch_unwind(AssertUnwindSafe(|| G::retrieve_leaves(leaves, &p)));
    match r {
        Err(_) => {
            out.op(&op, "panic");
            out.oracle_fail("proof-retrieve-panic", &format!("retrieve_leaves panicked: {}", op));
        }
        Ok(r) => {
            out.op(&op, &r.as_ref().map(|x| format!("some {}", list(x))).unwrap_or("none".into()));
            out.count(if r.is_some() { "mlg-some" } else { "mlg-none" });
        }
    }
}

// ------------------------------------------------------------------------------------------------
// ckb instantiation (Byte32, blake2b merge)

struct Leaves {
    d: term::Dict,
    raw: Vec<[u8; 32]>,
    packed: Vec<packed::Byte32>,
    /// root of the independently recomputed array tree
    root: [u8; 32],
}

fn b32(x: &[u8; 32]) -> packed::Byte32 {
    packed::Byte32::from_slice(x).unwrap()
}

fn mk_leaves(n: usize) -> Leaves {
    let mut d = term::Dict::new();
    let raw: Vec<[u8; 32]> = (0..n).map(|i| d.hb(&[(i & 0xff) as u8, (i >> 8) as u8])).collect();
    let root = d.cbmt(&raw);
    let packed = raw.iter().map(b32).collect();
    Leaves { d, raw, packed, root }
}

/// rank of leaf j's digest among the n leaf digests (`Byte32: Ord` = lexicographic bytes)
pub fn ranks(n: usize) -> Vec<usize> {
    let l = mk_leaves(n);
    let mut order: Vec<usize> = (0..n).collect();
    order.sort_by_key(|j| l.raw[*j]);
    let mut r = vec![0; n];
    for (k, j) in order.iter().enumerate() {
        r[*j] = k;
    }
    r
}

pub fn mpb_op(out: &mut Out, n: usize, idx: &[u32]) {
    let l = mk_leaves(n);
    let op = format!("mpb {} {} {}", n, list(&ranks(n)), list(idx));
    let mr = merkle_root(&l.packed);
    if mr.as_slice() != &l.root[..] {
        out.oracle_fail("proof-merkle-root", &format!("merkle_root differs from the recomputed array tree over {} leaves", n));
    }
    let r = catch_unwind(AssertUnwindSafe(|| CkbCBMT::build_merkle_proof(&l.packed, idx)));
    match r {
        Err(_) => {
            out.op(&op, "panic");
            out.count("mpb-panic");
            if !(n == 1 && idx.len() >= 2) {
                out.oracle_fail("proof-build-panic", &format!("build_merkle_proof panicked: {}", op));
            }
        }
        Ok(None) => {
            out.op(&op, "none");
            out.count("mpb-none");
            if n > 0 && !idx.is_empty() && idx.iter().all(|i| (*i as usize) < n) {
                out.oracle_fail("proof-complete", &format!("no proof for in-range indices: {}", op));
            }
        }
        Ok(Some(p)) => {
            let ret = CkbCBMT::retrieve_leaves(&l.packed, &p);
            let root = ret.as_ref().and_then(|ls| p.root(ls));
            let t = |x: &packed::Byte32| l.d.term(x.as_slice());
            out.op(
                &op,
                &format!(
                    "idx={} lem={} ret={} root={} mr={}",
                    list(p.indices()),
                    terms(p.lemmas().iter().map(t).collect()),
                    ret.as_ref().map(|v| terms(v.iter().map(t).collect())).unwrap_or("none".into()),
                    root.as_ref().map(t).unwrap_or("none".into()),
                    t(&mr)
                ),
            );
            out.count("mpb-some");
            let mut s = idx.to_vec();
            s.sort();
            s.dedup();
            if s.len() == idx.len() {
                let ok = root.as_ref().map(|r| r.as_slice() == mr.as_slice()).unwrap_or(false);
                let mut want: Vec<Vec<u8>> = idx.iter().map(|i| l.raw[*i as usize].to_vec()).collect();
                let mut got: Vec<Vec<u8>> = ret.clone().unwrap_or_default().iter().map(|x| x.as_slice().to_vec()).collect();
                want.sort();
                got.sort();
                if !ok || want != got || !p.verify(&mr, &ret.clone().unwrap_or_default()) {
                    out.oracle_fail("proof-complete", &format!("honest ckb proof does not verify: {}", op));
                }
                // every lemma is a node of the independently recomputed array tree (explained term)
                if p.lemmas().iter().any(|x| t(x).starts_with('?')) {
                    out.oracle_fail("proof-lemma-node", &format!("a lemma is not a node of the tree: {}", op));
                }
                // soundness (implementation only): replacing any one claimed leaf by a foreign digest is rejected
                let leaves = ret.clone().unwrap_or_default();
                for k in 0..leaves.len().min(4) {
                    let mut bad = leaves.clone();
                    bad[k] = b32(&b2(&[0xfe, k as u8, 0x01]));
                    if p.verify(&mr, &bad) {
                        out.oracle_fail("proof-sound", &format!("a proof with distinct leaf indices verifies a foreign leaf: {} k={}", op, k));
                    }
                    out.count("mpb-foreign-leaf-rejected");
                }
            }
        }
    }
}

pub const TAMPERS: u64 = 12;

/// get_transaction_proof's CBMT part + the statements of verify_transaction_proof (rpc/src/module/chain.rs) on the
/// tampered proof.  The block is: tx hashes = the n leaves, witness hashes = blake2b([0x77, i lo, i hi]).
pub fn txv_op(out: &mut Out, n: usize, idx: &[u32], tamper: u64) {
    let mut l = mk_leaves(n);
    let op = format!("txv {} {} {} {}", n, list(&ranks(n)), list(idx), tamper);
    let wit: Vec<[u8; 32]> = (0..n).map(|i| l.d.hb(&[0x77, (i & 0xff) as u8, (i >> 8) as u8])).collect();
    let wroot_raw = l.d.cbmt(&wit);
    let wit_packed: Vec<packed::Byte32> = wit.iter().map(b32).collect();
    // block.calc_witnesses_root() / block.transactions_root()
    let witnesses_root = merkle_root(&wit_packed);
    let transactions_root = merkle_root(&[merkle_root(&l.packed), witnesses_root.clone()]);
    if witnesses_root.as_slice() != &wroot_raw[..] {
        out.oracle_fail("proof-merkle-root", &format!("merkle_root over the witness hashes differs from the recomputed array tree: {}", op));
    }
    let built = catch_unwind(AssertUnwindSafe(|| CkbCBMT::build_merkle_proof(&l.packed, idx)));
    let p = match built {
        Err(_) => {
            out.op(&op, "panic");
            return;
        }
        Ok(None) => {
            out.op(&op, "none");
            return;
        }
        Ok(Some(p)) => p,
    };
    let mut indices = p.indices().to_vec();
    let mut lemmas: Vec<packed::Byte32> = p.lemmas().to_vec();
    let mut wroot = witnesses_root.clone();
    let foreign = b32(&l.d.hb(&[0xfd]));
    match tamper {
        0 => {}
        1 => indices.reverse(),
        2 => {
            if indices.len() >= 2 {
                indices.swap(0, 1)
            }
        }
        3 => indices.insert(0, indices[0]),
        4 => {
            lemmas.pop();
        }
        5 => lemmas.push(foreign.clone()),
        6 => {
            if lemmas.len() >= 2 {
                lemmas.swap(0, 1)
            }
        }
        7 => wroot = foreign.clone(),
        8 => indices[0] += 1,
        9 => indices[0] = indices[0].saturating_sub(1),
        10 => {
            if !lemmas.is_empty() {
                lemmas[0] = foreign.clone()
            }
        }
        11 => {
            let last = *indices.last().unwrap();
            indices.push(last)
        }
        _ => panic!("tamper"),
    }
    let mp = CkbProof::new(indices.clone(), lemmas.clone());
    let verdict = catch_unwind(AssertUnwindSafe(|| {
        CkbCBMT::retrieve_leaves(&l.packed, &mp).and_then(|tx_hashes| {
            mp.root(&tx_hashes).and_then(|raw_transactions_root| {
                if transactions_root == merkle_root(&[raw_transactions_root, wroot.clone()]) { Some(tx_hashes) } else { None }
            })
        })
    }));
    match verdict {
        Err(_) => {
            out.op(&op, "panic");
            out.oracle_fail("proof-verify-panic", &format!("verify_transaction_proof statements panicked: {}", op));
        }
        Ok(None) => {
            out.op(&op, "rej");
            out.count("txv-rej");
            let mut s = idx.to_vec();
            s.sort();
            s.dedup();
            if tamper == 0 && s.len() == idx.len() {
                out.oracle_fail("proof-complete", &format!("the node rejects its own transaction proof: {}", op));
            }
        }
        Ok(Some(hs)) => {
            out.op(&op, &format!("ok {}", terms(hs.iter().map(|x| l.d.term(x.as_slice())).collect())));
            out.count(if tamper == 0 { "txv-ok" } else { "txv-ok-tampered" });
            // soundness: every returned hash is a tx hash of the block; the untouched proof returns exactly the requested set
            let mut want: Vec<Vec<u8>> = idx.iter().map(|i| l.raw[*i as usize].to_vec()).collect();
            let mut got: Vec<Vec<u8>> = hs.iter().map(|x| x.as_slice().to_vec()).collect();
            want.sort();
            want.dedup();
            got.sort();
            got.dedup();
            if got.iter().any(|g| !l.raw.iter().any(|r| r.to_vec() == *g)) || (tamper == 0 && want != got) {
                out.oracle_fail("proof-sound", &format!("an accepted transaction proof returns hashes that were not proved: {}", op));
            }
            // a foreign extra lemma / a foreign witnesses root / a foreign value in place of a lemma can never be accepted
            if matches!(tamper, 5 | 7 | 10) && !(tamper == 10 && p.lemmas().is_empty()) {
                out.oracle_fail("proof-sound", &format!("a tampered transaction proof is accepted: {}", op));
            }
        }
    }
}


// ------------------------------------------------------------------------------------------------
// serialized_size.rs (model: Model/MolSize.lean)
//   ssz <blockhex> -> wo=<n> txs=<l> uncle=<n> pid=<n>
//        Block::serialized_size_without_uncle_proposals, Transaction::serialized_size_in_block per tx,
//        UncleBlock::serialized_size_in_block(), ProposalShortId::serialized_size()

fn rebuild(blk: &packed::Block, uncles: Vec<packed::UncleBlock>, txs: Vec<packed::Transaction>) -> Option<usize> {
    let uv = packed::UncleBlockVec::new_builder().extend(uncles).build();
    let tv = packed::TransactionVec::new_builder().extend(txs).build();
    match (blk.count_extra_fields(), blk.extension()) {
        (0, _) => Some(packed::Block::new_builder().header(blk.header()).uncles(uv).transactions(tv).proposals(blk.proposals()).build().as_slice().len()),
        (1, Some(ext)) => Some(
            packed::BlockV1::new_builder().header(blk.header()).uncles(uv).transactions(tv).proposals(blk.proposals()).extension(ext).build().as_slice().len(),
        ),
        _ => None,
    }
}

pub fn ssz_op(out: &mut Out, blk: &packed::Block) {
    let op = format!("ssz {}", hex(blk.as_slice()));
    let wo = blk.serialized_size_without_uncle_proposals();
    let txs: Vec<packed::Transaction> = blk.transactions().into_iter().collect();
    let uncles: Vec<packed::UncleBlock> = blk.uncles().into_iter().collect();
    let tsz: Vec<usize> = txs.iter().map(|t| t.serialized_size_in_block()).collect();
    let usz = packed::UncleBlock::serialized_size_in_block();
    let psz = packed::ProposalShortId::serialized_size();
    out.op(&op, &format!("wo={} txs={} uncle={} pid={}", wo, list(&tsz), usz, psz));
    out.count("ssz");
    // implementation-only oracles: each size function is the length difference it is documented to be
    let stripped: Vec<packed::UncleBlock> = uncles.iter().map(|u| u.clone().as_builder().proposals(packed::ProposalShortIdVec::default()).build()).collect();
    if let (Some(full), Some(s)) = (rebuild(blk, uncles.clone(), txs.clone()), rebuild(blk, stripped, txs.clone())) {
        if full != blk.as_slice().len() {
            out.oracle_fail("size-rebuild", &format!("rebuilding a block from its parts changes its size: {}", op));
        }
        if s != wo {
            out.oracle_fail("size-without-uncle-proposals", &format!("serialized_size_without_uncle_proposals {} != size of the block with uncle proposals removed {}: {}", wo, s, op));
        }
        if let Some(t) = txs.first() {
            let mut more = txs.clone();
            more.push(t.clone());
            if rebuild(blk, uncles.clone(), more) != Some(full + t.serialized_size_in_block()) {
                out.oracle_fail("size-tx-in-block", &format!("one more transaction does not add serialized_size_in_block: {}", op));
            }
        }
        let mut moreu = uncles.clone();
        moreu.push(packed::UncleBlock::new_builder().header(blk.header()).build());
        if rebuild(blk, moreu, txs.clone()) != Some(full + usz) {
            out.oracle_fail("size-uncle-in-block", &format!("one more proposal-less uncle does not add UncleBlock::serialized_size_in_block: {}", op));
        }
        if packed::ProposalShortId::default().as_slice().len() != psz {
            out.oracle_fail("size-proposal-short-id", "ProposalShortId::serialized_size() is not the encoded size");
        }
        out.count("ssz-oracles");
    }
}

// ------------------------------------------------------------------------------------------------
// generators

fn gen_n(rng: &mut Rng) -> usize {
    match rng.below(10) {
        0 => 0,
        1 => 1,
        2 => 2,
        3 => *rng.pick(&[3usize, 4, 5, 7, 8, 9, 15, 16, 17, 31, 32, 33]),
        _ => rng.range(1, 24) as usize,
    }
}

fn gen_idx(rng: &mut Rng, n: usize) -> Vec<u32> {
    let mut all: Vec<u32> = (0..n as u32).collect();
    rng.shuffle(&mut all);
    let mut idx: Vec<u32> = match rng.below(8) {
        0 => all.clone(),
        1 => all.iter().take(1).cloned().collect(),
        2 => vec![],
        _ => {
            let k = if n == 0 { 0 } else { rng.range(1, n as u64 + 1) as usize };
            all.iter().take(k).cloned().collect()
        }
    };
    match rng.below(12) {
        0 => {
            if let Some(x) = idx.first().cloned() {
                idx.push(x)
            }
        }
        1 => idx.push(n as u32),
        2 => idx.push(n as u32 + rng.below(5) as u32 + 1),
        3 => {
            // the two ends and neighbours: sibling pairs at both depths
            idx = vec![0, n.saturating_sub(1) as u32];
            idx.dedup();
            if n == 0 {
                idx.clear()
            }
        }
        _ => {}
    }
    idx
}

fn gen_leaves(rng: &mut Rng, n: usize) -> Vec<u64> {
    let small = rng.chance(1, 2);
    (0..n).map(|_| if small { rng.below(4) } else if rng.chance(1, 10) { u64::MAX - rng.below(3) } else { rng.below(1000) }).collect()
}

fn proof_case(out: &mut Out, rng: &mut Rng) {
    let n = gen_n(rng);
    out.begin_case(&format!("proof n={}", n));
    let leaves = gen_leaves(rng, n);
    let idx = gen_idx(rng, n);
    let honest = mpg_op(out, &leaves, &idx);
    // retrieve_leaves on arbitrary index lists around the leaf range
    let lo = n.saturating_sub(2) as u32;
    let k = rng.below(4) as usize;
    let ri: Vec<u32> = (0..k).map(|_| lo + rng.below(n as u64 + 4) as u32).collect();
    mlg_op(out, &leaves, &ri);
    if let Some((indices, lemmas, ret)) = honest {
        out.nontrivial(format!("g:{}:{}:{}", n.min(12), idx.len().min(6), lemmas.len().min(5)));
        let true_root = G::build_merkle_root(&leaves);
        let base_ok = GP::new(indices.clone(), lemmas.clone()).root(&ret) == Some(true_root);
        // mutations of the honest proof
        for _ in 0..3 {
            let (mut i2, mut l2, mut v2) = (indices.clone(), lemmas.clone(), ret.clone());
            let kind = rng.below(11);
            match kind {
                0 => rng.shuffle(&mut v2),
                1 => i2.reverse(),
                2 => {
                    l2.pop();
                }
                3 => l2.push(rng.below(5)),
                4 => {
                    if !l2.is_empty() {
                        let k = rng.below(l2.len() as u64) as usize;
                        l2[k] = l2[k].wrapping_add(1)
                    }
                }
                5 => {
                    let k = rng.below(i2.len() as u64) as usize;
                    i2[k] = if rng.chance(1, 2) { i2[k] + 1 } else { i2[k].saturating_sub(1) }
                }
                6 => {
                    // duplicate index with a foreign smallest leaf: the first of two equal indices is dropped when no lemma is left
                    let k = rng.below(i2.len() as u64) as usize;
                    i2.insert(k, i2[k]);
                    v2.push(if rng.chance(1, 2) { 0 } else { v2[k.min(v2.len() - 1)] });
                }
                7 => {
                    v2.pop();
                }
                8 => {
                    let k = rng.below(v2.len() as u64) as usize;
                    v2[k] = v2[k].wrapping_add(1)
                }
                9 => {
                    if l2.len() >= 2 {
                        l2.swap(0, 1)
                    }
                }
                _ => {
                    // an index outside the leaf range (an inner node or beyond the array)
                    let k = rng.below(i2.len() as u64) as usize;
                    i2[k] = rng.below(2 * n as u64 + 3) as u32;
                }
            }
            let r = mrg_op(out, &i2, &l2, &v2);
            if kind == 0 && base_ok && r != Some(true_root) {
                out.oracle_fail("proof-complete", "an honest proof is rejected when the leaves are given in another order");
            }
        }
    }
    // free-form small proofs (reach the silent-drop path, queue-not-empty-at-root, leftover lemmas)
    for _ in 0..2 {
        let k = rng.range(1, 5) as usize;
        let i3: Vec<u32> = (0..k).map(|_| rng.below(8) as u32).collect();
        let l3: Vec<u64> = (0..rng.below(4)).map(|_| rng.below(6)).collect();
        let v3: Vec<u64> = (0..if rng.chance(1, 6) { k + 1 } else { k }).map(|_| rng.below(6)).collect();
        mrg_op(out, &i3, &l3, &v3);
    }
    // ckb instantiation
    let nb = gen_n(rng).min(20);
    let ib = gen_idx(rng, nb);
    mpb_op(out, nb, &ib);
    let tamper = if rng.chance(1, 3) { 0 } else { rng.below(TAMPERS) };
    txv_op(out, nb, &ib, tamper);
    out.nontrivial(format!("b:{}:{}:{}", nb.min(12), ib.len().min(6), tamper));
}

fn size_case(out: &mut Out, t: &Table, rng: &mut Rng) {
    out.begin_case("sizes");
    let blk = view::gen_block(t, rng);
    ssz_op(out, &blk);
    out.nontrivial(format!("s:{}:{}:{}", blk.transactions().len().min(6), blk.uncles().len().min(3), blk.count_extra_fields()));
}

pub fn run_proof(opts: &Opts, out: &mut Out) {
    let mut rng = Rng::new(opts.seed ^ 0x70726f6f66);
    // exhaustive small part: every non-empty index subset of every tree with up to 6 leaves (ckb instantiation), every tamper
    out.begin_case("proof exhaustive-small");
    for n in 1..=6usize {
        for mask in 1u32..(1 << n) {
            let idx: Vec<u32> = (0..n as u32).filter(|i| mask >> i & 1 == 1).collect();
            mpb_op(out, n, &idx);
            if (mask as u64 + opts.seed) % 3 == 0 {
                txv_op(out, n, &idx, (mask as u64 + opts.seed / 3) % TAMPERS);
            }
        }
    }
    let cases = if opts.thorough() { 4000 } else { 500 } * opts.scale;
    for _ in 0..cases {
        proof_case(out, &mut rng);
    }
    let t = Table::new();
    for _ in 0..cases / 2 {
        size_case(out, &t, &mut rng);
    }
}

pub fn replay_line(out: &mut Out, ts: &[&str]) -> bool {
    match ts[0] {
        "mpg" => {
            mpg_op(out, &parse_list::<u64>(ts[1]), &parse_list::<u32>(ts[2]));
        }
        "mrg" => {
            mrg_op(out, &parse_list::<u32>(ts[1]), &parse_list::<u64>(ts[2]), &parse_list::<u64>(ts[3]));
        }
        "mlg" => mlg_op(out, &parse_list::<u64>(ts[1]), &parse_list::<u32>(ts[2])),
        "mpb" => mpb_op(out, ts[1].parse().unwrap(), &parse_list::<u32>(ts[3])),
        "txv" => txv_op(out, ts[1].parse().unwrap(), &parse_list::<u32>(ts[3]), ts[4].parse().unwrap()),
        "ssz" => ssz_op(out, &packed::Block::from_compatible_slice(&unhex(ts[1])).expect("ssz: a compatible Block")),
        _ => return false,
    }
    true
}
