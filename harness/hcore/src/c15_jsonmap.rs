//! C15, stream `json`, op `jm`: the field maps of the hand-written conversions in util/jsonrpc-types/src/blockchain.rs,
//! DISCOVERED on the real code by probing one field at a time, compared with the table the translator
//! (bin/gen.d/jsonmap.py -> lean/CkbVerif/Gen/JsonMap.lean) extracts from the source text.
//!
//!   jm <Type> <Branch> -> fwd=<json=packed,..> back=<json=packed,..>
//!
//! forward (`From<packed::X> for X`): two generated values v, w of the packed type; for every packed field (names from the
//! molecule schema, `raw` flattened) v with THAT field taken from w is converted to JSON by the real code: the JSON keys whose
//! values change are the keys that read the field.  backward (`From<X> for packed::X`): JSON(v) with ONE key taken from
//! JSON(w) is deserialised and converted by the real code, the packed fields that change (read back through the real
//! accessors) are the fields written from that key.  `Block`/`BlockV1` = the two builder branches of `From<Block>`
//! (a BlockV1 is carried as a compatible Block; its fifth field is `extension`).
use super::*;
use ckb_jsonrpc_types as json;
use serde_json::Value;

#[path = "c15_jsonmap_gen.rs"]
mod names;

macro_rules! conv {
    ($ty:ident, $jty:ty, $bytes:expr) => {{
        let p = packed::$ty::from_slice($bytes).expect("own encoding");
        let j: $jty = p.into();
        serde_json::to_value(&j).expect("to_value")
    }};
}
macro_rules! back {
    ($ty:ident, $jty:ty, $v:expr) => {{
        let j: $jty = serde_json::from_value($v).expect("from_value");
        let p: packed::$ty = j.into();
        p.as_slice().to_vec()
    }};
}

fn to_json(name: &str, bytes: &[u8]) -> Value {
    match name {
        "Script" => conv!(Script, json::Script, bytes),
        "OutPoint" => conv!(OutPoint, json::OutPoint, bytes),
        "CellInput" => conv!(CellInput, json::CellInput, bytes),
        "CellOutput" => conv!(CellOutput, json::CellOutput, bytes),
        "CellDep" => conv!(CellDep, json::CellDep, bytes),
        "Transaction" => conv!(Transaction, json::Transaction, bytes),
        "Header" => conv!(Header, json::Header, bytes),
        "UncleBlock" => conv!(UncleBlock, json::UncleBlock, bytes),
        "Block" => conv!(Block, json::Block, bytes),
        "BlockV1" => {
            let p = packed::BlockV1::from_slice(bytes).expect("own encoding").as_v0();
            let j: json::Block = p.into();
            serde_json::to_value(&j).expect("to_value")
        }
        _ => panic!("jm: no json type for {name}"),
    }
}

fn from_json(name: &str, v: Value) -> Vec<u8> {
    match name {
        "Script" => back!(Script, json::Script, v),
        "OutPoint" => back!(OutPoint, json::OutPoint, v),
        "CellInput" => back!(CellInput, json::CellInput, v),
        "CellOutput" => back!(CellOutput, json::CellOutput, v),
        "CellDep" => back!(CellDep, json::CellDep, v),
        "Transaction" => back!(Transaction, json::Transaction, v),
        "Header" => back!(Header, json::Header, v),
        "UncleBlock" => back!(UncleBlock, json::UncleBlock, v),
        "Block" | "BlockV1" => back!(Block, json::Block, v),
        _ => panic!("jm: no json type for {name}"),
    }
}

fn field_paths(name: &str) -> Vec<String> {
    let base = if name == "BlockV1" { "Block" } else { name };
    let mut v: Vec<String> = names::PACKED_FIELDS.iter().find(|(n, _)| *n == base).expect("jm: type").1.iter().map(|s| s.to_string()).collect();
    if name == "BlockV1" {
        v.push("extension".into());
    }
    v
}

/// the flattened fields of a value of the type, in the order of `field_paths`
fn flat(name: &str, v: &Val) -> Vec<Val> {
    let fs = v.seq();
    if field_paths(name).first().map(|p| p.starts_with("raw.")).unwrap_or(false) {
        let mut out: Vec<Val> = fs[0].seq().to_vec();
        out.extend(fs[1..].iter().cloned());
        out
    } else {
        fs.to_vec()
    }
}

fn unflat(name: &str, fields: Vec<Val>) -> Val {
    let paths = field_paths(name);
    let nraw = paths.iter().filter(|p| p.starts_with("raw.")).count();
    if nraw > 0 {
        let mut top = vec![Val::Seq(fields[..nraw].to_vec())];
        top.extend(fields[nraw..].iter().cloned());
        Val::Seq(top)
    } else {
        Val::Seq(fields)
    }
}

fn gen_val(t: &Table, rng: &mut Rng, name: &str) -> Val {
    let mut g = Gen { t, rng, budget: 300, mode: ByteMode::JsonValid, big: false };
    g.val(name, None)
}

fn keys(a: &Value, b: &Value) -> Vec<String> {
    let mut ks: Vec<String> = a.as_object().map(|o| o.keys().cloned().collect()).unwrap_or_default();
    for k in b.as_object().map(|o| o.keys().cloned().collect::<Vec<_>>()).unwrap_or_default() {
        if !ks.contains(&k) {
            ks.push(k);
        }
    }
    ks
}

fn get(v: &Value, k: &str) -> Value {
    v.get(k).cloned().unwrap_or(Value::Null)
}

fn field_types(t: &Table, name: &str) -> Vec<&'static str> {
    let top: Vec<&'static str> = match t.kind(name) {
        K::Table(fs) | K::Struct(fs) => fs.to_vec(),
        _ => panic!("jm: {name} is not a table / struct"),
    };
    if field_paths(name).first().map(|p| p.starts_with("raw.")).unwrap_or(false) {
        let mut out: Vec<&'static str> = match t.kind(top[0]) {
            K::Table(fs) | K::Struct(fs) => fs.to_vec(),
            _ => panic!("jm: raw of {name}"),
        };
        out.extend(top[1..].iter().cloned());
        out
    } else {
        top
    }
}

pub fn jm_op(out: &mut Out, t: &Table, rng: &mut Rng, name: &str) {
    let (ty, branch) = if name == "BlockV1" { ("Block", "BlockV1") } else { (name, name) };
    let op = format!("jm {} {}", ty, branch);
    let paths = field_paths(name);
    let r = catch_unwind(AssertUnwindSafe(|| {
        let v = gen_val(t, rng, name);
        let fv = flat(name, &v);
        let jv = to_json(name, &glue::encode(name, &v).expect("known type"));
        // for every field another value of the field's type
        let ftys = field_types(t, name);
        let alt: Vec<Val> = (0..paths.len())
            .map(|i| {
                let fname = paths[i].rsplit('.').next().unwrap().to_string();
                for _ in 0..200 {
                    let mut g = Gen { t, rng, budget: 150, mode: ByteMode::JsonValid, big: false };
                    let a = g.val(ftys[i], Some(&fname));
                    if a != fv[i] {
                        return a;
                    }
                }
                panic!("jm: no second value for {}", paths[i]);
            })
            .collect();
        // forward: one packed field at a time
        let mut fwd: Vec<String> = vec![];
        for (i, p) in paths.iter().enumerate() {
            let mut f2 = fv.clone();
            f2[i] = alt[i].clone();
            let j2 = to_json(name, &glue::encode(name, &unflat(name, f2)).expect("known type"));
            let changed: Vec<String> = keys(&jv, &j2).into_iter().filter(|k| get(&jv, k) != get(&j2, k)).collect();
            fwd.push(format!("{}={}", if changed.is_empty() { "?".to_string() } else { changed.join("+") }, p));
        }
        // backward: one json key at a time, taken from the value in which EVERY field differs
        let jw = to_json(name, &glue::encode(name, &unflat(name, alt.clone())).expect("known type"));
        let mut back: Vec<(usize, String)> = vec![];
        for k in keys(&jv, &jw) {
            if get(&jv, &k) == get(&jw, &k) {
                back.push((usize::MAX, format!("{}=same", k)));
                continue;
            }
            let mut j2 = jv.clone();
            j2.as_object_mut().unwrap().insert(k.clone(), get(&jw, &k));
            let bytes = from_json(name, j2);
            let d = real_decode(name, &bytes, false).ok().flatten().expect("jm: the converted value decodes");
            let fd = flat(name, &d);
            let changed: Vec<usize> = (0..paths.len()).filter(|i| fd[*i] != fv[*i]).collect();
            if changed.is_empty() {
                back.push((usize::MAX, format!("{}=?", k)));
            }
            for i in changed {
                back.push((i, format!("{}={}", k, paths[i])));
            }
        }
        back.sort();
        (fwd.join(","), back.into_iter().map(|x| x.1).collect::<Vec<_>>().join(","))
    }));
    match r {
        Ok((f, b)) => {
            out.op(&op, &format!("fwd={} back={}", f, b));
            out.count("jm");
            // implementation-only: the two discovered maps are the same set of pairs (mutually inverse directions)
            let mut fs: Vec<&str> = f.split(',').collect();
            let mut bs: Vec<&str> = b.split(',').collect();
            fs.sort();
            bs.sort();
            if fs != bs {
                out.oracle_fail("json-field-map", &format!("{}: packed->json reads {} but json->packed writes {}", op, f, b));
            }
        }
        Err(e) => {
            out.op(&op, "panic");
            out.oracle_fail("json-panic", &format!("{} {}", op, panic_text(e)));
        }
    }
}

pub const TYPES: [&str; 10] = ["Script", "OutPoint", "CellInput", "CellOutput", "CellDep", "Transaction", "Header", "UncleBlock", "Block", "BlockV1"];
