//! C20 — proposal window: the real `ckb_proposal_table::ProposalTable` driven by random chain
//! histories (extensions, multi-block attaches, reorganisations of every depth relative to the
//! window, shorter-but-heavier branches, truncations, restarts, chains shorter than the window), by
//! bounded-exhaustive short histories and by arbitrary raw op sequences.
//!
//! The composite ops replay, on the real table, the call sequence of `chain/src/verify.rs`
//! (`update_proposal_table` = remove detached / insert attached / `reload_proposal_table`, then
//! `finalize(origin, new_tip)`) and of `shared/src/shared_builder.rs::init_proposal_table`; the
//! node-level stream (harness/hnode/src/c20.rs) checks the same lines against the real chain
//! service. The oracle is a direct union over the current main chain kept by the harness.
//!
//! Protocol (model side: lean/CkbVerif/Driver/C20.lean). `<ids>` = `a,b,c` or `-`.
//!   cfg <close> <far> | cfg default  -> ok <close> <far>     (fresh table, default view)
//!   insert <n> <ids>                 -> new | replaced
//!   remove <n>                       -> none | some <ids>
//!   finalize <tip>                   -> removed=<ids> set=<ids> gap=<ids> table=<n:ids;..|->
//!   view-reset                       -> ok
//!   boot <ids0> <ids1> ..            -> set=.. gap=.. table=..   (start-up on a stored chain)
//!   switch <common> <ids>*           -> removed=.. set=.. gap=.. table=..
//!                                       (main chain becomes chain[0..=common] ++ blocks)
//!   restart                          -> set=.. gap=.. table=..
use crate::common::*;
use ckb_chain_spec::consensus::{ProposalWindow, TX_PROPOSAL_WINDOW};
use ckb_proposal_table::{ProposalTable, ProposalView};
use ckb_types::packed::ProposalShortId;
use ckb_types::prelude::Entity;
use std::collections::{BTreeSet, HashSet};

fn pid(x: u64) -> ProposalShortId {
    let mut b = [0u8; 10];
    b[..8].copy_from_slice(&x.to_le_bytes());
    ProposalShortId::new(b)
}

fn unpid(p: &ProposalShortId) -> u64 {
    let b = p.as_slice();
    u64::from_le_bytes(b[..8].try_into().unwrap())
}

fn to_set(ids: &[u64]) -> HashSet<ProposalShortId> {
    ids.iter().map(|x| pid(*x)).collect()
}

fn show_ids<'a, I: IntoIterator<Item = &'a ProposalShortId>>(it: I) -> String {
    let s: BTreeSet<u64> = it.into_iter().map(unpid).collect();
    show_set(&s)
}

fn show_set(s: &BTreeSet<u64>) -> String {
    if s.is_empty() { "-".into() } else { s.iter().map(|x| x.to_string()).collect::<Vec<_>>().join(",") }
}

fn show_list(ids: &[u64]) -> String {
    if ids.is_empty() { "-".into() } else { ids.iter().map(|x| x.to_string()).collect::<Vec<_>>().join(",") }
}

fn parse_ids(s: &str) -> Vec<u64> {
    if s == "-" { vec![] } else { s.split(',').map(|x| x.parse().expect("id")).collect() }
}

struct Sim {
    w: ProposalWindow,
    table: ProposalTable,
    view: ProposalView,
    /// the main chain as the store would hold it: union proposal ids per block number
    chain: Vec<Vec<u64>>,
}

impl Sim {
    fn new(w: ProposalWindow) -> Sim {
        Sim { w, table: ProposalTable::new(w), view: ProposalView::default(), chain: vec![vec![]] }
    }

    fn table_str(&self) -> String {
        let all = self.table.all();
        if all.is_empty() {
            return "-".into();
        }
        all.iter().map(|(n, ids)| format!("{}:{}", n, show_ids(ids.iter()))).collect::<Vec<_>>().join(";")
    }

    fn view_line(&self, removed: Option<&HashSet<ProposalShortId>>) -> String {
        let r = match removed {
            Some(r) => format!("removed={} ", show_ids(r.iter())),
            None => String::new(),
        };
        format!("{}set={} gap={} table={}", r, show_ids(self.view.set().iter()), show_ids(self.view.gap().iter()), self.table_str())
    }

    fn finalize(&mut self, tip: u64) -> HashSet<ProposalShortId> {
        let (removed, view) = self.table.finalize(&self.view, tip);
        self.view = view;
        removed
    }

    /// `init_proposal_table` (shared/src/shared_builder.rs) on the harness's chain
    fn init(&mut self) {
        let tip_number = self.chain.len() as u64 - 1;
        let mut table = ProposalTable::new(self.w);
        let proposal_start = tip_number.saturating_sub(self.w.farthest());
        for bn in proposal_start..=tip_number {
            table.insert(bn, to_set(&self.chain[bn as usize]));
        }
        let (_, view) = table.finalize(&ProposalView::default(), tip_number);
        self.table = table;
        self.view = view;
    }

    /// `update_proposal_table(fork)` + `finalize` (chain/src/verify.rs `verify_block` / `truncate`)
    fn switch(&mut self, common: u64, branch: &[Vec<u64>]) -> HashSet<ProposalShortId> {
        let old_tip = self.chain.len() as u64 - 1;
        assert!(common <= old_tip);
        let detached: Vec<u64> = (common + 1..=old_tip).collect();
        self.chain.truncate(common as usize + 1);
        self.chain.extend(branch.iter().cloned());
        let attached: Vec<u64> = (common + 1..common + 1 + branch.len() as u64).collect();
        for n in &detached {
            self.table.remove(*n);
        }
        for n in &attached {
            self.table.insert(*n, to_set(&self.chain[*n as usize]));
        }
        // reload_proposal_table
        if !detached.is_empty() {
            let detached_front = detached[0];
            if detached_front >= 2 {
                let common = detached_front - 1;
                let new_tip = attached.last().copied().unwrap_or(common);
                let proposal_start = std::cmp::max(1, (new_tip + 1).saturating_sub(self.w.farthest()));
                for bn in proposal_start..=common {
                    self.table.insert(bn, to_set(&self.chain[bn as usize]));
                }
            }
        }
        let new_tip = self.chain.len() as u64 - 1;
        self.finalize(new_tip)
    }
}

/// The property's right-hand side, computed directly from a main chain: ids of non-genesis blocks
/// at distance close..=far (set) / < close (gap) from the next block.
fn window_of(chain: &[Vec<u64>], w: ProposalWindow) -> (BTreeSet<u64>, BTreeSet<u64>) {
    let next = chain.len() as u64;
    let (mut set, mut gap) = (BTreeSet::new(), BTreeSet::new());
    for n in 1..next {
        let d = next - n;
        if d >= w.closest() && d <= w.farthest() {
            set.extend(chain[n as usize].iter().copied());
        } else if d < w.closest() {
            gap.extend(chain[n as usize].iter().copied());
        }
    }
    (set, gap)
}

fn check_view(out: &mut Out, sim: &Sim, what: &str) {
    let (set, gap) = window_of(&sim.chain, sim.w);
    let iset: BTreeSet<u64> = sim.view.set().iter().map(unpid).collect();
    let igap: BTreeSet<u64> = sim.view.gap().iter().map(unpid).collect();
    if iset != set {
        out.oracle_fail("set-not-window", &format!("{what}: view.set={} window={} len={}", show_set(&iset), show_set(&set), sim.chain.len()));
    }
    if igap != gap {
        out.oracle_fail("gap-not-window", &format!("{what}: view.gap={} window={} len={}", show_set(&igap), show_set(&gap), sim.chain.len()));
    }
}

fn do_switch(out: &mut Out, sim: &mut Sim, common: u64, branch: &[Vec<u64>]) {
    let (old_set, _) = window_of(&sim.chain, sim.w);
    let removed = sim.switch(common, branch);
    let mut op = format!("switch {common}");
    for b in branch {
        op.push(' ');
        op.push_str(&show_list(b));
    }
    out.op(&op, &sim.view_line(Some(&removed)));
    check_view(out, sim, &op);
    let (new_set, _) = window_of(&sim.chain, sim.w);
    let left: BTreeSet<u64> = old_set.difference(&new_set).copied().collect();
    let irem: BTreeSet<u64> = removed.iter().map(unpid).collect();
    if irem != left {
        out.oracle_fail("removed-not-left-window", &format!("{op}: removed={} left={}", show_set(&irem), show_set(&left)));
    }
}

fn do_restart(out: &mut Out, sim: &mut Sim) {
    let before_set: BTreeSet<u64> = sim.view.set().iter().map(unpid).collect();
    let before_gap: BTreeSet<u64> = sim.view.gap().iter().map(unpid).collect();
    sim.init();
    out.op("restart", &sim.view_line(None));
    check_view(out, sim, "restart");
    let after_set: BTreeSet<u64> = sim.view.set().iter().map(unpid).collect();
    let after_gap: BTreeSet<u64> = sim.view.gap().iter().map(unpid).collect();
    if before_set != after_set || before_gap != after_gap {
        out.oracle_fail("restart-changes-view", &format!("len={} before set={} gap={} after set={} gap={}", sim.chain.len(), show_set(&before_set), show_set(&before_gap), show_set(&after_set), show_set(&after_gap)));
    }
}

fn do_boot(out: &mut Out, sim: &mut Sim, chain: Vec<Vec<u64>>) {
    sim.chain = chain;
    sim.init();
    let mut op = "boot".to_string();
    for b in &sim.chain {
        op.push(' ');
        op.push_str(&show_list(b));
    }
    out.op(&op, &sim.view_line(None));
    if sim.chain[0].is_empty() {
        check_view(out, sim, "boot");
    }
}

fn cfg(out: &mut Out, close: u64, far: u64) -> Sim {
    out.op(&format!("cfg {close} {far}"), &format!("ok {close} {far}"));
    Sim::new(ProposalWindow(close, far))
}

fn gen_block(rng: &mut Rng, pool: u64, fresh: &mut u64) -> Vec<u64> {
    let k = match rng.below(8) {
        0 | 1 => 0,
        2..=4 => 1,
        5 | 6 => 2,
        _ => 3,
    };
    let mut v = vec![];
    for _ in 0..k {
        if rng.chance(1, 3) {
            *fresh += 1;
            v.push(100 + *fresh);
        } else {
            v.push(rng.below(pool));
        }
    }
    v
}

/// random chain history
fn history_case(out: &mut Out, rng: &mut Rng, n_ops: usize) {
    let wins: [(u64, u64); 8] = [(TX_PROPOSAL_WINDOW.closest(), TX_PROPOSAL_WINDOW.farthest()), (1, 2), (2, 4), (1, 1), (3, 3), (1, 5), (2, 3), (4, 6)];
    let (close, far) = *rng.pick(&wins);
    out.begin_case(&format!("history w={close},{far}"));
    let mut sim = cfg(out, close, far);
    do_boot(out, &mut sim, vec![vec![]]);
    let pool = rng.range(3, 10);
    let mut fresh = 0u64;
    let mut shape = String::new();
    let (mut deep_reorg, mut long, mut restarted, mut shorter) = (false, false, false, false);
    for _ in 0..n_ops {
        let tip = sim.chain.len() as u64 - 1;
        match rng.below(20) {
            0..=9 => {
                let b = gen_block(rng, pool, &mut fresh);
                do_switch(out, &mut sim, tip, &[b]);
                out.count("extend");
                shape.push('e');
            }
            10 => {
                let k = rng.range(2, 4);
                let bs: Vec<Vec<u64>> = (0..k).map(|_| gen_block(rng, pool, &mut fresh)).collect();
                do_switch(out, &mut sim, tip, &bs);
                out.count("extend-multi");
                shape.push('m');
            }
            11..=15 => {
                if tip == 0 {
                    continue;
                }
                // depth relative to the window: around close, around far, beyond far, whole chain
                let depth = match rng.below(6) {
                    0 => 1,
                    1 => rng.range(1, close + 1),
                    2 => rng.range(close.saturating_sub(1).max(1), far + 1),
                    3 => far + rng.range(0, 3),
                    4 => tip,
                    _ => rng.range(1, tip),
                }
                .min(tip)
                .max(1);
                let common = tip - depth;
                // new branch: usually longer, sometimes equal or shorter (heavier but shorter)
                let len = match rng.below(5) {
                    0 => rng.range(1, depth),
                    1 => depth,
                    _ => depth + rng.range(1, 3),
                };
                let bs: Vec<Vec<u64>> = (0..len).map(|_| gen_block(rng, pool, &mut fresh)).collect();
                do_switch(out, &mut sim, common, &bs);
                out.count("reorg");
                if len < depth {
                    out.count("reorg-to-shorter");
                    shorter = true;
                }
                if depth >= close {
                    deep_reorg = true;
                }
                if depth > far {
                    out.count("reorg-deeper-than-window");
                }
                shape.push_str(&format!("r{depth}/{len}"));
            }
            16 | 17 => {
                if tip == 0 {
                    continue;
                }
                let target = if rng.chance(1, 4) { 0 } else { rng.range(0, tip) };
                do_switch(out, &mut sim, target, &[]);
                out.count("truncate");
                if target < tip {
                    shorter = true;
                }
                shape.push_str(&format!("t{}", tip - target));
            }
            _ => {
                do_restart(out, &mut sim);
                out.count("restart");
                restarted = true;
                shape.push('R');
            }
        }
        if sim.chain.len() as u64 > far + 2 {
            long = true;
        }
    }
    do_restart(out, &mut sim);
    if deep_reorg && long && restarted && shorter {
        out.nontrivial(format!("w={close},{far} {shape}"));
    }
}

/// bounded-exhaustive short histories over a fixed op alphabet
fn exhaustive(out: &mut Out, close: u64, far: u64, max_len: usize) {
    // (depth, new branch length); depth 0 = extension; len 0 = truncation; (0,0) = restart
    let alphabet: [(u64, u64); 10] = [(0, 1), (0, 2), (1, 1), (2, 1), (2, 3), (3, 2), (1, 0), (2, 0), (0, 0), (3, 4)];
    let mut idx = vec![0usize; max_len];
    for len in 1..=max_len {
        for i in idx.iter_mut() {
            *i = 0;
        }
        'seqs: loop {
            // run idx[0..len]
            let label: Vec<String> = idx[..len].iter().map(|i| format!("{}/{}", alphabet[*i].0, alphabet[*i].1)).collect();
            out.begin_case(&format!("exhaustive w={close},{far} {}", label.join(" ")));
            let mut sim = cfg(out, close, far);
            // start from a chain of three blocks so that the reorg ops are applicable early
            do_boot(out, &mut sim, vec![vec![], vec![1], vec![2, 1]]);
            let mut next_id = 10u64;
            let mut nt = false;
            for i in &idx[..len] {
                let (depth, blen) = alphabet[*i];
                let tip = sim.chain.len() as u64 - 1;
                if depth == 0 && blen == 0 {
                    do_restart(out, &mut sim);
                    out.count("x-restart");
                    continue;
                }
                if depth > tip {
                    continue;
                }
                let bs: Vec<Vec<u64>> = (0..blen)
                    .map(|j| {
                        next_id += 1;
                        // one fresh id, and one id shared with other blocks
                        vec![next_id, 1 + (j + depth) % 3]
                    })
                    .collect();
                do_switch(out, &mut sim, tip - depth, &bs);
                out.count("x-switch");
                if depth >= 2 {
                    nt = true;
                }
            }
            do_restart(out, &mut sim);
            if nt {
                out.nontrivial(format!("x w={close},{far} {}", label.join(" ")));
            }
            // next sequence
            let mut k = len;
            loop {
                if k == 0 {
                    break 'seqs;
                }
                k -= 1;
                idx[k] += 1;
                if idx[k] < alphabet.len() {
                    break;
                }
                idx[k] = 0;
            }
        }
    }
}

/// arbitrary raw op sequences on the table (no chain behind them): model/implementation diff only
fn raw_case(out: &mut Out, rng: &mut Rng, n_ops: usize) {
    let wins: [(u64, u64); 5] = [(1, 2), (2, 4), (1, 1), (2, 10), (3, 5)];
    let (close, far) = *rng.pick(&wins);
    out.begin_case(&format!("raw w={close},{far}"));
    let mut sim = cfg(out, close, far);
    let span = far + 6;
    for _ in 0..n_ops {
        match rng.below(10) {
            0..=4 => {
                let n = rng.below(span);
                let k = rng.below(4);
                let ids: Vec<u64> = (0..k).map(|_| rng.below(8)).collect();
                let new = sim.table.insert(n, to_set(&ids));
                out.op(&format!("insert {} {}", n, show_list(&ids)), if new { "new" } else { "replaced" });
                out.count("raw-insert");
            }
            5 | 6 => {
                let n = rng.below(span);
                let r = sim.table.remove(n);
                out.op(&format!("remove {n}"), &match r {
                    Some(ids) => format!("some {}", show_ids(ids.iter())),
                    None => "none".into(),
                });
                out.count("raw-remove");
            }
            7 => {
                sim.view = ProposalView::default();
                out.op("view-reset", "ok");
            }
            _ => {
                let n = rng.below(span);
                let removed = sim.finalize(n);
                out.op(&format!("finalize {n}"), &sim.view_line(Some(&removed)));
                out.count("raw-finalize");
            }
        }
    }
}

fn replay(out: &mut Out, ops: &[String]) {
    let mut sim = Sim::new(TX_PROPOSAL_WINDOW);
    for line in ops {
        let t: Vec<&str> = line.split_whitespace().collect();
        match t[0] {
            "case" => {
                out.begin_case(&t[2..].join(" "));
                sim = Sim::new(TX_PROPOSAL_WINDOW);
            }
            "cfg" => {
                let (c, f) = if t[1] == "default" { (TX_PROPOSAL_WINDOW.closest(), TX_PROPOSAL_WINDOW.farthest()) } else { (t[1].parse().unwrap(), t[2].parse().unwrap()) };
                sim = Sim::new(ProposalWindow(c, f));
                out.op(line, &format!("ok {c} {f}"));
            }
            "insert" => {
                let new = sim.table.insert(t[1].parse().unwrap(), to_set(&parse_ids(t[2])));
                out.op(line, if new { "new" } else { "replaced" });
            }
            "remove" => {
                let r = sim.table.remove(t[1].parse().unwrap());
                out.op(line, &match r {
                    Some(ids) => format!("some {}", show_ids(ids.iter())),
                    None => "none".into(),
                });
            }
            "finalize" => {
                let removed = sim.finalize(t[1].parse().unwrap());
                out.op(line, &sim.view_line(Some(&removed)));
            }
            "view-reset" => {
                sim.view = ProposalView::default();
                out.op(line, "ok");
            }
            "boot" => {
                let chain: Vec<Vec<u64>> = t[1..].iter().map(|s| parse_ids(s)).collect();
                assert!(!chain.is_empty(), "boot needs a genesis block");
                do_boot(out, &mut sim, chain);
            }
            "switch" => {
                let common: u64 = t[1].parse().unwrap();
                assert!((common as usize) < sim.chain.len(), "switch: common above tip");
                let bs: Vec<Vec<u64>> = t[2..].iter().map(|s| parse_ids(s)).collect();
                do_switch(out, &mut sim, common, &bs);
            }
            "restart" => do_restart(out, &mut sim),
            other => panic!("C20 replay: unknown op {other}"),
        }
    }
}

pub fn run(opts: &Opts) {
    let mut out = Out::new(&opts.out);
    if let Some(p) = &opts.replay {
        let ops = read_replay_ops(p);
        // cases recorded for the node-level streams (harness/hnode/src/c20.rs) are replayed there
        let text = std::fs::read_to_string(p).unwrap_or_default();
        let other_stream = text.lines().any(|l| l.starts_with("# property C20 stream ") && !l.starts_with("# property C20 stream table"));
        let node_level = ops.iter().any(|l| matches!(l.split(' ').next().unwrap_or(""), "nboot" | "nswitch" | "nrestart" | "verify" | "status" | "nswitchm" | "pool" | "ncommit"));
        if other_stream || node_level {
            out.finish("replay (a case recorded for a node-level stream)");
            return;
        }
        replay(&mut out, &ops);
        out.finish("replay");
        return;
    }
    let mut rng = Rng::new(opts.seed);
    let (hist, raw, hist_ops, xlen) = if opts.thorough() { (6000, 3000, 60, 5) } else { (600, 400, 40, 4) };
    let scale = opts.scale as usize;
    // the default window as generated for the model, once
    out.begin_case("default-window");
    let d = TX_PROPOSAL_WINDOW;
    out.op("cfg default", &format!("ok {} {}", d.closest(), d.farthest()));
    exhaustive(&mut out, 1, 2, xlen);
    exhaustive(&mut out, 2, 3, xlen);
    if opts.thorough() {
        exhaustive(&mut out, 2, 4, xlen - 1);
        exhaustive(&mut out, 1, 1, xlen - 1);
    }
    for _ in 0..hist * scale {
        history_case(&mut out, &mut rng, hist_ops);
    }
    for _ in 0..raw * scale {
        raw_case(&mut out, &mut rng, 30);
    }
    // excluded point of the theorems (a genesis block with proposal ids), recorded, not judged
    {
        let mut sim = Sim::new(TX_PROPOSAL_WINDOW);
        sim.chain = vec![vec![7], vec![1], vec![2]];
        sim.init();
        out.extra.insert(
            "genesis_with_proposals_point".into(),
            format!("init on chain [7],[1],[2] with the default window: set={} gap={} (the commit verifier stops at genesis and would not accept 7); no chain spec builds such a genesis", show_ids(sim.view.set().iter()), show_ids(sim.view.gap().iter())).into(),
        );
    }
    out.finish("history cases: contain a reorg of depth >= w_close, a chain longer than w_far+2, a restart and a move to a lower tip (distinct by window + op shape); exhaustive cases: contain a reorg of depth >= 2 (distinct by op sequence)");
}
