//! C14 — caches never change a verdict or an answer.
//!
//! Two real nodes are fed the same history, block by block:
//!   * `cold`: every `StoreConfig` cache size 0 (`SharedBuilder::store_config`), and the shared
//!     `TxVerificationCache` is emptied before every block → every transaction takes the full
//!     `ContextualTransactionVerifier` path and every store read goes to RocksDB;
//!   * `warm`: default cache sizes, verification cache kept across blocks and branches.
//! The history: transactions proposed and committed on one branch, then a heavier branch that
//! commits the *same* transactions at other positions (cache hits in `warm`), a transaction with a
//! relative `since` that is mature on one branch and immature at its position on the other (the
//! block must be refused by both, in `warm` through the cached path's re-evaluated
//! `TimeRelativeTransactionVerifier`), and a transaction with equal hash but different witnesses.
//!
//! Oracle (independent of the model): both nodes give the same verdict (and error class) for every
//! block, the same tip, the same `BlockExt.{txs_fees, cycles, verified}` for every block and the
//! same answer to a list of chain queries for every block hash / out-point seen.
//! Model tie (lean/CkbVerif/Driver/C14.lean): every block the warm node verifies is replayed on
//! the model's *cached* path (`blk` lines carry the transaction content measured on full
//! verifications); the warm node's fees/cycles/error class must equal the model's.
//!
//! F6 classification probes (counted, not oracle failures): the bare `get_cell_data` of a spent
//! cell, `get_block_header` / `block_exists` of a deleted invalid block, and the node-API
//! consequence (`HeaderVerifier` on a child of the deleted block).
//!
//! Round 3 — classes, not instances:
//!   * every delivery is preceded by the queries a peer / RPC client may issue for a block hash
//!     the node has not stored yet (negative answers must not stick) and followed by the content
//!     queries for the block and by liveness / guarded data / data-hash queries for every tracked
//!     out-point, through the store handle, a snapshot and a store transaction;
//!   * `kind=vc` cases (`run_vc_case`): a lock script whose verdict depends on the witness
//!     (`script/testdata/exec_caller_from_witness`: exec the program in witness 0) and a `since`
//!     (relative block number, or absolute timestamp against the median time). One tx hash under a
//!     passing and a failing witness set, on three branches; every consumer of the verification
//!     cache is probed on its hit path in a context where the cached transaction is immature
//!     (after a reorganisation to a branch with a lower number / median time) and, for the failing
//!     witnesses, in a context where it is mature: block verifier (extension and reorg attempt),
//!     `test_accept_tx`, `submit_local_tx`, `notify_txs` (verify-queue worker);
//!   * `kind=store` cases (`run_store_case`): the store alone. One RocksDB, three `ChainDB`s on
//!     it (warm: default / size-1 / size-2 caches, all writes go through it; cold: size 0; fresh:
//!     re-created before every round) and the answer recomputed from the raw rows. After every
//!     insert / attach / detach / delete / rolled-back attach, every accessor is asked for every
//!     block hash and out-point of the case — including those not stored yet — through the
//!     handle, a snapshot and a transaction. Excluded (F6): content reads of a hash between its
//!     `delete_block` and its re-insertion, bare data reads of a dead cell.
//!
//! Replay: a case is regenerated from its `case <n> seed=<s> [kind=pool|vc|store] [var=…]` line.
use crate::common::*;
use crate::node::*;
use ckb_app_config::{BlockAssemblerConfig, NetworkConfig, StoreConfig, TxPoolConfig};
use ckb_network::{Flags, NetworkController, NetworkService, NetworkState, network::TransportType};
use ckb_chain::ChainServiceScope;
use ckb_chain_spec::consensus::Consensus;
use ckb_jsonrpc_types::ScriptHashType;
use ckb_shared::{Shared, SharedBuilder};
use ckb_store::{ChainDB, ChainStore, attach_block_cell, detach_block_cell};
use ckb_db::RocksDB;
use ckb_db_schema::{COLUMNS, COLUMN_BLOCK_BODY, COLUMN_BLOCK_EXTENSION, COLUMN_BLOCK_HEADER, COLUMN_BLOCK_PROPOSAL_IDS, COLUMN_BLOCK_UNCLE, COLUMN_CELL, COLUMN_CELL_DATA, COLUMN_CELL_DATA_HASH};
use ckb_types::core::cell::{CellChecker, CellProvider, CellStatus};
use ckb_types::core::hardfork::CKB2021;
use ckb_types::core::BlockExt;
use ckb_types::packed::{CellDep, Script};
use std::collections::HashSet;
use ckb_test_chain_utils::always_success_cell;
use ckb_types::core::{BlockView, Capacity, TransactionBuilder, TransactionView};
use ckb_types::packed::{Byte32, CellInput, CellOutput, OutPoint};
use ckb_types::prelude::*;
use ckb_types::{bytes::Bytes, h256};
use ckb_verification::HeaderVerifier;
use ckb_verification_traits::Verifier;
use std::collections::HashMap;
use std::path::Path;
use std::sync::Arc;

struct N {
    shared: Shared,
    chain: Option<ChainServiceScope>,
    _network: Option<NetworkController>,
}

fn dummy_network(shared: &Shared, dir: &Path) -> NetworkController {
    let config = NetworkConfig {
        max_peers: 19,
        max_outbound_peers: 5,
        path: dir.join("network"),
        ping_interval_secs: 15,
        ping_timeout_secs: 20,
        connect_outbound_interval_secs: 1,
        discovery_local_address: true,
        bootnode_mode: true,
        reuse_port_on_linux: true,
        ..Default::default()
    };
    let network_state = Arc::new(NetworkState::from_config(config).expect("Init network state failed"));
    NetworkService::new(network_state, vec![], vec![], (shared.consensus().identify_name(), "test".to_string(), Flags::COMPATIBILITY), TransportType::Tcp)
        .start(shared.async_handle())
        .expect("Start network service failed")
}

fn start(dir: &Path, consensus: Consensus, store: StoreConfig) -> N {
    start_with(dir, consensus, store, None)
}

fn start_with(dir: &Path, consensus: Consensus, store: StoreConfig, pool: Option<TxPoolConfig>) -> N {
    std::fs::create_dir_all(dir.join("header_map")).unwrap();
    let db_config = ckb_app_config::DBConfig { path: dir.join("db"), ..Default::default() };
    let builder = SharedBuilder::new("verif", dir, &db_config, None, runtime_handle(), consensus)
        .unwrap_or_else(|e| panic!("SharedBuilder::new failed: {e:?}"))
        .header_map_tmp_dir(Some(dir.join("header_map")))
        .store_config(store);
    let builder = match &pool {
        Some(tp) => builder.tx_pool_config(tp.clone()),
        None => builder,
    };
    let ba = BlockAssemblerConfig {
        code_hash: h256!("0x0"),
        args: Default::default(),
        hash_type: ScriptHashType::Data,
        message: Default::default(),
        use_binary_version_as_message_prefix: false,
        binary_version: "TEST".to_string(),
        update_interval_millis: 800,
        notify: vec![],
        notify_scripts: vec![],
        notify_timeout_millis: 800,
    };
    let (shared, mut pack) = builder.block_assembler_config(Some(ba)).build().unwrap_or_else(|e| panic!("SharedBuilder::build failed: {e:?}"));
    let network = if pool.is_some() {
        let n = dummy_network(&shared, dir);
        pack.take_tx_pool_builder().start(n.clone());
        Some(n)
    } else {
        None
    };
    let chain = ChainServiceScope::new(pack.take_chain_services_builder());
    N { shared, chain: Some(chain), _network: network }
}

impl N {
    fn process(&self, b: &BlockView) -> Result<bool, String> {
        self.chain.as_ref().unwrap().chain_controller().blocking_process_block(Arc::new(b.clone())).map_err(|e| format!("{:?}", e))
    }
    fn clear_vcache(&self) {
        let c = self.shared.txs_verify_cache();
        c.blocking_write().clear();
    }
    /// `BlockTxsVerifier::update_cache` and the pool's cache update are spawned tasks: wait until
    /// the verification cache has stopped changing (and, when `expect` is set, is not empty), so
    /// that "emptied before every block" and "kept" mean what they say
    fn settle(&self, expect: bool) {
        let mut last = self.vcache_len();
        let mut stable = 0;
        for _ in 0..200 {
            std::thread::sleep(std::time::Duration::from_millis(2));
            let n = self.vcache_len();
            if n == last && (!expect || n > 0) {
                stable += 1;
                if stable >= 3 {
                    return;
                }
            } else {
                stable = 0;
                last = n;
            }
        }
    }
    fn vcache_len(&self) -> usize {
        let c = self.shared.txs_verify_cache();
        let n = c.blocking_read().len();
        n
    }
}

fn classify(d: &str) -> &'static str {
    for (p, c) in [
        ("Immature", "timerel"),
        ("CellbaseImmaturity", "timerel"),
        ("InvalidSince", "timerel"),
        ("ExceededMaximumCycles", "cycles"),
        ("ValidationFailure", "script"),
        ("kind: Script", "script"),
        ("Commit(", "commit"),
        ("InvalidDAO", "dao"),
        ("kind: OutPoint", "resolve"),
        ("UnknownParent", "badparent"),
        ("InvalidParent", "badparent"),
        ("is invalid, so block", "badparent"),
        ("previously verified failed", "badparent"),
    ] {
        if d.contains(p) {
            return c;
        }
    }
    "other"
}

/// always-success spend with an explicit `since` on every input and optional extra witness bytes
fn spend(inputs: &[(OutPoint, u64)], since: u64, fee: u64, salt: u64, witness: Option<Vec<u8>>) -> TransactionView {
    let (_, _, script) = always_success_cell();
    let total: u64 = inputs.iter().map(|(_, c)| *c).sum();
    let mut b = TransactionBuilder::default().cell_dep(always_success_dep());
    for (op, _) in inputs {
        b = b.input(CellInput::new(op.clone(), since));
    }
    b = b
        .output(CellOutput::new_builder().capacity(Capacity::shannons(total - fee)).lock(script.clone()).build())
        .output_data(Bytes::from(salt.to_le_bytes().to_vec()));
    if let Some(w) = witness {
        b = b.witness(Bytes::from(w).pack());
    }
    b.build()
}

const REL_BLOCKS: u64 = 0x8000_0000_0000_0000;

struct Ctx<'a> {
    out: &'a mut Out,
    cold: N,
    warm: N,
    ids: HashMap<Byte32, u64>,
    /// content of every transaction by witness hash: (fee, cycles)
    content: HashMap<Byte32, (u64, u64)>,
    blocks: Vec<BlockView>,
    /// delivered, stored, not (yet) verified
    side: Vec<BlockView>,
    cyc: u64,
    /// witness hashes whose script fails (`x` on the model line)
    bad: HashSet<Byte32>,
    /// out-points whose liveness / data is compared after every delivery
    cells: Vec<OutPoint>,
    /// a verdict or tip difference was reported: the two nodes are on different histories
    diverged: bool,
    /// blocks the chain service verifies with `Switch::DISABLE_SCRIPT` (assume-valid window): `blks` lines
    skip_blocks: HashSet<Byte32>,
    /// assume-valid blocks committing transactions the warm node holds entries for: `BlockExt.cycles`
    /// is cache-dependent there (finding candidate, counted); the cycles column is left out for them
    ext_cycles_excluded: HashSet<Byte32>,
}

impl Ctx<'_> {
    fn wid(&mut self, h: &Byte32) -> u64 {
        let n = self.ids.len() as u64 + 1;
        *self.ids.entry(h.clone()).or_insert(n)
    }

    /// deliver one block to both nodes; `immature` = witness hashes whose time-relative check fails here
    fn deliver(&mut self, b: &BlockView, immature: &[Byte32], label: &str) {
        // what a peer / an RPC client may ask about a hash the node does not know yet
        if !self.blocks.iter().any(|x| x.hash() == b.hash()) {
            self.compare_block_content(b, "before-delivery");
        }
        self.cold.settle(false);
        self.cold.clear_vcache();
        let tip_before = self.warm.shared.snapshot().tip_hash();
        let rc = self.cold.process(b);
        let rw = self.warm.process(b);
        // a block that became the tip was verified: its results are on their way into the cache
        let has_txs = b.transactions().len() > 1;
        self.cold.settle(has_txs && rc.is_ok() && self.cold.shared.snapshot().tip_hash() == b.hash());
        self.warm.settle(has_txs && rw.is_ok() && self.warm.shared.snapshot().tip_hash() == b.hash());
        self.blocks.push(b.clone());
        let canon = |r: &Result<bool, String>| match r {
            Ok(true) => "ok".to_string(),
            Ok(false) => "known".to_string(),
            Err(d) => format!("err {}", classify(d)),
        };
        let (vc, vw) = (canon(&rc), canon(&rw));
        self.out.count(&format!("{}:{}", label, vw));
        if vc != vw {
            self.out.oracle_fail("verdict-differs", &format!("{} block {}: cold={} warm={} ({:?} / {:?})", label, b.number(), vc, vw, rc, rw));
            self.diverged = true;
        }
        let (tc, tw) = (self.cold.shared.snapshot().tip_hash(), self.warm.shared.snapshot().tip_hash());
        if tc != tw {
            self.out.oracle_fail("tip-differs", &format!("{} block {}", label, b.number()));
            self.diverged = true;
        }
        if !self.diverged {
            self.compare_block_content(b, "after-delivery");
            self.compare_cells(label);
        }
        // model tie: the blocks the warm node verified in this call, in order
        let store = self.warm.shared.store();
        if rw.is_ok() && tw == b.hash() && tip_before != tw {
            // newly attached blocks: walk back from the new tip to the old main chain
            let mut path = vec![];
            let mut h = b.hash();
            loop {
                let blk = store.get_block(&h).expect("attached block");
                let ext = store.get_block_ext(&h).expect("ext");
                if blk.number() == 0 || ext.verified != Some(true) || self.verified_before(&h) {
                    break;
                }
                path.push((blk.clone(), ext));
                if blk.number() == 0 {
                    break;
                }
                h = blk.parent_hash();
            }
            path.reverse();
            for (blk, ext) in path {
                self.learn_content(&blk);
                self.mark_verified(&blk.hash());
                let line = self.blk_line(&blk, &[]);
                let fees: Vec<u64> = ext.txs_fees.iter().map(|c| c.as_u64()).collect();
                let cycles: Vec<u64> = ext.cycles.clone().unwrap_or_default();
                let f = |v: &[u64]| if v.is_empty() { "-".to_string() } else { v.iter().map(|x| x.to_string()).collect::<Vec<_>>().join(",") };
                let kw = if self.skip_blocks.contains(&blk.hash()) { "blks" } else { "blk" };
                self.out.op(&format!("{} {}", kw, line), &format!("ok fees={} cycles={}", f(&fees), f(&cycles)));
            }
        } else if rw.is_ok() && tw != b.hash() {
            self.side.push(b.clone());
        } else if let Err(d) = &rw {
            let c = classify(d);
            if c == "timerel" || c == "cycles" || c == "script" {
                // the attempt verified the stored, unverified ancestors first (results dropped with
                // the DB transaction, verification-cache entries kept)
                let mut anc = vec![];
                let mut p = b.parent_hash();
                while let Some(x) = self.side.iter().find(|x| x.hash() == p) {
                    anc.push(x.clone());
                    p = x.parent_hash();
                }
                anc.reverse();
                for x in anc {
                    self.learn_content(&x);
                    let l = self.blk_line(&x, &[]);
                    self.out.op(&format!("warm {}", l), "ok");
                }
                let line = self.blk_line(b, immature);
                self.out.op(&format!("blk {}", line), &format!("err {}", c));
            }
        }
    }

    fn verified_before(&self, h: &Byte32) -> bool {
        self.ids.contains_key(&mark_key(h))
    }
    fn mark_verified(&mut self, h: &Byte32) {
        let k = mark_key(h);
        let n = self.ids.len() as u64 + 1;
        self.ids.insert(k, n);
    }

    fn blk_line(&mut self, b: &BlockView, immature: &[Byte32]) -> String {
        let txs: Vec<String> = b
            .transactions()
            .iter()
            .skip(1)
            .map(|t| {
                let w = t.witness_hash();
                let (fee, cyc) = *self.content.get(&w).expect("content known");
                let cyc = if self.bad.contains(&w) { "x".to_string() } else { cyc.to_string() };
                format!("{}:{}:1:{}:{}", self.wid(&w), if immature.contains(&w) { 0 } else { 1 }, cyc, fee)
            })
            .collect();
        if txs.is_empty() { "-".to_string() } else { txs.join(";") }
    }

    /// fees / cycles of transactions first seen in a block: read from the cold node's ext, i.e.
    /// measured by a full verification (the cold node never takes the cached path)
    fn learn_content(&mut self, blk: &BlockView) {
        let missing = blk.transactions().iter().skip(1).any(|t| !self.content.contains_key(&t.witness_hash()));
        if !missing {
            return;
        }
        if let Some(ext) = self.cold.shared.store().get_block_ext(&blk.hash()) {
            if let (fees, Some(cycles)) = (ext.txs_fees, ext.cycles) {
                for (i, t) in blk.transactions().iter().skip(1).enumerate() {
                    if let (Some(f), Some(c)) = (fees.get(i), cycles.get(i)) {
                        self.content.entry(t.witness_hash()).or_insert((f.as_u64(), *c));
                    }
                }
            }
        }
    }

    /// the content accessors of one block hash on both nodes. Before the delivery the hash is
    /// unknown to both; after it, it is stored on both or (refused and deleted — F6) skipped.
    fn compare_block_content(&mut self, b: &BlockView, when: &str) {
        let h = b.hash();
        let (cs, ws) = (self.cold.shared.store(), self.warm.shared.store());
        // the uncached header row decides whether the hash is stored (both nodes must agree)
        let (pc, pw) = (cs.get_packed_block_header(&h).is_some(), ws.get_packed_block_header(&h).is_some());
        if pc != pw {
            self.out.oracle_fail("query-answer-differs", &format!("header row of block {} {}: cold={} warm={}", b.number(), when, pc, pw));
            return;
        }
        if when == "after-delivery" && !pc {
            return; // refused and deleted: bare reads of a deleted key are excluded (F6)
        }
        let mut n = 0u64;
        let mut diffs = vec![];
        for (name, f) in block_accessors() {
            let (a, w) = (f(cs, &h), f(ws, &h));
            n += 1;
            let want = if pc { block_expected(name, b) } else { Some(block_absent(name)) };
            if a != w || want.as_ref().is_some_and(|x| *x != w) {
                diffs.push(format!("{} of block {} {}: cold={} warm={} from-rows={:?}", name, b.number(), when, short(&a), short(&w), want.as_ref().map(|x| short(x))));
            }
        }
        self.out.evaluations += n;
        *self.out.hist.entry(format!("queries-{}", when)).or_insert(0) += n;
        for d in diffs {
            self.out.oracle_fail("query-answer-differs", &d);
        }
    }

    /// liveness and guarded data of every tracked out-point, through the three store views
    fn compare_cells(&mut self, label: &str) {
        let (cs, ws) = (self.cold.shared.store(), self.warm.shared.store());
        let mut n = 0u64;
        let mut diffs = vec![];
        for op in &self.cells {
            let a = cell_answers(cs, op);
            let w = cell_answers(ws, op);
            n += a.len() as u64;
            if a != w {
                diffs.push(format!("cell {:#x}:{} after {}: cold={:?} warm={:?}", op.tx_hash(), Unpack::<u32>::unpack(&op.index()), label, a, w));
            }
        }
        self.out.evaluations += n;
        *self.out.hist.entry("cell-queries-after-delivery".into()).or_insert(0) += n;
        for d in diffs {
            self.out.oracle_fail("query-answer-differs", &d);
        }
    }

    /// every query answered by both nodes identically
    fn compare_queries(&mut self, outpoints: &[OutPoint]) {
        let (cs, ws) = (self.cold.shared.store(), self.warm.shared.store());
        let mut n = 0u64;
        let mut diffs = vec![];
        for pass in 0..2 {
            for b in self.blocks.clone() {
                let h = b.hash();
                let on_main = cs.is_main_chain(&h);
                let stored = cs.get_block_ext(&h).is_some();
                macro_rules! q {
                    ($name:expr, $e:expr) => {{
                        let a = { let s = cs; $e(s) };
                        let w = { let s = ws; $e(s) };
                        n += 1;
                        if a != w {
                            diffs.push(format!("{} block {} pass {}", $name, b.number(), pass));
                        }
                    }};
                }
                q!("is_main_chain", |s: &ckb_store::ChainDB| format!("{:?}", s.is_main_chain(&h)));
                if self.ext_cycles_excluded.contains(&h) {
                    q!("get_block_ext", |s: &ckb_store::ChainDB| format!("{:?}", s.get_block_ext(&h).map(|e| (e.verified, e.txs_fees, e.total_difficulty, e.total_uncles_count))));
                } else {
                    q!("get_block_ext", |s: &ckb_store::ChainDB| format!("{:?}", s.get_block_ext(&h).map(|e| (e.verified, e.txs_fees, e.cycles, e.total_difficulty, e.total_uncles_count))));
                }
                q!("get_block_number", |s: &ckb_store::ChainDB| format!("{:?}", s.get_block_number(&h)));
                q!("get_block_hash", |s: &ckb_store::ChainDB| format!("{:?}", s.get_block_hash(b.number())));
                q!("get_block_epoch_index", |s: &ckb_store::ChainDB| format!("{:?}", s.get_block_epoch_index(&h)));
                // content reads are compared for stored blocks (the authoritative ext row guards them)
                if stored {
                    q!("get_block", |s: &ckb_store::ChainDB| format!("{:?}", s.get_block(&h).map(|x| x.data().as_slice().to_vec())));
                    q!("get_block_header", |s: &ckb_store::ChainDB| format!("{:?}", s.get_block_header(&h).map(|x| x.hash())));
                    q!("get_block_uncles", |s: &ckb_store::ChainDB| format!("{:?}", s.get_block_uncles(&h).map(|x| x.data().as_slice().to_vec())));
                    q!("get_block_proposal_txs_ids", |s: &ckb_store::ChainDB| format!("{:?}", s.get_block_proposal_txs_ids(&h).map(|x| x.as_slice().to_vec())));
                    q!("get_block_extension", |s: &ckb_store::ChainDB| format!("{:?}", s.get_block_extension(&h).map(|x| x.as_slice().to_vec())));
                    q!("get_block_txs_hashes", |s: &ckb_store::ChainDB| format!("{:?}", s.get_block_txs_hashes(&h)));
                }
                let _ = on_main;
                for t in b.transactions() {
                    let th = t.hash();
                    q!("get_transaction_info", |s: &ckb_store::ChainDB| format!("{:?}", s.get_transaction_info(&th).map(|i| (i.block_hash, i.block_number, i.index))));
                }
            }
            for op in outpoints {
                let a = (cs.have_cell(op), cs.get_cell(op).map(|m| (m.cell_output.as_slice().to_vec(), m.data_bytes)), if cs.have_cell(op) { cs.get_cell_data(op) } else { None });
                let w = (ws.have_cell(op), ws.get_cell(op).map(|m| (m.cell_output.as_slice().to_vec(), m.data_bytes)), if ws.have_cell(op) { ws.get_cell_data(op) } else { None });
                n += 3;
                if a != w {
                    diffs.push(format!("cell {:?} pass {}", op, pass));
                }
            }
        }
        self.out.evaluations += n;
        self.out.count("queries-compared-x1000+");
        *self.out.hist.entry("queries-compared".into()).or_insert(0) += n;
        for d in diffs {
            self.out.oracle_fail("query-answer-differs", &d);
        }
    }
}


// ------------------------------------------------------------------------------------------------
// canonical answers of the store accessors (shared by the node-level and the store-level cases)
// ------------------------------------------------------------------------------------------------

fn digest(bytes: &[u8]) -> String {
    let d = ckb_hash::blake2b_256(bytes);
    format!("{}:{}", bytes.len(), hex(&d[..6]))
}

fn short(s: &str) -> String {
    if s.len() > 60 { format!("{}…", &s[..60]) } else { s.to_string() }
}

fn opt(x: Option<String>) -> String {
    x.unwrap_or_else(|| "none".to_string())
}

fn canon_hashes(v: &[Byte32]) -> String {
    if v.is_empty() {
        return "none".to_string();
    }
    let mut all = vec![];
    for h in v {
        all.extend_from_slice(h.as_slice());
    }
    format!("{} {}", v.len(), digest(&all))
}

fn canon_block(b: &BlockView) -> String {
    format!("{} ext={}", digest(b.data().as_slice()), opt(b.extension().map(|e| digest(e.as_slice()))))
}

const BLOCK_ACCESSORS: [&str; 10] = [
    "get_block_header",
    "block_exists",
    "get_block_uncles",
    "get_block_proposal_txs_ids",
    "get_block_extension",
    "get_block_txs_hashes",
    "get_block",
    "get_packed_block",
    "get_block_body",
    "get_cellbase",
];

fn block_accessors() -> Vec<(&'static str, fn(&ChainDB, &Byte32) -> String)> {
    fn f0(s: &ChainDB, h: &Byte32) -> String { block_answer(s, 0, h) }
    fn f1(s: &ChainDB, h: &Byte32) -> String { block_answer(s, 1, h) }
    fn f2(s: &ChainDB, h: &Byte32) -> String { block_answer(s, 2, h) }
    fn f3(s: &ChainDB, h: &Byte32) -> String { block_answer(s, 3, h) }
    fn f4(s: &ChainDB, h: &Byte32) -> String { block_answer(s, 4, h) }
    fn f5(s: &ChainDB, h: &Byte32) -> String { block_answer(s, 5, h) }
    fn f6(s: &ChainDB, h: &Byte32) -> String { block_answer(s, 6, h) }
    fn f7(s: &ChainDB, h: &Byte32) -> String { block_answer(s, 7, h) }
    fn f8(s: &ChainDB, h: &Byte32) -> String { block_answer(s, 8, h) }
    fn f9(s: &ChainDB, h: &Byte32) -> String { block_answer(s, 9, h) }
    let fs: [fn(&ChainDB, &Byte32) -> String; 10] = [f0, f1, f2, f3, f4, f5, f6, f7, f8, f9];
    BLOCK_ACCESSORS.iter().cloned().zip(fs).collect()
}

/// accessor number `a` of `BLOCK_ACCESSORS` on any store view
fn block_answer<S: ChainStore>(s: &S, a: usize, h: &Byte32) -> String {
    match a {
        0 => opt(s.get_block_header(h).map(|x| digest(x.data().as_slice()))),
        1 => s.block_exists(h).to_string(),
        2 => opt(s.get_block_uncles(h).map(|x| digest(x.data().as_slice()))),
        3 => opt(s.get_block_proposal_txs_ids(h).map(|x| digest(x.as_slice()))),
        4 => opt(s.get_block_extension(h).map(|x| digest(x.as_slice()))),
        5 => canon_hashes(&s.get_block_txs_hashes(h)),
        6 => opt(s.get_block(h).map(|b| canon_block(&b))),
        7 => opt(s.get_packed_block(h).map(|b| digest(b.as_slice()))),
        8 => canon_hashes(&s.get_block_body(h).iter().map(|t| t.hash()).collect::<Vec<_>>()),
        9 => opt(s.get_cellbase(h).map(|t| digest(t.hash().as_slice()))),
        _ => unreachable!(),
    }
}

/// the answer recomputed from the rows of a stored block: the rows are content-addressed, so it
/// is a function of the block the harness built under that hash
fn block_expected(name: &str, b: &BlockView) -> Option<String> {
    Some(match name {
        "get_block_header" => digest(b.header().data().as_slice()),
        "block_exists" => "true".to_string(),
        "get_block_uncles" => digest(b.uncles().data().as_slice()),
        "get_block_proposal_txs_ids" => digest(b.data().proposals().as_slice()),
        "get_block_extension" => opt(b.extension().map(|e| digest(e.as_slice()))),
        "get_block_txs_hashes" | "get_block_body" => canon_hashes(b.tx_hashes()),
        "get_block" => canon_block(b),
        "get_packed_block" => digest(b.data().as_slice()),
        "get_cellbase" => digest(b.transactions()[0].hash().as_slice()),
        _ => return None,
    })
}

fn block_absent(name: &str) -> String {
    if name == "block_exists" { "false".to_string() } else { "none".to_string() }
}

fn canon_data(x: Option<(Bytes, Byte32)>) -> String {
    opt(x.map(|(d, h)| format!("{} {}", digest(&d), hex(&h.as_slice()[..6]))))
}

/// liveness, meta and *guarded* data of one out-point through the handle, a snapshot and a
/// store transaction (the three `ChainStore` views that share the read caches)
fn cell_answers(s: &ChainDB, op: &OutPoint) -> Vec<String> {
    let snap = s.get_snapshot();
    let txn = s.begin_transaction();
    let status = |st: CellStatus| match st {
        CellStatus::Live(m) => format!("live {} {}", digest(m.cell_output.as_slice()), opt(m.mem_cell_data.as_ref().map(|d| digest(d)))),
        CellStatus::Dead => "dead".to_string(),
        CellStatus::Unknown => "unknown".to_string(),
    };
    vec![
        format!("have_cell={}", s.have_cell(op)),
        format!("snapshot.have_cell={}", snap.have_cell(op)),
        format!("txn.have_cell={}", txn.have_cell(op)),
        format!("txn.is_live={:?}", txn.is_live(op)),
        format!("txn.cell={}", status(txn.cell(op, true))),
        format!("get_cell={}", opt(s.get_cell(op).map(|m| format!("{} {}", digest(m.cell_output.as_slice()), m.data_bytes)))),
        format!("data={}", if s.have_cell(op) { canon_data(s.get_cell_data(op)) } else { "none".into() }),
        format!("snapshot.data_hash={}", if snap.have_cell(op) { opt(snap.get_cell_data_hash(op).map(|h| hex(&h.as_slice()[..6]))) } else { "none".into() }),
        format!("txn.data_hash={}", if txn.have_cell(op) { opt(txn.get_cell_data_hash(op).map(|h| hex(&h.as_slice()[..6]))) } else { "none".into() }),
    ]
}

fn out_cap(t: &TransactionView) -> u64 {
    let c: u64 = t.outputs().get(0).unwrap().capacity().unpack();
    c
}

fn mark_key(h: &Byte32) -> Byte32 {
    let mut raw = h.raw_data().to_vec();
    raw[0] ^= 0xff;
    raw[31] ^= 0xff;
    Byte32::from_slice(&raw).unwrap()
}

fn measure_cycles(base: &Path) -> u64 {
    let cfg = NodeCfg { epoch_len: 10, window: (1, 3), genesis_cells: 2, ..Default::default() };
    let consensus = make_consensus(&cfg);
    let node = Node::start(&base.join("probe-node"), consensus.clone(), &cfg);
    let mut b = ChainBuilder::new(consensus.clone(), &base.join("probe-builder"));
    let cells = genesis_cells(&consensus);
    let tx = spend_tx(&cells[0..1], 1, 100, 1);
    let b1 = b.build(&consensus.genesis_hash(), &BlockSpec { proposals: vec![tx.proposal_short_id()], salt: 1, ..Default::default() });
    let b2 = b.build(&b1.hash(), &BlockSpec { txs: vec![tx.clone()], salt: 2, ..Default::default() });
    node.process(&b1).expect("probe b1");
    node.process(&b2).expect("probe b2");
    let cyc = node.store().get_block_ext(&b2.hash()).expect("ext").cycles.expect("cycles")[0];
    node.stop();
    cyc
}

fn run_case(out: &mut Out, seed: u64, base: &Path, cyc: u64) {
    let mut rng = Rng::new(seed);
    out.begin_case(&format!("seed={}", seed));
    let wclose = rng.range(1, 2);
    let cfg = NodeCfg { epoch_len: rng.range(5, 9), window: (wclose, wclose + rng.range(8, 10)), genesis_cells: 8, ..Default::default() };
    let consensus = make_consensus(&cfg);
    let dir = base.join(format!("case-{}", seed));
    let _ = std::fs::remove_dir_all(&dir);
    let zero = StoreConfig { header_cache_size: 0, cell_data_cache_size: 0, block_proposals_cache_size: 0, block_tx_hashes_cache_size: 0, block_uncles_cache_size: 0, block_extensions_cache_size: 0, freezer_enable: false };
    let default_warm = rng.chance(1, 2);
    let warm_kind = if default_warm { "default-caches" } else { "size-1-caches" };
    let small = if default_warm {
        StoreConfig::default()
    } else {
        // size-1 caches: constant eviction
        StoreConfig { header_cache_size: 1, cell_data_cache_size: 1, block_proposals_cache_size: 1, block_tx_hashes_cache_size: 1, block_uncles_cache_size: 1, block_extensions_cache_size: 1, freezer_enable: false }
    };
    let cold = start(&dir.join("cold"), consensus.clone(), zero);
    let warm = start(&dir.join("warm"), consensus.clone(), small);
    let mut bld = ChainBuilder::new(consensus.clone(), &dir.join("builder"));
    let cells = genesis_cells(&consensus);
    let mut c = Ctx { out, cold, warm, ids: HashMap::new(), content: HashMap::new(), blocks: vec![], side: vec![], cyc, bad: HashSet::new(), cells: vec![], diverged: false, skip_blocks: HashSet::new(), ext_cycles_excluded: HashSet::new() };
    c.out.op(&format!("max {}", consensus.max_block_cycles()), "ok");
    // what an RPC `get_live_cell(with_data)` does while the cell is live: fills the cell-data cache
    for n in [&c.cold, &c.warm] {
        let st = n.shared.store();
        assert!(st.have_cell(&cells[0].0) && st.get_cell_data(&cells[0].0).is_some() && st.get_cell_data_hash(&cells[0].0).is_some());
    }

    // transactions: A plain; A2 = A with another witness (same hash); S spends A's output with a
    // relative since of `rel` blocks; B plain (second cell)
    let rel = rng.range(2, 3);
    let fee_a = 1000 + rng.below(500);
    let a = spend(&cells[0..1], 0, fee_a, 1, None);
    let a2 = spend(&cells[0..1], 0, fee_a, 1, Some(vec![1, 2, 3, seed as u8]));
    assert_eq!(a.hash(), a2.hash());
    assert_ne!(a.witness_hash(), a2.witness_hash());
    let a_cap: u64 = a.outputs().get(0).unwrap().capacity().unpack();
    let s = spend(&[(OutPoint::new(a.hash(), 0), a_cap)], REL_BLOCKS | rel, 700 + rng.below(300), 2, None);
    let b_tx = spend(&cells[1..2], 0, 2000 + rng.below(100), 3, None);
    for (t, fee) in [(&a, fee_a), (&a2, fee_a), (&s, a_cap - out_cap(&s)), (&b_tx, cells[1].1 - out_cap(&b_tx))] {
        c.content.insert(t.witness_hash(), (fee, cyc * t.inputs().len() as u64));
    }
    c.cells = cells.iter().map(|x| x.0.clone()).collect();
    for t in [&a, &s, &b_tx] {
        c.cells.push(OutPoint::new(t.hash(), 0));
    }
    let props = vec![a.proposal_short_id(), s.proposal_short_id(), b_tx.proposal_short_id()];
    let g = consensus.genesis_hash();
    // ---- common prefix: 1 (proposes everything), 2 .. fork
    let mut tip = g.clone();
    let mut salt = seed * 1000;
    let mut next = |tip: &Byte32, bld: &mut ChainBuilder, txs: Vec<TransactionView>, props: Vec<ckb_types::packed::ProposalShortId>| {
        salt += 1;
        bld.build(tip, &BlockSpec { txs, proposals: props, salt, ..Default::default() })
    };
    let b1 = next(&tip, &mut bld, vec![], props.clone());
    c.deliver(&b1, &[], "prefix");
    tip = b1.hash();
    let fork_at = 1 + wclose; // first height at which a commit is allowed
    for _ in 2..fork_at {
        let b = next(&tip, &mut bld, vec![], vec![]);
        c.deliver(&b, &[], "prefix");
        tip = b.hash();
    }
    let fork = tip.clone();
    // ---- branch 1: A (variant by seed) at fork_at, B next, S at fork_at + rel (mature)
    let first_a = if rng.chance(1, 2) { a.clone() } else { a2.clone() };
    let mut t1 = fork.clone();
    let mut h = fork_at;
    let b = next(&t1, &mut bld, vec![first_a.clone()], vec![]);
    c.deliver(&b, &[], "branch1:A");
    t1 = b.hash();
    h += 1;
    let b = next(&t1, &mut bld, vec![b_tx.clone()], vec![]);
    c.deliver(&b, &[], "branch1:B");
    t1 = b.hash();
    h += 1;
    while h < fork_at + rel {
        let b = next(&t1, &mut bld, vec![], vec![]);
        c.deliver(&b, &[], "branch1:empty");
        t1 = b.hash();
        h += 1;
    }
    // S one block too early on a sibling (immature) — refused; then S exactly mature
    {
        // (only meaningful when there is an earlier slot: build S at the parent's height instead)
    }
    let b = next(&t1, &mut bld, vec![s.clone()], vec![]);
    c.deliver(&b, &[], "branch1:S-mature");
    t1 = b.hash();
    let len1 = h;
    // ---- branch 2 (stored first, then heavier): B and A swapped, A possibly the other witness variant
    let second_a = if rng.chance(1, 2) { a.clone() } else { a2.clone() };
    let mut t2 = fork.clone();
    let mut h2 = fork_at;
    let b = next(&t2, &mut bld, vec![b_tx.clone()], vec![]);
    c.deliver(&b, &[], "branch2:B");
    t2 = b.hash();
    h2 += 1;
    let b = next(&t2, &mut bld, vec![], vec![]);
    c.deliver(&b, &[], "branch2:empty");
    t2 = b.hash();
    h2 += 1;
    let b = next(&t2, &mut bld, vec![second_a.clone()], vec![]);
    let a_height2 = h2;
    c.deliver(&b, &[], "branch2:A");
    t2 = b.hash();
    h2 += 1;
    while h2 < a_height2 + rel - 1 {
        let b = next(&t2, &mut bld, vec![], vec![]);
        c.deliver(&b, &[], "branch2:empty");
        t2 = b.hash();
        h2 += 1;
    }
    // S one block before its maturity on branch 2, on the block that makes branch 2 the heaviest:
    // the whole attempt must be refused by both nodes (warm: through the cached path)
    {
        let bad = next(&t2, &mut bld, vec![s.clone()], vec![]);
        let heavier = bad.number() > len1;
        c.deliver(&bad, &[s.witness_hash()], if heavier { "branch2:S-immature-heaviest" } else { "branch2:S-immature-side" });
    }
    // continue branch 2 without S until mature, then S, until it is the heaviest
    while h2 < a_height2 + rel {
        let b = next(&t2, &mut bld, vec![], vec![]);
        c.deliver(&b, &[], "branch2:empty");
        t2 = b.hash();
        h2 += 1;
    }
    let b = next(&t2, &mut bld, vec![s.clone()], vec![]);
    c.deliver(&b, &[], "branch2:S-mature");
    t2 = b.hash();
    h2 += 1;
    while h2 <= len1 + 1 {
        let b = next(&t2, &mut bld, vec![], vec![]);
        c.deliver(&b, &[], "branch2:extend");
        t2 = b.hash();
        h2 += 1;
    }
    // ---- an invalid block on the tip (dao), then its child: F6 probes
    salt += 1;
    let bad = bld.build(&t2, &BlockSpec { salt, tweak: Tweak::Dao, ..Default::default() });
    c.deliver(&bad, &[], "invalid:dao");
    salt += 1;
    let child = bld.build(&bad.hash(), &BlockSpec { salt, ..Default::default() });
    {
        let hv = |n: &N| {
            let g = n.shared.snapshot();
            let snap: &ckb_snapshot::Snapshot = &g;
            match std::panic::catch_unwind(std::panic::AssertUnwindSafe(|| HeaderVerifier::new(snap, &consensus).verify(&child.header()).map_err(|e| format!("{:?}", e)))) {
                Ok(r) => r,
                Err(_) => Err("PANIC".to_string()),
            }
        };
        let (rc, rw) = (hv(&c.cold), hv(&c.warm));
        let show = |r: &Result<(), String>| match r {
            Ok(()) => "passes",
            Err(d) if d == "PANIC" => "PANICS",
            Err(_) => "unknown-parent",
        };
        c.out.count(&format!("F6:header-verifier-on-child-of-deleted:cold={},warm({})={}", show(&rc), warm_kind, show(&rw)));
        let (hc, hw) = (c.cold.shared.store().get_block_header(&bad.hash()).is_some(), c.warm.shared.store().get_block_header(&bad.hash()).is_some());
        c.out.count(&format!("F6:bare-get_block_header-of-deleted:cold={},warm={}", hc, hw));
        // through the pipeline both refuse the child
        let (pc, pw) = (
            if rc.is_ok() { c.cold.process(&child).is_ok() } else { false },
            if rw.is_ok() { c.warm.process(&child).is_ok() } else { false },
        );
        if pc || pw {
            c.out.oracle_fail("child-of-invalid-accepted", &format!("cold={} warm={}", pc, pw));
        }
        // spent cell: bare accessor vs guarded
        let spent = cells[0].0.clone();
        let (dc, dw) = (c.cold.shared.store().get_cell_data(&spent).is_some(), c.warm.shared.store().get_cell_data(&spent).is_some());
        c.out.count(&format!("F6:bare-get_cell_data-of-spent:cold={},warm={}", dc, dw));
    }
    // ---- switch back: branch 1 grows past branch 2 — branch 2 is detached, the already verified
    // blocks of branch 1 are attached again (no verification), every cell changes hands once more
    {
        let target = c.warm.shared.snapshot().tip_header().number() + 1;
        let mut hh = len1;
        while hh < target {
            salt += 1;
            let b = bld.build(&t1, &BlockSpec { salt, ..Default::default() });
            c.deliver(&b, &[], "switch-back");
            t1 = b.hash();
            hh += 1;
        }
        if c.warm.shared.snapshot().tip_hash() != t1 {
            c.out.oracle_fail("setup", "branch 1 did not become the main chain again");
        }
    }
    let mut ops: Vec<OutPoint> = cells.iter().map(|x| x.0.clone()).collect();
    for t in [&a, &s, &b_tx] {
        ops.push(OutPoint::new(t.hash(), 0));
    }
    c.compare_queries(&ops);
    let vl = c.warm.vcache_len();
    c.out.count(&format!("warm-vcache-entries={}", vl));
    let fp = format!("{:?}|{}|{}|{:?}", cfg.window, cfg.epoch_len, rel, (first_a.witness_hash() == a.witness_hash(), second_a.witness_hash() == a.witness_hash()));
    c.out.nontrivial(fp);
    let Ctx { cold, warm, .. } = c;
    drop(cold.chain);
    drop(warm.chain);
    drop(cold.shared);
    drop(warm.shared);
    drop(bld);
    let _ = std::fs::remove_dir_all(&dir);
}

/// kind=cyc: the block cycle limit at its boundary and the verification switch.
/// `max_block_cycles` is lowered to L ∈ {2c-1, 2c, 2c+1, 3c-1, 3c} (c = cycles of one always-success
/// input; n = L / c transactions fit). Branch 1 commits 2n transactions in two blocks (the warm
/// node's cache now holds all of them). Branch 2: a block with n + 1 of them, on the block that makes
/// the branch the heaviest, must be refused (ExceededMaximumCycles) by both nodes — the warm node
/// takes the hit path for every one of them, so the sum must count hits; then a block with exactly n
/// (sum = n·c ≤ L, = L when L = n·c) must be accepted. Assume-valid window (the nodes'
/// `assume_valid_targets` set to a block two ahead, `chain/src/verify.rs verify_block`): a block
/// commits a never-seen transaction Q with scripts skipped (cycles 0, nothing cached), the target is
/// reached, and a heavier branch commits Q again under full verification: both nodes must record Q's
/// real cycles (F32 class). Last, an assume-valid block commits transactions the warm node holds
/// entries for: the recorded cycles must be zero on both nodes (F34, repaired by /repo 6d79679;
/// oracle class `assume-valid-cycles-depend-on-cache`, and the block's ext row is compared in full).
fn run_cyc_case(out: &mut Out, seed: u64, base: &Path, cyc: u64) {
    let mut rng = Rng::new(seed ^ 0xC1C1E);
    let limits = [2 * cyc - 1, 2 * cyc, 2 * cyc + 1, 3 * cyc - 1, 3 * cyc];
    let limit = limits[(seed % 5) as usize];
    let n_fit = (limit / cyc) as usize;
    out.begin_case(&format!("seed={} kind=cyc", seed));
    let cfg = NodeCfg { epoch_len: rng.range(12, 16), window: (2, 10), genesis_cells: 8, ..Default::default() };
    let mut consensus = make_consensus(&cfg);
    consensus.max_block_cycles = limit;
    let dir = base.join(format!("cyc-{}", seed));
    let _ = std::fs::remove_dir_all(&dir);
    let zero = StoreConfig { header_cache_size: 0, cell_data_cache_size: 0, block_proposals_cache_size: 0, block_tx_hashes_cache_size: 0, block_uncles_cache_size: 0, block_extensions_cache_size: 0, freezer_enable: false };
    let cold = start(&dir.join("cold"), consensus.clone(), zero);
    let warm = start(&dir.join("warm"), consensus.clone(), StoreConfig::default());
    let mut bld = ChainBuilder::new(consensus.clone(), &dir.join("builder"));
    let cells = genesis_cells(&consensus);
    let mut c = Ctx { out, cold, warm, ids: HashMap::new(), content: HashMap::new(), blocks: vec![], side: vec![], cyc, bad: HashSet::new(), cells: vec![], diverged: false, skip_blocks: HashSet::new(), ext_cycles_excluded: HashSet::new() };
    c.out.op(&format!("max {}", limit), "ok");
    let ps: Vec<TransactionView> = (0..2 * n_fit).map(|i| spend(&cells[i..i + 1], 0, 1000 + rng.below(400) + i as u64, 40 + i as u64, None)).collect();
    let q = spend(&cells[7..8], 0, 900 + rng.below(90), 77, Some(vec![9, seed as u8]));
    for (i, t) in ps.iter().enumerate() {
        c.content.insert(t.witness_hash(), (cells[i].1 - out_cap(t), cyc));
    }
    c.content.insert(q.witness_hash(), (cells[7].1 - out_cap(&q), cyc));
    c.cells = cells.iter().map(|x| x.0.clone()).collect();
    let mut props: Vec<_> = ps.iter().map(|t| t.proposal_short_id()).collect();
    props.push(q.proposal_short_id());
    let g = consensus.genesis_hash();
    let mut salt = seed * 1000 + 900;
    let mut next = |tip: &Byte32, bld: &mut ChainBuilder, txs: Vec<TransactionView>, props: Vec<ckb_types::packed::ProposalShortId>| {
        salt += 1;
        bld.build(tip, &BlockSpec { txs, proposals: props, salt, ..Default::default() })
    };
    macro_rules! stop_if_diverged {
        () => {
            if c.diverged {
                c.out.count("cyc:stopped-after-divergence");
                let Ctx { cold, warm, .. } = c;
                drop(cold.chain);
                drop(warm.chain);
                drop(cold.shared);
                drop(warm.shared);
                drop(bld);
                let _ = std::fs::remove_dir_all(&dir);
                return;
            }
        };
    }
    let set_targets = |c: &Ctx, target: &BlockView| {
        for n in [&c.cold, &c.warm] {
            let h: ckb_types::H256 = target.hash().unpack();
            *n.shared.assume_valid_targets() = Some(vec![h]);
        }
    };
    let b1 = next(&g, &mut bld, vec![], props.clone());
    c.deliver(&b1, &[], "cyc:prefix");
    let b2 = next(&b1.hash(), &mut bld, vec![], vec![]);
    c.deliver(&b2, &[], "cyc:prefix");
    // ---- branch 1: all 2n transactions, n per block (sum = n·c ≤ L): verified one chunk at a time
    let c3 = next(&b2.hash(), &mut bld, ps[0..n_fit].to_vec(), vec![]);
    c.deliver(&c3, &[], "cyc:branch1-n-txs");
    let c4 = next(&c3.hash(), &mut bld, ps[n_fit..2 * n_fit].to_vec(), vec![]);
    c.deliver(&c4, &[], "cyc:branch1-n-txs");
    stop_if_diverged!();
    // ---- branch 2: two stored blocks, then n + 1 transactions on the block that makes it heaviest
    let e3 = next(&b2.hash(), &mut bld, vec![], vec![]);
    c.deliver(&e3, &[], "cyc:branch2-side");
    let e4 = next(&e3.hash(), &mut bld, vec![], vec![]);
    c.deliver(&e4, &[], "cyc:branch2-side");
    let x = next(&e4.hash(), &mut bld, ps[0..n_fit + 1].to_vec(), vec![]);
    c.deliver(&x, &[], &format!("cyc:n+1-txs-over-limit(L={}c{:+})", n_fit, limit as i64 - (n_fit as u64 * cyc) as i64));
    stop_if_diverged!();
    let y = next(&e4.hash(), &mut bld, ps[0..n_fit].to_vec(), vec![]);
    c.deliver(&y, &[], &format!("cyc:n-txs-within-limit(L={}c{:+})", n_fit, limit as i64 - (n_fit as u64 * cyc) as i64));
    stop_if_diverged!();
    if c.warm.shared.snapshot().tip_hash() != y.hash() {
        c.out.oracle_fail("cyc-setup", "branch 2 did not become the main chain");
    }
    // ---- assume-valid window 1: Q (never seen) committed with scripts skipped, then the target
    let z1 = next(&y.hash(), &mut bld, vec![q.clone()], vec![]);
    let z2 = next(&z1.hash(), &mut bld, vec![], vec![]);
    set_targets(&c, &z2);
    c.skip_blocks.insert(z1.hash());
    c.deliver(&z1, &[], "cyc:assume-valid-commit-Q-unseen");
    c.deliver(&z2, &[], "cyc:assume-valid-target");
    stop_if_diverged!();
    for n in [&c.cold, &c.warm] {
        if n.shared.assume_valid_targets().is_some() {
            c.out.oracle_fail("cyc-setup", "the assume-valid target was not reached");
        }
    }
    {
        let (ec, ew) = (c.cold.shared.store().get_block_ext(&z1.hash()).and_then(|e| e.cycles), c.warm.shared.store().get_block_ext(&z1.hash()).and_then(|e| e.cycles));
        c.out.count(&format!("cyc:assume-valid-unseen-tx:cold-cycles-zero={},warm-cycles-zero={}", ec == Some(vec![0]), ew == Some(vec![0])));
    }
    // ---- branch 3 from y: Q again, full verification, on the block that makes it the heaviest
    let f6 = next(&y.hash(), &mut bld, vec![], vec![]);
    c.deliver(&f6, &[], "cyc:branch3-side");
    let f7 = next(&f6.hash(), &mut bld, vec![], vec![]);
    c.deliver(&f7, &[], "cyc:branch3-side");
    let f8 = next(&f7.hash(), &mut bld, vec![q.clone()], vec![]);
    c.deliver(&f8, &[], "cyc:full-verification-of-Q-after-assume-valid");
    stop_if_diverged!();
    if c.warm.shared.snapshot().tip_hash() != f8.hash() {
        c.out.oracle_fail("cyc-setup", "branch 3 did not become the main chain");
    }
    {
        // the property, directly: Q's recorded cycles are the real ones on both nodes
        let (ec, ew) = (c.cold.shared.store().get_block_ext(&f8.hash()).and_then(|e| e.cycles), c.warm.shared.store().get_block_ext(&f8.hash()).and_then(|e| e.cycles));
        c.out.evaluations += 2;
        if ec != Some(vec![cyc]) || ew != Some(vec![cyc]) {
            c.out.oracle_fail("cycles-after-assume-valid", &format!("Q fully verified after an assume-valid block committed it: cold records {:?}, warm {:?}, a full script run costs {}", ec, ew, cyc));
        }
    }
    // ---- assume-valid window 2: transactions the warm node holds entries for (hit path with scripts skipped)
    let h1 = next(&f8.hash(), &mut bld, ps[n_fit..2 * n_fit].to_vec(), vec![]);
    let h2 = next(&h1.hash(), &mut bld, vec![], vec![]);
    set_targets(&c, &h2);
    c.skip_blocks.insert(h1.hash());
    c.deliver(&h1, &[], "cyc:assume-valid-commit-cached-txs");
    c.deliver(&h2, &[], "cyc:assume-valid-target");
    stop_if_diverged!();
    {
        // F34 (repaired by /repo 6d79679): the recorded cycles of an assume-valid block must not depend
        // on the verification cache — zero on both nodes, although the warm node holds the entries
        let (ec, ew) = (c.cold.shared.store().get_block_ext(&h1.hash()).and_then(|e| e.cycles), c.warm.shared.store().get_block_ext(&h1.hash()).and_then(|e| e.cycles));
        let z = |v: &Option<Vec<u64>>| match v { Some(v) if v.iter().all(|x| *x == 0) => "zero", Some(v) if v.iter().all(|x| *x == cyc) => "real", _ => "other" };
        c.out.count(&format!("cyc:assume-valid-block-of-cached-txs:BlockExt.cycles:cold={},warm={}", z(&ec), z(&ew)));
        c.out.evaluations += 2;
        if ec != ew || z(&ec) != "zero" {
            c.out.oracle_fail("assume-valid-cycles-depend-on-cache", &format!("a block verified with scripts skipped commits transactions the warm node holds entries for: BlockExt.cycles cold {:?}, warm {:?} (a miss records 0)", ec, ew));
        }
    }
    c.compare_queries(&cells.iter().map(|x| x.0.clone()).collect::<Vec<_>>());
    c.out.nontrivial(format!("cyc|{}|{}|{}", limit as i64 - (n_fit as u64 * cyc) as i64, n_fit, cfg.epoch_len));
    let Ctx { cold, warm, .. } = c;
    drop(cold.chain);
    drop(warm.chain);
    drop(cold.shared);
    drop(warm.shared);
    drop(bld);
    let _ = std::fs::remove_dir_all(&dir);
}

/// the tx-pool path: pool submission fills the verification cache, the same transaction is then
/// committed in a block (cached path in `warm`); and the pool-vs-block cycle limits: a transaction
/// whose cycles exceed `max_tx_verify_cycles` but not the block limit is committed by a block
/// (entry produced under the block limit), detached by a reorg (`readd_detached_tx` verifies under
/// `max_tx_verify_cycles`), and submitted to the pool again (`_process_tx` verifies under
/// `max_block_cycles`, or the peer's declared cycles). Both pools must agree at every point.
fn run_pool_case(out: &mut Out, seed: u64, base: &Path, cyc: u64) {
    let mut rng = Rng::new(seed ^ 0x5151);
    out.begin_case(&format!("seed={} kind=pool", seed));
    let cfg = NodeCfg { epoch_len: rng.range(6, 10), window: (2, 10), genesis_cells: 8, ..Default::default() };
    let consensus = make_consensus(&cfg);
    let dir = base.join(format!("pool-{}", seed));
    let _ = std::fs::remove_dir_all(&dir);
    let zero = StoreConfig { header_cache_size: 0, cell_data_cache_size: 0, block_proposals_cache_size: 0, block_tx_hashes_cache_size: 0, block_uncles_cache_size: 0, block_extensions_cache_size: 0, freezer_enable: false };
    let mut tp = TxPoolConfig::default();
    // one always-success input passes the pool limit, two inputs do not (both pass the block limit)
    tp.max_tx_verify_cycles = cyc + cyc / 2;
    let cold = start_with(&dir.join("cold"), consensus.clone(), zero, Some(tp.clone()));
    let warm = start_with(&dir.join("warm"), consensus.clone(), StoreConfig::default(), Some(tp));
    let mut bld = ChainBuilder::new(consensus.clone(), &dir.join("builder"));
    let cells = genesis_cells(&consensus);
    let mut c = Ctx { out, cold, warm, ids: HashMap::new(), content: HashMap::new(), blocks: vec![], side: vec![], cyc, bad: HashSet::new(), cells: vec![], diverged: false, skip_blocks: HashSet::new(), ext_cycles_excluded: HashSet::new() };
    c.out.op(&format!("max {}", consensus.max_block_cycles()), "ok");
    let fee1 = 1500 + rng.below(500);
    let p1 = spend(&cells[0..1], 0, fee1, 1, None);
    // X splits a cell into two outputs with different lock args, so that T2 (spending both) runs two
    // script groups: cycles(T2) = 2 × cyc > pool limit, < block limit
    let (_, _, script) = always_success_cell();
    let fee_x = 2000 + rng.below(300);
    let half = (cells[1].1 - fee_x) / 2;
    let x = {
        let mut b = TransactionBuilder::default().cell_dep(always_success_dep()).input(CellInput::new(cells[1].0.clone(), 0));
        for (i, cap) in [(1u8, half), (2u8, cells[1].1 - fee_x - half)] {
            let lock = script.clone().as_builder().args(Bytes::from(vec![i]).pack()).build();
            b = b.output(CellOutput::new_builder().capacity(Capacity::shannons(cap)).lock(lock).build()).output_data(Bytes::new());
        }
        b.build()
    };
    let fee2 = 3000 + rng.below(500);
    let t2 = {
        let total = cells[1].1 - fee_x;
        TransactionBuilder::default()
            .cell_dep(always_success_dep())
            .input(CellInput::new(OutPoint::new(x.hash(), 0), 0))
            .input(CellInput::new(OutPoint::new(x.hash(), 1), 0))
            .output(CellOutput::new_builder().capacity(Capacity::shannons(total - fee2)).lock(script.clone()).build())
            .output_data(Bytes::new())
            .build()
    };
    c.content.insert(p1.witness_hash(), (fee1, cyc));
    c.content.insert(x.witness_hash(), (fee_x, cyc));
    c.content.insert(t2.witness_hash(), (fee2, 2 * cyc));
    let submit = |n: &N, tx: &TransactionView| -> String {
        match n.shared.tx_pool_controller().submit_local_tx(tx.clone()) {
            Ok(Ok(())) => "ok".to_string(),
            Ok(Err(r)) => {
                let d = format!("{:?}", r);
                if d.contains("ExceededMaximumCycles") || d.contains("Cycles") {
                    "err cycles".to_string()
                } else if d.contains("Duplicated") {
                    "err duplicated".to_string()
                } else {
                    format!("err {}", d.split('(').next().unwrap_or("other"))
                }
            }
            Err(e) => format!("fail {}", e),
        }
    };
    let pool_ids = |n: &N| -> Vec<String> {
        let ids = n.shared.tx_pool_controller().get_all_ids().expect("ids");
        let mut v: Vec<String> = ids.pending.iter().chain(ids.proposed.iter()).map(|h| format!("{:#x}", h)).collect();
        v.sort();
        v
    };
    let both = |c: &mut Ctx, tx: &TransactionView, label: &str| {
        c.cold.clear_vcache();
        let (rc, rw) = (submit(&c.cold, tx), submit(&c.warm, tx));
        c.out.count(&format!("pool:{}:cold={},warm={}", label, rc, rw));
        c.out.evaluations += 2;
        if rc != rw {
            c.out.oracle_fail("pool-verdict-differs", &format!("{}: cold pool (verification cache empty) answers `{}`, warm pool `{}`", label, rc, rw));
        }
    };
    let same_pools = |c: &mut Ctx, label: &str| {
        std::thread::sleep(std::time::Duration::from_millis(120));
        let (ic, iw) = (pool_ids(&c.cold), pool_ids(&c.warm));
        c.out.count(&format!("pool:{}:cold-has={},warm-has={}", label, ic.len(), iw.len()));
        if ic != iw {
            c.out.oracle_fail("pool-content-differs", &format!("{}: cold pool {:?}, warm pool {:?}", label, ic, iw));
        }
    };
    // 1. the pool path: P1 and X are verified by the pools first (entries written by the pool)
    both(&mut c, &p1, "P1-first-submission");
    both(&mut c, &x, "X-first-submission");
    let g = consensus.genesis_hash();
    let mut salt = seed * 1000 + 500;
    let mut next = |tip: &Byte32, bld: &mut ChainBuilder, txs: Vec<TransactionView>, props: Vec<ckb_types::packed::ProposalShortId>| {
        salt += 1;
        bld.build(tip, &BlockSpec { txs, proposals: props, salt, ..Default::default() })
    };
    let b1 = next(&g, &mut bld, vec![], vec![p1.proposal_short_id(), x.proposal_short_id(), t2.proposal_short_id()]);
    c.deliver(&b1, &[], "pool:prefix");
    let b2 = next(&b1.hash(), &mut bld, vec![], vec![]);
    c.deliver(&b2, &[], "pool:prefix");
    // 2. committed by a block: the warm node takes the cached path (entries from the pool)
    let n_entries = c.warm.vcache_len();
    c.out.count(&format!("pool:warm-cache-entries-written-by-pool-before-commit={}", n_entries));
    let b3 = next(&b2.hash(), &mut bld, vec![p1.clone(), x.clone()], vec![]);
    c.deliver(&b3, &[], "pool:commit-P1-X");
    same_pools(&mut c, "after-commit");
    // 3. T2 needs 2 × cyc cycles: above the pools' limit
    both(&mut c, &t2, "T2-above-max_tx_verify_cycles");
    // 4. a block commits T2 under the block limit: the warm node now holds an entry for it
    let b4 = next(&b3.hash(), &mut bld, vec![t2.clone()], vec![]);
    c.deliver(&b4, &[], "pool:commit-T2");
    // 5. a heavier branch from b3 without T2: T2 is detached and re-added by the pools
    let mut t = b3.hash();
    for _ in 0..2 {
        let b = next(&t, &mut bld, vec![], vec![]);
        c.deliver(&b, &[], "pool:reorg-branch");
        t = b.hash();
    }
    same_pools(&mut c, "after-reorg");
    // 6. T2 submitted again: entry produced under the block limit vs the pool's smaller limit
    both(&mut c, &t2, "T2-resubmitted-after-reorg");
    same_pools(&mut c, "after-resubmission");
    c.out.nontrivial(format!("pool|{}|{}", cfg.epoch_len, fee1 % 7));
    // nodes with a running tx-pool service are not torn down in-process (global exit signal); leak them
    let Ctx { cold, warm, .. } = c;
    std::mem::forget(cold);
    std::mem::forget(warm);
    drop(bld);
}


// ------------------------------------------------------------------------------------------------
// kind=vc: every consumer of the verification cache, witness-dependent lock, since-dependent context
// ------------------------------------------------------------------------------------------------

const EXEC_CALLER: &[u8] = include_bytes!("/repo/script/testdata/exec_caller_from_witness");
const EXEC_CALLEE: &[u8] = include_bytes!("/repo/script/testdata/exec_callee");
const ALWAYS_FAILURE: &[u8] = include_bytes!("/repo/script/testdata/always_failure");
const ABS_TIMESTAMP: u64 = 0x4000_0000_0000_0000;

/// `make_consensus` with VM version 1 (`exec`, hash type `data1`) active from epoch 0
fn make_consensus_vm1(cfg: &NodeCfg) -> Consensus {
    let mut c = make_consensus(cfg);
    c.hardfork_switch.ckb2021 = CKB2021::new_mirana().as_builder().rfc_0032(0).build().expect("hardfork");
    c
}

fn pool_class(d: &str) -> String {
    for (p, c) in [
        ("Immature", "timerel"),
        ("CellbaseImmaturity", "timerel"),
        ("InvalidSince", "timerel"),
        ("ExceededMaximumCycles", "cycles"),
        ("ValidationFailure", "script"),
        ("Duplicated", "duplicated"),
        ("Resolve(", "resolve"),
        ("RBFRejected", "rbf"),
    ] {
        if d.contains(p) {
            return format!("err {}", c);
        }
    }
    format!("err other:{}", d.split(['(', ' ']).next().unwrap_or("?"))
}

/// the median of the last `n` timestamps ending at `hash` (the harness's own computation)
fn median_time(bld: &ChainBuilder, hash: &Byte32, n: usize) -> u64 {
    let mut ts = vec![];
    let mut h = hash.clone();
    for _ in 0..n {
        let b = bld.block(&h);
        ts.push(b.timestamp());
        if b.number() == 0 {
            break;
        }
        h = b.parent_hash();
    }
    ts.sort_unstable();
    ts[ts.len() >> 1]
}

struct Probe<'a> {
    tx: &'a TransactionView,
    /// the harness's own judgement of the context: time-relative checks pass
    mature: bool,
}

impl Ctx<'_> {
    fn wait_pools(&self) {
        for n in [&self.cold, &self.warm] {
            for _ in 0..400 {
                let tip = n.shared.snapshot().tip_hash();
                match n.shared.tx_pool_controller().get_tx_pool_info() {
                    Ok(i) if i.tip_hash == tip && i.verify_queue_size == 0 => break,
                    _ => std::thread::sleep(std::time::Duration::from_millis(5)),
                }
            }
        }
    }

    fn pool_ids(n: &N) -> Vec<String> {
        let ids = n.shared.tx_pool_controller().get_all_ids().expect("ids");
        let mut v: Vec<String> = ids.pending.iter().chain(ids.proposed.iter()).map(|h| format!("{:#x}", h)).collect();
        v.sort();
        v
    }

    fn same_pools(&mut self, label: &str) {
        self.wait_pools();
        std::thread::sleep(std::time::Duration::from_millis(60));
        self.wait_pools();
        let (ic, iw) = (Self::pool_ids(&self.cold), Self::pool_ids(&self.warm));
        self.out.count(&format!("pool:{}:cold-has={},warm-has={}", label, ic.len(), iw.len()));
        self.out.evaluations += 1;
        if ic != iw {
            self.out.oracle_fail("pool-content-differs", &format!("{}: cold pool {:?}, warm pool {:?}", label, ic, iw));
            self.diverged = true;
        }
    }

    /// one pool request on both nodes (cold: verification cache emptied first); `how` is
    /// `tst` (test_accept_tx), `sub` (submit_local_tx) or `ntf` (notify_txs: verify-queue worker)
    fn pool_probe(&mut self, how: &str, p: &Probe, label: &str) {
        self.wait_pools();
        self.cold.settle(false);
        self.cold.clear_vcache();
        let ask = |n: &N| -> String {
            let ctl = n.shared.tx_pool_controller();
            match how {
                "tst" => match ctl.test_accept_tx(p.tx.clone()) {
                    Ok(Ok(c)) => format!("ok cycles={} fee={}", c.cycles, c.fee.as_u64()),
                    Ok(Err(r)) => pool_class(&format!("{:?}", r)),
                    Err(e) => format!("fail {}", e),
                },
                "sub" => match ctl.submit_local_tx(p.tx.clone()) {
                    Ok(Ok(())) => "ok".to_string(),
                    Ok(Err(r)) => pool_class(&format!("{:?}", r)),
                    Err(e) => format!("fail {}", e),
                },
                _ => match ctl.notify_txs(vec![p.tx.clone()]) {
                    Ok(()) => "queued".to_string(),
                    Err(e) => format!("fail {}", e),
                },
            }
        };
        let (rc, rw) = (ask(&self.cold), ask(&self.warm));
        self.out.count(&format!("vc:{}:{}:cold={},warm={}", how, label, rc.split(" cycles").next().unwrap(), rw.split(" cycles").next().unwrap()));
        self.out.evaluations += 2;
        if rc != rw {
            self.out.oracle_fail("pool-verdict-differs", &format!("{} {}: the pool with an empty verification cache answers `{}`, the warm one `{}`", how, label, rc, rw));
            self.diverged = true;
        }
        if how == "ntf" {
            self.same_pools(&format!("after-ntf-{}", label));
            return;
        }
        self.cold.settle(false);
        self.warm.settle(false);
        // model tie: the warm pool's answer against the model's cached path
        let head = rw.split(' ').take(2).collect::<Vec<_>>().join(" ");
        if rw.starts_with("ok") || head == "err timerel" || head == "err script" {
            let w = p.tx.witness_hash();
            if let Some((fee, cyc)) = self.content.get(&w).cloned() {
                let cyc = if self.bad.contains(&w) { "x".to_string() } else { cyc.to_string() };
                let line = format!("{} {}:{}:1:{}:{}", how, self.wid(&w), if p.mature { 1 } else { 0 }, cyc, fee);
                self.out.op(&line, &rw);
            }
        }
    }

    fn wait_warm_entry(&self, tx: &TransactionView) {
        let c = self.warm.shared.txs_verify_cache();
        for _ in 0..300 {
            {
                let g = c.blocking_read();
                if g.contains(&tx.witness_hash()) || g.contains(&tx.hash()) {
                    return;
                }
            }
            std::thread::sleep(std::time::Duration::from_millis(3));
        }
    }
}

fn run_vc_case(out: &mut Out, seed: u64, base: &Path, cyc: u64, var: Option<&str>) {
    let mut rng = Rng::new(seed ^ 0xC14C);
    let ts_variant = match var {
        Some("ts") => true,
        Some("rel") => false,
        _ => rng.chance(1, 2),
    };
    out.begin_case(&format!("seed={} kind=vc var={}", seed, if ts_variant { "ts" } else { "rel" }));
    // window (1, 12): the pool's notion of "the earliest block the tx can be committed in" differs by
    // status (fresh / gap / proposed) by at most closest + 1 = 2 blocks; the contexts probed below
    // are immature resp. mature under every one of them
    let cfg = NodeCfg { epoch_len: rng.range(12, 16), window: (1, 12), genesis_cells: 6, ..Default::default() };
    let consensus = make_consensus_vm1(&cfg);
    let dir = base.join(format!("vc-{}-{}", seed, if ts_variant { "ts" } else { "rel" }));
    let _ = std::fs::remove_dir_all(&dir);
    let zero = StoreConfig { header_cache_size: 0, cell_data_cache_size: 0, block_proposals_cache_size: 0, block_tx_hashes_cache_size: 0, block_uncles_cache_size: 0, block_extensions_cache_size: 0, freezer_enable: false };
    let tp = TxPoolConfig::default();
    let cold = start_with(&dir.join("cold"), consensus.clone(), zero, Some(tp.clone()));
    let warm = start_with(&dir.join("warm"), consensus.clone(), StoreConfig::default(), Some(tp));
    let mut bld = ChainBuilder::new(consensus.clone(), &dir.join("builder"));
    let cells = genesis_cells(&consensus);
    let mut c = Ctx { out, cold, warm, ids: HashMap::new(), content: HashMap::new(), blocks: vec![], side: vec![], cyc, bad: HashSet::new(), cells: vec![], diverged: false, skip_blocks: HashSet::new(), ext_cycles_excluded: HashSet::new() };
    c.out.op(&format!("max {}", consensus.max_block_cycles()), "ok");

    // ---- transactions
    let (_, _, always) = always_success_cell();
    let exec_data = Bytes::from(EXEC_CALLER.to_vec());
    let exec_lock = Script::new_builder().hash_type(ckb_types::core::ScriptHashType::Data1).code_hash(CellOutput::calc_data_hash(&exec_data)).build();
    let ckb = 100_000_000u64;
    let fee_de = 3000 + rng.below(700);
    let (code_cap, e_cap) = (2_000 * ckb, 5_000 * ckb);
    // DE: deploys the lock's code (output 0) and creates E, a cell under that lock (output 1)
    let de = TransactionBuilder::default()
        .cell_dep(always_success_dep())
        .input(CellInput::new(cells[2].0.clone(), 0))
        .output(CellOutput::new_builder().capacity(Capacity::shannons(code_cap)).lock(always.clone()).build())
        .output_data(exec_data.clone())
        .output(CellOutput::new_builder().capacity(Capacity::shannons(e_cap)).lock(exec_lock.clone()).build())
        .output_data(Bytes::new())
        .output(CellOutput::new_builder().capacity(Capacity::shannons(cells[2].1 - code_cap - e_cap - fee_de)).lock(always.clone()).build())
        .output_data(Bytes::from(seed.to_le_bytes().to_vec()))
        .build();
    let rel = rng.range(3, 4);
    let secs = 10_000 + rng.below(5_000);
    let since = if ts_variant { ABS_TIMESTAMP | secs } else { REL_BLOCKS | rel };
    let fee_t = 5000 + rng.below(900);
    // T spends E; the lock execs witness 0: the same tx hash under a passing and a failing witness
    let t_of = |witness: &[u8]| {
        TransactionBuilder::default()
            .cell_dep(CellDep::new_builder().out_point(OutPoint::new(de.hash(), 0)).build())
            .input(CellInput::new(OutPoint::new(de.hash(), 1), since))
            .output(CellOutput::new_builder().capacity(Capacity::shannons(e_cap - fee_t)).lock(always.clone()).build())
            .output_data(Bytes::from(vec![7u8; 8]))
            .witness(Bytes::from(witness.to_vec()).pack())
            .build()
    };
    let good = t_of(EXEC_CALLEE);
    let bad = t_of(ALWAYS_FAILURE);
    assert_eq!(good.hash(), bad.hash());
    assert_ne!(good.witness_hash(), bad.witness_hash());
    c.bad.insert(bad.witness_hash());
    c.content.insert(de.witness_hash(), (fee_de, cyc));
    c.cells = vec![cells[2].0.clone(), OutPoint::new(de.hash(), 0), OutPoint::new(de.hash(), 1), OutPoint::new(de.hash(), 2), OutPoint::new(good.hash(), 0)];
    let props = vec![de.proposal_short_id(), good.proposal_short_id()];

    let g = consensus.genesis_hash();
    let mut salt = seed * 1000 + 700;
    let mut next = |tip: &Byte32, bld: &mut ChainBuilder, txs: Vec<TransactionView>, props: Vec<ckb_types::packed::ProposalShortId>, ts: Option<u64>| {
        salt += 1;
        bld.build(tip, &BlockSpec { txs, proposals: props, salt, timestamp: ts, ..Default::default() })
    };
    macro_rules! stop_if_diverged {
        () => {
            if c.diverged {
                c.out.count("vc:stopped-after-divergence");
                let Ctx { cold, warm, .. } = c;
                std::mem::forget(cold);
                std::mem::forget(warm);
                drop(bld);
                return;
            }
        };
    }
    let median_n = consensus.median_time_block_count();
    let late0 = 20_000_000u64 + rng.below(1000);
    // ---- common prefix: block 1 proposes DE and T; (ts variant) block 2 commits DE
    let p1 = next(&g, &mut bld, vec![], props.clone(), None);
    c.deliver(&p1, &[], "vc:prefix");
    let mut fork = p1.hash();
    if ts_variant {
        let b = next(&fork, &mut bld, vec![de.clone()], vec![], None);
        c.deliver(&b, &[], "vc:prefix-DE");
        fork = b.hash();
    }
    let fork_at = bld.block(&fork).number() + 1;
    // ---- branch A: T with the passing witnesses, mature
    let mut ta = fork.clone();
    let mut late = late0;
    let a_len;
    if ts_variant {
        // late timestamps until the median time of the parent passes the since value
        while median_time(&bld, &ta, median_n) < secs * 1000 {
            late += 1;
            let b = next(&ta, &mut bld, vec![], vec![], Some(late));
            c.deliver(&b, &[], "vc:A-late");
            ta = b.hash();
        }
        late += 1;
        let b = next(&ta, &mut bld, vec![good.clone()], vec![], Some(late));
        c.deliver(&b, &[], "vc:A-commit-T");
        ta = b.hash();
        a_len = b.number();
    } else {
        let b = next(&ta, &mut bld, vec![de.clone()], vec![], None);
        c.deliver(&b, &[], "vc:A-DE");
        ta = b.hash();
        for _ in 1..rel {
            let b = next(&ta, &mut bld, vec![], vec![], None);
            c.deliver(&b, &[], "vc:A-empty");
            ta = b.hash();
        }
        let b = next(&ta, &mut bld, vec![good.clone()], vec![], None);
        assert_eq!(b.number(), fork_at + rel);
        c.deliver(&b, &[], "vc:A-commit-T");
        ta = b.hash();
        a_len = b.number();
    }
    let _ = ta;
    stop_if_diverged!();
    c.wait_warm_entry(&good);
    let t_content = *c.content.get(&good.witness_hash()).expect("T verified on branch A");
    c.content.entry(bad.witness_hash()).or_insert(t_content);
    c.same_pools("after-branch-A");

    // ---- branch B: the same tx hash with the failing witnesses, mature, on the block that makes B
    // the heaviest: refused by a node without cache (script), so it must be refused with one
    let mut tb = fork.clone();
    if ts_variant {
        let mut l = late0 + 500;
        while bld.block(&tb).number() < a_len {
            l += 1;
            let b = next(&tb, &mut bld, vec![], vec![], Some(l));
            c.deliver(&b, &[], "vc:B-late");
            tb = b.hash();
        }
        assert!(median_time(&bld, &tb, median_n) >= secs * 1000);
        let b = next(&tb, &mut bld, vec![bad.clone()], vec![], Some(l + 1));
        c.deliver(&b, &[], "vc:B-commit-T-failing-witness");
    } else {
        let b = next(&tb, &mut bld, vec![de.clone()], vec![], None);
        c.deliver(&b, &[], "vc:B-DE");
        tb = b.hash();
        while bld.block(&tb).number() < a_len {
            let b = next(&tb, &mut bld, vec![], vec![], None);
            c.deliver(&b, &[], "vc:B-empty");
            tb = b.hash();
        }
        let b = next(&tb, &mut bld, vec![bad.clone()], vec![], None);
        c.deliver(&b, &[], "vc:B-commit-T-failing-witness");
    }
    stop_if_diverged!();

    // ---- branch C: valid, heavier, and T is immature in its context (lower number of the block
    // that created E / lower median time)
    let mut tc = fork.clone();
    let e_height_c;
    if ts_variant {
        while bld.block(&tc).number() < a_len + 1 {
            let b = next(&tc, &mut bld, vec![], vec![], None);
            c.deliver(&b, &[], "vc:C-early");
            tc = b.hash();
        }
        e_height_c = 0;
        assert!(median_time(&bld, &tc, median_n) < secs * 1000);
    } else {
        while bld.block(&tc).number() < a_len {
            let b = next(&tc, &mut bld, vec![], vec![], None);
            c.deliver(&b, &[], "vc:C-empty");
            tc = b.hash();
        }
        let b = next(&tc, &mut bld, vec![de.clone()], vec![], None);
        e_height_c = b.number();
        assert_eq!(e_height_c, a_len + 1);
        c.deliver(&b, &[], "vc:C-DE-late");
        tc = b.hash();
        // immature under every pool status: tip + 1 + closest < E's block + rel
        assert!(b.number() + 2 < e_height_c + rel);
    }
    stop_if_diverged!();
    if c.warm.shared.snapshot().tip_hash() != tc {
        c.out.oracle_fail("vc-setup", "branch C did not become the main chain");
    }
    c.same_pools("after-reorg-to-C");
    let imm = Probe { tx: &good, mature: false };
    let imm_bad = Probe { tx: &bad, mature: false };
    let mut order = vec![("tst", &imm, "T-immature"), ("sub", &imm, "T-immature"), ("ntf", &imm, "T-immature"), ("sub", &imm_bad, "T-failing-witness-immature")];
    if rng.chance(1, 2) {
        order.swap(0, 1);
    }
    for (how, p, label) in order {
        c.pool_probe(how, p, label);
        stop_if_diverged!();
    }
    c.same_pools("after-immature-probes");
    stop_if_diverged!();
    // a block on C committing T while immature: refused by both (warm: cached path)
    {
        let b = next(&tc, &mut bld, vec![good.clone()], vec![], None);
        c.deliver(&b, &[good.witness_hash()], "vc:C-commit-T-immature");
        stop_if_diverged!();
    }
    if !ts_variant {
        // ---- C grows until T is mature under every pool status: tip - 1 + closest >= E's block + rel
        while bld.block(&tc).number() < e_height_c + rel {
            let b = next(&tc, &mut bld, vec![], vec![], None);
            c.deliver(&b, &[], "vc:C-empty");
            tc = b.hash();
        }
        stop_if_diverged!();
        let mat = Probe { tx: &good, mature: true };
        let mat_bad = Probe { tx: &bad, mature: true };
        for (how, p, label) in [
            ("tst", &mat_bad, "T-failing-witness-mature"),
            ("sub", &mat_bad, "T-failing-witness-mature"),
            ("ntf", &mat_bad, "T-failing-witness-mature"),
            ("tst", &mat, "T-mature"),
            ("sub", &mat, "T-mature"),
            ("sub", &mat_bad, "T-failing-witness-after-T-in-pool"),
        ] {
            c.pool_probe(how, p, label);
            stop_if_diverged!();
        }
        c.same_pools("after-mature-probes");
        stop_if_diverged!();
        // the pools have verified T themselves (entry written by the pool); T is taken out again and
        // the failing witnesses are offered once more: still a script failure
        let removed = (c.cold.shared.tx_pool_controller().remove_local_tx(good.hash()).expect("remove"), c.warm.shared.tx_pool_controller().remove_local_tx(good.hash()).expect("remove"));
        c.out.count(&format!("vc:remove_local_tx:cold={},warm={}", removed.0, removed.1));
        if removed.0 != removed.1 {
            c.out.oracle_fail("pool-content-differs", &format!("remove_local_tx(T): cold={} warm={}", removed.0, removed.1));
        }
        for (how, p, label) in [
            ("tst", &mat_bad, "T-failing-witness-after-pool-verified-T"),
            ("sub", &mat_bad, "T-failing-witness-after-pool-verified-T"),
            ("sub", &mat, "T-mature-again"),
        ] {
            c.pool_probe(how, p, label);
            stop_if_diverged!();
        }
        c.same_pools("after-second-mature-probes");
        stop_if_diverged!();
        let b = next(&tc, &mut bld, vec![good.clone()], vec![], None);
        c.deliver(&b, &[], "vc:C-commit-T-mature");
        stop_if_diverged!();
        c.same_pools("after-commit-on-C");
    }
    let mut ops: Vec<OutPoint> = c.cells.clone();
    ops.extend(cells.iter().map(|x| x.0.clone()));
    c.compare_queries(&ops);
    c.out.nontrivial(format!("vc|{}|{}|{}", if ts_variant { "ts" } else { "rel" }, cfg.epoch_len, if ts_variant { secs % 5 } else { rel }));
    let Ctx { cold, warm, .. } = c;
    std::mem::forget(cold);
    std::mem::forget(warm);
    drop(bld);
}

// ------------------------------------------------------------------------------------------------
// kind=store: the store alone — warm / cold / fresh `ChainDB`s over one RocksDB, and the raw rows
// ------------------------------------------------------------------------------------------------

#[derive(Clone, Copy, PartialEq, Debug)]
enum St {
    Never,
    Stored,
    Deleted,
}

/// the model's column names of the five block-part read caches, by accessor number
fn cached_col(a: usize) -> Option<&'static str> {
    match a {
        0 => Some("hdr"),
        2 => Some("unc"),
        3 => Some("prop"),
        4 => Some("ext"),
        5 => Some("txh"),
        _ => None,
    }
}

fn cell_expected(op: &OutPoint, output: &CellOutput, data: &Bytes, live: bool) -> Vec<String> {
    let _ = op;
    if !live {
        return vec![
            "have_cell=false".into(),
            "snapshot.have_cell=false".into(),
            "txn.have_cell=false".into(),
            "txn.is_live=None".into(),
            "txn.cell=unknown".into(),
            "get_cell=none".into(),
            "data=none".into(),
            "snapshot.data_hash=none".into(),
            "txn.data_hash=none".into(),
        ];
    }
    let dh = if data.is_empty() { Byte32::zero() } else { CellOutput::calc_data_hash(data) };
    vec![
        "have_cell=true".into(),
        "snapshot.have_cell=true".into(),
        "txn.have_cell=true".into(),
        "txn.is_live=Some(true)".into(),
        format!("txn.cell=live {} {}", digest(output.as_slice()), digest(data)),
        format!("get_cell={} {}", digest(output.as_slice()), data.len()),
        format!("data={}", canon_data(Some((data.clone(), dh.clone())))),
        format!("snapshot.data_hash={}", hex(&dh.as_slice()[..6])),
        format!("txn.data_hash={}", hex(&dh.as_slice()[..6])),
    ]
}

fn run_store_case(out: &mut Out, seed: u64, base: &Path) {
    let mut rng = Rng::new(seed ^ 0x5709E);
    out.begin_case(&format!("seed={} kind=store", seed));
    let cfg = NodeCfg { epoch_len: rng.range(4, 8), window: (1, 10), genesis_cells: 5, ..Default::default() };
    let consensus = make_consensus(&cfg);
    let dir = base.join(format!("store-{}", seed));
    let _ = std::fs::remove_dir_all(&dir);
    let mut bld = ChainBuilder::new(consensus.clone(), &dir.join("builder"));
    let cells = genesis_cells(&consensus);
    let (_, _, always) = always_success_cell();
    // ---- the block tree
    let t1 = spend_tx(&cells[0..1], 2, 1000 + rng.below(100), 11);
    let t1_caps: Vec<u64> = t1.outputs().into_iter().map(|o| Unpack::<Capacity>::unpack(&o.capacity()).as_u64()).collect();
    // t2: an output with EMPTY data (the data / data-hash rows are empty, the answer is (empty, zero))
    let t2 = TransactionBuilder::default()
        .cell_dep(always_success_dep())
        .input(CellInput::new(OutPoint::new(t1.hash(), 0), 0))
        .output(CellOutput::new_builder().capacity(Capacity::shannons(t1_caps[0] - 500)).lock(always.clone()).build())
        .output_data(Bytes::new())
        .build();
    let t3 = spend_tx(&cells[1..2], 1, 700, 13);
    let t4 = spend_tx(&[(OutPoint::new(t2.hash(), 0), t1_caps[0] - 500), (OutPoint::new(t1.hash(), 1), t1_caps[1])], 1, 900, 14);
    let u1 = spend_tx(&cells[0..1], 1, 1200, 21);
    let u1_cap: u64 = Unpack::<Capacity>::unpack(&u1.outputs().get(0).unwrap().capacity()).as_u64();
    let u2 = spend_tx(&[(OutPoint::new(u1.hash(), 0), u1_cap), cells[1].clone()], 2, 800, 22);
    let g = consensus.genesis_hash();
    let mut salt = seed * 1000 + 300;
    let mut mk = |bld: &mut ChainBuilder, parent: &Byte32, txs: Vec<TransactionView>, props: Vec<ckb_types::packed::ProposalShortId>, uncles: Vec<ckb_types::core::UncleBlockView>, tweak: Tweak| {
        salt += 1;
        bld.build(parent, &BlockSpec { txs, proposals: props, uncles, salt, tweak, ..Default::default() })
    };
    let m1 = mk(&mut bld, &g, vec![], vec![t1.proposal_short_id(), t2.proposal_short_id(), u1.proposal_short_id()], vec![], Tweak::None);
    let f2 = mk(&mut bld, &m1.hash(), vec![u1.clone()], vec![u2.proposal_short_id()], vec![], Tweak::None);
    let m2 = mk(&mut bld, &m1.hash(), vec![t1.clone()], vec![t3.proposal_short_id()], vec![], Tweak::None);
    let m3 = mk(&mut bld, &m2.hash(), vec![t2.clone(), t3.clone()], vec![], vec![f2.as_uncle()], Tweak::None);
    let m4 = mk(&mut bld, &m3.hash(), vec![t4.clone()], vec![], vec![], Tweak::None);
    let m5 = mk(&mut bld, &m4.hash(), vec![], vec![], vec![], Tweak::None);
    let f3 = mk(&mut bld, &f2.hash(), vec![u2.clone()], vec![], vec![], Tweak::None);
    let f4 = mk(&mut bld, &f3.hash(), vec![], vec![], vec![], Tweak::None);
    // a stored block that has no extension row at all
    let f5 = mk(&mut bld, &f4.hash(), vec![], vec![], vec![], Tweak::NoExtension);
    assert!(f5.extension().is_none() && m1.extension().is_some());
    let ub: Vec<BlockView> = vec![consensus.genesis_block().clone(), m1, m2, m3, m4, m5, f2, f3, f4, f5];
    let id_of: HashMap<Byte32, usize> = ub.iter().enumerate().map(|(i, b)| (b.hash(), i)).collect();
    let mut uc: Vec<(OutPoint, CellOutput, Bytes)> = vec![];
    for b in &ub {
        for t in b.transactions() {
            for (i, (o, d)) in t.outputs_with_data_iter().enumerate() {
                uc.push((OutPoint::new(t.hash(), i as u32), o, d));
            }
        }
    }
    let cid: HashMap<OutPoint, usize> = uc.iter().enumerate().map(|(i, c)| (c.0.clone(), i)).collect();

    // ---- the stores
    let zero = StoreConfig { header_cache_size: 0, cell_data_cache_size: 0, block_proposals_cache_size: 0, block_tx_hashes_cache_size: 0, block_uncles_cache_size: 0, block_extensions_cache_size: 0, freezer_enable: false };
    let (warm_kind, warm_cfg) = match rng.below(3) {
        0 => ("default", StoreConfig::default()),
        1 => ("size-1", StoreConfig { header_cache_size: 1, cell_data_cache_size: 1, block_proposals_cache_size: 1, block_tx_hashes_cache_size: 1, block_uncles_cache_size: 1, block_extensions_cache_size: 1, freezer_enable: false }),
        _ => ("size-3", StoreConfig { header_cache_size: 3, cell_data_cache_size: 3, block_proposals_cache_size: 3, block_tx_hashes_cache_size: 3, block_uncles_cache_size: 3, block_extensions_cache_size: 3, freezer_enable: false }),
    };
    let db = RocksDB::open_in(dir.join("db"), COLUMNS);
    let w = ChainDB::new(db.clone(), warm_cfg);
    let z = ChainDB::new(db.clone(), zero);
    w.init(&consensus).expect("init");
    let mut st = vec![St::Never; ub.len()];
    st[0] = St::Stored;
    let mut main: Vec<usize> = vec![0];
    let ins_lines = |out: &mut Out, i: usize, b: &BlockView| {
        for col in ["hdr", "unc", "prop", "txh"] {
            out.op(&format!("sw {} {}", col, i), "ok");
        }
        if b.extension().is_some() {
            out.op(&format!("sw ext {}", i), "ok");
        }
    };
    let att_lines = |out: &mut Out, b: &BlockView| {
        for t in b.transactions() {
            for op in t.output_pts_iter() {
                out.op(&format!("cw {}", cid[&op]), "ok");
            }
        }
        for t in b.transactions().iter().skip(1) {
            for op in t.input_pts_iter() {
                // (the genesis transactions spend the null out-point)
                if let Some(id) = cid.get(&op) {
                    out.op(&format!("cd {}", id), "ok");
                }
            }
        }
    };
    let det_lines = |out: &mut Out, b: &BlockView| {
        for t in b.transactions().iter().skip(1) {
            for op in t.input_pts_iter() {
                out.op(&format!("cw {}", cid[&op]), "ok");
            }
        }
        for t in b.transactions() {
            for op in t.output_pts_iter() {
                out.op(&format!("cd {}", cid[&op]), "ok");
            }
        }
    };
    ins_lines(out, 0, &ub[0]);
    att_lines(out, &ub[0]);
    let pq = *rng.pick(&[(1u64, 1u64), (1, 2), (1, 4)]);
    let n_steps = rng.range(28, 40);
    let mut n_q = 0u64;
    let mut kinds = HashSet::new();
    for step in 0..=n_steps {
        // ---- one write (none at step 0: the first round queries a store that holds only genesis)
        let mut did = "init".to_string();
        if step > 0 {
            let tip = *main.last().unwrap();
            let on_main = |i: usize| main.contains(&i);
            let parent = |i: usize| id_of[&ub[i].parent_hash()];
            let mut cand: Vec<(&str, usize, u64)> = vec![];
            for i in 1..ub.len() {
                if st[i] != St::Stored && st[parent(i)] == St::Stored {
                    cand.push(("ins", i, 6));
                }
                if st[i] == St::Stored && !on_main(i) && parent(i) == tip {
                    cand.push(("att", i, 10));
                    cand.push(("rb", i, 2));
                }
                if st[i] == St::Stored && !on_main(i) {
                    cand.push(("del", i, 1));
                }
            }
            if main.len() > 1 {
                cand.push(("det", tip, if main.len() > 3 { 5 } else { 2 }));
            }
            let total: u64 = cand.iter().map(|c| c.2).sum();
            let mut r = rng.below(total);
            let mut pick = cand[0];
            for c in &cand {
                if r < c.2 {
                    pick = *c;
                    break;
                }
                r -= c.2;
            }
            let (kind, i, _) = pick;
            let b = &ub[i];
            let txn = w.begin_transaction();
            match kind {
                "ins" => {
                    txn.insert_block(b).unwrap();
                    let ext = BlockExt { received_at: 0, total_difficulty: Default::default(), total_uncles_count: 0, verified: None, txs_fees: vec![], cycles: None, txs_sizes: None };
                    txn.insert_block_ext(&b.hash(), &ext).unwrap();
                    txn.commit().unwrap();
                    st[i] = St::Stored;
                    ins_lines(out, i, b);
                }
                "att" => {
                    txn.attach_block(b).unwrap();
                    attach_block_cell(&txn, b).unwrap();
                    txn.insert_tip_header(&b.header()).unwrap();
                    txn.commit().unwrap();
                    main.push(i);
                    att_lines(out, b);
                }
                "rb" => {
                    // a verification attempt that fails later: attached inside the transaction, read
                    // through it (the cache is filled from uncommitted rows), never committed
                    txn.attach_block(b).unwrap();
                    attach_block_cell(&txn, b).unwrap();
                    for t in b.transactions() {
                        for op in t.output_pts_iter() {
                            let _ = (txn.get_cell_data(&op), txn.get_cell_data_hash(&op), txn.have_cell(&op));
                        }
                    }
                    let _ = (txn.get_block_extension(&b.hash()), txn.get_block_txs_hashes(&b.hash()), txn.get_block(&b.hash()).is_some());
                    drop(txn);
                }
                "det" => {
                    txn.detach_block(b).unwrap();
                    detach_block_cell(&txn, b).unwrap();
                    let p = &ub[id_of[&b.parent_hash()]];
                    txn.insert_tip_header(&p.header()).unwrap();
                    txn.commit().unwrap();
                    main.pop();
                    det_lines(out, b);
                }
                _ => {
                    // delete_unverified_block: the block is read through the transaction, then deleted
                    let blk = txn.get_block(&b.hash()).expect("stored block");
                    txn.delete_block(&blk).unwrap();
                    txn.commit().unwrap();
                    st[i] = St::Deleted;
                    for col in ["hdr", "unc", "prop", "txh", "ext"] {
                        out.op(&format!("sd {} {}", col, i), "ok");
                    }
                }
            }
            did = format!("{} {}", kind, i);
            kinds.insert(kind.to_string());
            out.count(&format!("store:{}", kind));
        }
        // ---- one round of queries: warm (through a random view), cold, fresh, rows
        let fresh = ChainDB::new(db.clone(), StoreConfig::default());
        let mut diffs: Vec<String> = vec![];
        for (i, b) in ub.iter().enumerate() {
            let h = b.hash();
            let row = z.get(COLUMN_BLOCK_HEADER, h.as_slice()).is_some();
            assert_eq!(row, st[i] == St::Stored, "harness bookkeeping");
            if st[i] == St::Deleted {
                continue; // F6: content reads of a deleted hash are excluded until it is stored again
            }
            for a in 0..BLOCK_ACCESSORS.len() {
                if !rng.chance(pq.0, pq.1) {
                    continue;
                }
                let name = BLOCK_ACCESSORS[a];
                let wa = match rng.below(3) {
                    0 => block_answer(&w, a, &h),
                    1 => block_answer(&w.get_snapshot(), a, &h),
                    _ => block_answer(&w.begin_transaction(), a, &h),
                };
                let za = block_answer(&z, a, &h);
                let fa = block_answer(&fresh, a, &h);
                // recomputed from the raw rows: the part's own row decides presence; extension and
                // proposals are the row bytes themselves, the other parts are content-addressed
                let body0 = ckb_types::packed::TransactionKey::new_builder().block_hash(h.clone()).build();
                let ra = match name {
                    "get_block_extension" => opt(z.get(COLUMN_BLOCK_EXTENSION, h.as_slice()).map(|r| digest(r.as_ref()))),
                    "get_block_proposal_txs_ids" => opt(z.get(COLUMN_BLOCK_PROPOSAL_IDS, h.as_slice()).map(|r| digest(r.as_ref()))),
                    _ => {
                        let present = match name {
                            "get_block_uncles" => z.get(COLUMN_BLOCK_UNCLE, h.as_slice()).is_some(),
                            "get_block_txs_hashes" | "get_block_body" | "get_cellbase" => z.get(COLUMN_BLOCK_BODY, body0.as_slice()).is_some(),
                            _ => row,
                        };
                        if present { block_expected(name, b).unwrap() } else { block_absent(name) }
                    }
                };
                n_q += 4;
                if wa != za || fa != za || ra != za {
                    diffs.push(format!("{} of block #{} ({:?}) after `{}` (step {}): warm({})={} cold={} fresh={} from-rows={}", name, i, st[i], did, step, warm_kind, short(&wa), short(&za), short(&fa), short(&ra)));
                }
                if let Some(col) = cached_col(a) {
                    let ans = if wa == "none" { "none" } else if wa == ra { "some" } else { "some-wrong" };
                    out.op(&format!("sr {} {}", col, i), ans);
                }
            }
        }
        for (j, (op, output, data)) in uc.iter().enumerate() {
            if !rng.chance(pq.0, pq.1) {
                continue;
            }
            let live = z.get(COLUMN_CELL, &op.to_cell_key()).is_some();
            if live && rng.chance(1, 3) {
                // what script verification does for a cell dep / an input: bare loads
                let _ = (w.get_cell_data(op), w.get_cell_data_hash(op));
                out.op(&format!("cl data {}", j), "ok");
                out.op(&format!("cl hash {}", j), "ok");
            }
            let wa = cell_answers(&w, op);
            let za = cell_answers(&z, op);
            let fa = cell_answers(&fresh, op);
            let key = op.to_cell_key();
            let (drow, hrow) = (z.get(COLUMN_CELL_DATA, &key).is_some(), z.get(COLUMN_CELL_DATA_HASH, &key).is_some());
            let mut ra = cell_expected(op, output, data, live);
            if live && !drow {
                ra[6] = "data=none".into();
            }
            if live && !hrow {
                ra[7] = "snapshot.data_hash=none".into();
                ra[8] = "txn.data_hash=none".into();
            }
            n_q += 4 * wa.len() as u64;
            if wa != za || fa != za || ra != za {
                let k = (0..wa.len()).find(|k| wa[*k] != za[*k] || fa[*k] != za[*k] || ra[*k] != za[*k]).unwrap();
                diffs.push(format!("cell #{} after `{}` (step {}): warm({}) {} / cold {} / fresh {} / from-rows {}", j, did, step, warm_kind, wa[k], za[k], fa[k], ra[k]));
            }
            let some = |x: &str| if x.ends_with("=none") { "none" } else { "some" };
            out.op(&format!("live {}", j), if wa[0] == "have_cell=true" { "true" } else { "false" });
            out.op(&format!("cg data {}", j), some(&wa[6]));
            out.op(&format!("cg hash {}", j), some(&wa[7]));
        }
        for d in diffs {
            out.oracle_fail("store-answer-differs", &d);
        }
    }
    out.evaluations += n_q;
    *out.hist.entry("store:queries-compared".into()).or_insert(0) += n_q;
    out.count(&format!("store:final-main-chain-length={}", main.len()));
    out.count(&format!("store:warm-caches={},query-density={}/{}", warm_kind, pq.0, pq.1));
    let mut ks: Vec<String> = kinds.into_iter().collect();
    ks.sort();
    out.nontrivial(format!("store|{}|{}|{}|{:?}", warm_kind, n_steps, ks.join(","), pq));
    drop(w);
    drop(z);
    drop(db);
    drop(bld);
    let _ = std::fs::remove_dir_all(&dir);
}

// ------------------------------------------------------------------------------------------------
// kind=sys: the SYSTEM_CELL map (`util/types/src/core/cell.rs`), the production functions
// `setup_system_cell_cache`, `resolve_transaction` and `ResolvedTransaction::check` over a cell
// provider / checker the harness controls. SYSTEM_CELL is a process-wide once-lock: every case is
// generated and answered FIRST while it is not initialised (phase 1, at the start of the run, the
// answers are kept), the other kinds run, and at the very end `setup_system_cell_cache` is called
// on the case genesis and every case is answered again (phase 2). Oracle: the two answers of every
// request are equal. Model: both phases replay on `Model.Cache.resolveDeps` / `checkDeps`.
// ------------------------------------------------------------------------------------------------

use ckb_types::core::cell::{CellMeta, CellMetaBuilder, HeaderChecker, SYSTEM_CELL, resolve_transaction, setup_system_cell_cache};
use ckb_types::core::error::OutPointError;
use ckb_types::core::DepType;

struct SysWorld {
    genesis: BlockView,
    /// id → out-point
    ops: HashMap<u64, OutPoint>,
    ids: HashMap<OutPoint, u64>,
}

fn sys_world() -> SysWorld {
    let (_, _, always) = always_success_cell();
    let out = |cap: u64| CellOutput::new_builder().capacity(Capacity::shannons(cap)).lock(always.clone()).build();
    let mut tx0 = TransactionBuilder::default().input(CellInput::new(OutPoint::null(), 0));
    for d in [&b"always"[..], b"secp-code", b"dao-code", b"secp-data", b"multisig-code"] {
        tx0 = tx0.output(out(100_000_000_000)).output_data(Bytes::from(d.to_vec()));
    }
    let tx0 = tx0.build();
    let vec_of = |idx: &[u32]| {
        let v: Vec<OutPoint> = idx.iter().map(|i| OutPoint::new(tx0.hash(), *i)).collect();
        let packed: ckb_types::packed::OutPointVec = v.pack();
        packed.as_bytes()
    };
    let tx1 = TransactionBuilder::default()
        .input(CellInput::new(OutPoint::null(), 1))
        .output(out(100_000_000_000))
        .output_data(vec_of(&[1, 3]))
        .output(out(100_000_000_000))
        .output_data(vec_of(&[3, 4]))
        .build();
    let genesis = ckb_types::core::BlockBuilder::default().transaction(tx0.clone()).transaction(tx1.clone()).build();
    let mut ops = HashMap::new();
    for i in 0..5u64 {
        ops.insert(i, OutPoint::new(tx0.hash(), i as u32));
    }
    ops.insert(10, OutPoint::new(tx1.hash(), 0));
    ops.insert(11, OutPoint::new(tx1.hash(), 1));
    for i in 40..SYS_MAX_ID {
        let h = ckb_hash::blake2b_256(format!("c14-sys-{}", i).as_bytes());
        ops.insert(i, OutPoint::new(Byte32::from_slice(&h).unwrap(), (i % 5) as u32));
    }
    let ids = ops.iter().map(|(k, v)| (v.clone(), *k)).collect();
    SysWorld { genesis, ops, ids }
}

const SYS_MAX_ID: u64 = 2400;
/// the model line of the map `setup_system_cell_cache` builds from `sys_world().genesis`
const SYS_MAP_LINE: &str = "c1,c2,c3,g10=1+3,g11=3+4";

#[derive(Clone)]
struct StubCells {
    /// id → (status: 0 live / 1 dead / 2 unknown, data)
    st: HashMap<OutPoint, (u8, Bytes)>,
}

impl CellProvider for StubCells {
    fn cell(&self, op: &OutPoint, eager_load: bool) -> CellStatus {
        match self.st.get(op) {
            Some((0, data)) => {
                let (_, _, always) = always_success_cell();
                let output = CellOutput::new_builder().capacity(Capacity::shannons(100_000_000_000)).lock(always.clone()).build();
                let mut m: CellMeta = CellMetaBuilder::from_cell_output(output, data.clone()).out_point(op.clone()).build();
                if !eager_load {
                    m.mem_cell_data = None;
                    m.mem_cell_data_hash = None;
                }
                CellStatus::live_cell(m)
            }
            Some((1, _)) => CellStatus::Dead,
            _ => CellStatus::Unknown,
        }
    }
}

impl CellChecker for StubCells {
    fn is_live(&self, op: &OutPoint) -> Option<bool> {
        match self.st.get(op) {
            Some((0, _)) => Some(true),
            Some((1, _)) => Some(false),
            _ => None,
        }
    }
}

struct AnyHeader;
impl HeaderChecker for AnyHeader {
    fn check_valid(&self, _: &Byte32) -> Result<(), OutPointError> {
        Ok(())
    }
}

fn sys_err(w: &SysWorld, e: &OutPointError) -> String {
    let id = |op: &OutPoint| w.ids.get(op).map(|i| i.to_string()).unwrap_or_else(|| "?".into());
    match e {
        OutPointError::Dead(op) => format!("err dead {}", id(op)),
        OutPointError::Unknown(op) => format!("err unknown {}", id(op)),
        OutPointError::InvalidDepGroup(op) => format!("err invalid {}", id(op)),
        OutPointError::OverMaxDepExpansionLimit => "err overmax".into(),
        other => format!("err other:{:?}", other).split('(').next().unwrap().to_string(),
    }
}

/// one generated case: the op lines and the implementation's answers (in the current state of SYSTEM_CELL)
fn sys_case_answers(w: &SysWorld, seed: u64) -> Vec<(String, String)> {
    let mut rng = Rng::new(seed ^ 0x5E5CE11);
    let mut lines: Vec<(String, String)> = vec![];
    let mut cells = StubCells { st: HashMap::new() };
    let set = |cells: &mut StubCells, lines: &mut Vec<(String, String)>, st: u8, lo: u64, hi: u64| {
        for i in lo..=hi {
            let data = cells.st.get(&w.ops[&i]).map(|x| x.1.clone()).unwrap_or_else(|| Bytes::from(i.to_le_bytes().to_vec()));
            cells.st.insert(w.ops[&i].clone(), (st, data));
        }
        let name = ["live", "dead", "unknown"][st as usize];
        lines.push((format!("st {} {}", name, if lo == hi { lo.to_string() } else { format!("{}-{}", lo, hi) }), "ok".into()));
    };
    // the genesis cells, as the genesis block has them
    for (ti, tx) in w.genesis.transactions().iter().enumerate() {
        for (i, (_, d)) in tx.outputs_with_data_iter().enumerate() {
            let id = if ti == 0 { i as u64 } else { 10 + i as u64 };
            cells.st.insert(w.ops[&id].clone(), (0, d));
        }
    }
    lines.push(("st live 0-4,10-11".into(), "ok".into()));
    lines.push(("grp 10 1+3".into(), "ok".into()));
    lines.push(("grp 11 3+4".into(), "ok".into()));
    // other cells: 40 = the input; 50.. = groups; 100.. = code cells
    set(&mut cells, &mut lines, 0, 40, 40);
    set(&mut cells, &mut lines, 0, 100, 2300);
    let dead_lo = 2310 + rng.below(5);
    set(&mut cells, &mut lines, 1, dead_lo, dead_lo + 2);
    let group = |cells: &mut StubCells, lines: &mut Vec<(String, String)>, g: u64, st: u8, members: Option<Vec<u64>>, raw: Option<Vec<u8>>| {
        let data = match (&members, raw) {
            (Some(ms), _) => {
                let v: Vec<OutPoint> = ms.iter().map(|i| w.ops[i].clone()).collect();
                let packed: ckb_types::packed::OutPointVec = v.pack();
                packed.as_bytes()
            }
            (None, Some(r)) => Bytes::from(r),
            (None, None) => Bytes::new(),
        };
        cells.st.insert(w.ops[&g].clone(), (st, data));
        lines.push((format!("st {} {}", ["live", "dead", "unknown"][st as usize], g), "ok".into()));
        let valid = members.as_ref().is_some_and(|m| !m.is_empty());
        lines.push((format!("grp {} {}", g, if valid { members.unwrap().iter().map(|x| x.to_string()).collect::<Vec<_>>().join("+") } else { "x".into() }), "ok".into()));
    };
    let k_big = rng.range(2, 40);
    group(&mut cells, &mut lines, 50, 0, Some(vec![2301, 2302, 2303]), None);
    group(&mut cells, &mut lines, 51, 0, None, Some(vec![1, 2, 3]));
    group(&mut cells, &mut lines, 52, 0, None, None);
    group(&mut cells, &mut lines, 53, 0, Some(vec![1, 3]), None); // twin of the system group 10
    group(&mut cells, &mut lines, 54, 0, Some((0..k_big).map(|i| 2304 - 50 + i).collect()), None);
    group(&mut cells, &mut lines, 55, 1, Some(vec![2301]), None); // the group cell is dead
    group(&mut cells, &mut lines, 56, 0, Some(vec![2301, dead_lo, 2302]), None); // a dead member
    group(&mut cells, &mut lines, 57, 0, Some(vec![2301, 2390]), None); // an unknown member
    group(&mut cells, &mut lines, 58, 0, Some(vec![]), None); // an empty vector
    let n_res = rng.range(24, 36);
    for _ in 0..n_res {
        // ---- the dep list: special deps + a run of code deps filling the budget to a chosen total
        #[derive(Clone)]
        enum D {
            C(u64),
            G(u64),
            Run(u64, u64),
        }
        let cost = |d: &D| match d {
            D::C(_) => 1u64,
            D::G(10) | D::G(11) | D::G(53) | D::G(57) => 2,
            D::G(50) | D::G(56) => 3,
            D::G(54) => k_big,
            D::G(55) => 1,
            D::G(_) => 0,
            D::Run(a, b) => b - a + 1,
        };
        let mut special: Vec<D> = vec![];
        let menu: [(D, u64); 14] = [
            (D::G(10), 6), (D::G(11), 5), (D::C(1), 3), (D::C(2), 3), (D::C(3), 3), (D::C(4), 1), (D::C(10), 1),
            (D::G(50), 3), (D::G(53), 4), (D::G(54), 3), (D::G(1), 1), (D::C(0), 2), (D::G(58), 1), (D::C(11), 1),
        ];
        for (d, wgt) in menu.iter() {
            if rng.chance(*wgt, 12) {
                special.push(d.clone());
            }
        }
        let faulty: [D; 7] = [D::C(dead_lo), D::C(2395), D::G(51), D::G(52), D::G(55), D::G(56), D::G(57)];
        let fault = if rng.chance(1, 4) { Some(rng.pick(&faulty).clone()) } else { None };
        let used: u64 = special.iter().map(cost).sum();
        let limit = 2048u64;
        let total = match rng.below(10) {
            0 => used + rng.below(30),
            1 => limit - 2,
            2 | 3 => limit - 1,
            4 | 5 | 6 => limit,
            7 | 8 => limit + 1,
            _ => limit + 2,
        };
        let run_len = total.saturating_sub(used).min(2200);
        // order: specials before / after / around the run
        let mut deps: Vec<D> = vec![];
        let run = if run_len > 0 { Some(D::Run(100, 100 + run_len - 1)) } else { None };
        let split = rng.below(special.len() as u64 + 1) as usize;
        let place = rng.below(3);
        for (i, d) in special.iter().enumerate() {
            if i == split && place == 1 {
                if let Some(r) = &run {
                    deps.push(r.clone());
                }
            }
            deps.push(d.clone());
        }
        if place == 0 {
            if let Some(r) = &run {
                deps.insert(0, r.clone());
            }
        } else if place == 2 || (place == 1 && split >= special.len()) {
            if let Some(r) = &run {
                deps.push(r.clone());
            }
        }
        if let Some(f) = fault {
            let at = rng.below(deps.len() as u64 + 1) as usize;
            deps.insert(at, f);
        }
        if deps.is_empty() {
            deps.push(D::G(10));
        }
        // ---- the transaction
        let mut b = TransactionBuilder::default().input(CellInput::new(w.ops[&40].clone(), 0));
        let dep = |id: u64, group: bool| CellDep::new_builder().out_point(w.ops[&id].clone()).dep_type(if group { DepType::DepGroup } else { DepType::Code }).build();
        let mut toks = vec![];
        for d in &deps {
            match d {
                D::C(i) => {
                    b = b.cell_dep(dep(*i, false));
                    toks.push(format!("c{}", i));
                }
                D::G(i) => {
                    b = b.cell_dep(dep(*i, true));
                    toks.push(format!("g{}", i));
                }
                D::Run(a, z) => {
                    for i in *a..=*z {
                        b = b.cell_dep(dep(i, false));
                    }
                    toks.push(if a == z { format!("c{}", a) } else { format!("c{}-{}", a, z) });
                }
            }
        }
        let tx = b.output(CellOutput::new_builder().capacity(Capacity::shannons(1)).build()).output_data(Bytes::new()).build();
        // inputs consumed earlier in the block: sometimes one of the (non-system) code deps
        let seen_ids: Vec<u64> = if rng.chance(1, 8) { vec![100 + rng.below(run_len.max(1))] } else { vec![] };
        let mut seen: HashSet<OutPoint> = seen_ids.iter().map(|i| w.ops[i].clone()).collect();
        let r = resolve_transaction(tx, &mut seen, &cells, &AnyHeader);
        let line = format!("res {} {}", if seen_ids.is_empty() { "-".to_string() } else { seen_ids.iter().map(|x| x.to_string()).collect::<Vec<_>>().join(",") }, toks.join(","));
        match &r {
            Err(e) => lines.push((line, sys_err(w, e))),
            Ok(rtx) => {
                let ids: Vec<u64> = rtx.resolved_cell_deps.iter().map(|m| w.ids[&m.out_point]).collect();
                let h = ids.iter().fold(0u64, |acc, x| (acc * 31 + x + 1) % 1_000_000_007);
                let gs: Vec<String> = rtx.resolved_dep_groups.iter().map(|m| w.ids[&m.out_point].to_string()).collect();
                lines.push((line, format!("ok cells={} h={} groups={}", ids.len(), h, if gs.is_empty() { "-".to_string() } else { gs.join(",") })));
            }
        }
        // ---- the liveness re-check of the resolved transaction, sometimes after a cell changed
        if let Ok(rtx) = &r {
            if rng.chance(1, 2) {
                let mut checker = cells.clone();
                if rng.chance(1, 2) {
                    let victims: Vec<u64> = rtx.resolved_cell_deps.iter().chain(rtx.resolved_dep_groups.iter()).map(|m| w.ids[&m.out_point]).filter(|i| *i >= 40).collect();
                    if !victims.is_empty() {
                        let v = *rng.pick(&victims);
                        let st = if rng.chance(1, 2) { 1u8 } else { 2u8 };
                        let data = checker.st[&w.ops[&v]].1.clone();
                        checker.st.insert(w.ops[&v].clone(), (st, data));
                        lines.push((format!("st {} {}", ["live", "dead", "unknown"][st as usize], v), "ok".into()));
                        let mut none: HashSet<OutPoint> = HashSet::new();
                        let c = rtx.check(&mut none, &checker, &AnyHeader);
                        lines.push(("chk".into(), match &c { Ok(()) => "ok".into(), Err(e) => sys_err(w, e) }));
                        lines.push((format!("st live {}", v), "ok".into()));
                        continue;
                    }
                }
                let mut none: HashSet<OutPoint> = HashSet::new();
                let c = rtx.check(&mut none, &checker, &AnyHeader);
                lines.push(("chk".into(), match &c { Ok(()) => "ok".into(), Err(e) => sys_err(w, e) }));
            }
        }
    }
    lines
}

/// phase 2: initialise SYSTEM_CELL through the production function, answer every case again,
/// compare with phase 1, emit both phases as one case for the model
fn sys_phase2(out: &mut Out, w: &SysWorld, cold: &[(u64, Vec<(String, String)>)]) {
    if cold.is_empty() {
        return;
    }
    {
        let mut boot = StubCells { st: HashMap::new() };
        for (ti, tx) in w.genesis.transactions().iter().enumerate() {
            for (i, (_, d)) in tx.outputs_with_data_iter().enumerate() {
                let id = if ti == 0 { i as u64 } else { 10 + i as u64 };
                boot.st.insert(w.ops[&id].clone(), (0, d));
            }
        }
        assert!(SYSTEM_CELL.get().is_none(), "SYSTEM_CELL must not be initialised before phase 2");
        setup_system_cell_cache(&w.genesis, &boot).expect("SYSTEM_CELL set once");
        let m = SYSTEM_CELL.get().expect("set");
        out.count(&format!("sys:map-entries={}", m.len()));
    }
    for (seed, cold_lines) in cold {
        out.begin_case(&format!("seed={} kind=sys", seed));
        out.op("sys -", "ok");
        for (l, a) in cold_lines {
            out.op(l, a);
        }
        let warm_lines = sys_case_answers(w, *seed);
        out.op(&format!("sys {}", SYS_MAP_LINE), "ok");
        let mut kinds: HashSet<String> = HashSet::new();
        let mut n_over = 0;
        // the generator consumes its random stream depending on the answers (a `chk` follows a
        // successful `res`): after the first differing answer the two phases are different histories
        let mut desync = false;
        let mut reported = false;
        for (i, (l, a)) in warm_lines.iter().enumerate() {
            out.op(l, a);
            if desync {
                continue;
            }
            let (cl, ca) = match cold_lines.get(i) {
                Some((cl, ca)) if cl == l => (cl, ca),
                _ => {
                    desync = true;
                    if !reported {
                        out.oracle_fail("system-cell-cache-changes-answer", &format!("seed {}: the histories of the two phases diverge at line {} (`{}`)", seed, i, short(l)));
                    }
                    continue;
                }
            };
            let _ = cl;
            if l.starts_with("res") || l == "chk" {
                out.evaluations += 1;
                let class = a.split(' ').take(2).collect::<Vec<_>>().join(" ");
                out.count(&format!("sys:{}:{}", &l[..3], if a.starts_with("ok") { "ok" } else { &class }));
                kinds.insert(class.clone());
                if a == "err overmax" {
                    n_over += 1;
                }
                // `check` walks dep groups first with the map and cell deps first without it: the first
                // error may name another cell; the verdict class is what must agree
                let same = if l == "chk" { ca.split(' ').next() == a.split(' ').next() } else { ca == a };
                if !same {
                    reported = true;
                    out.oracle_fail("system-cell-cache-changes-answer", &format!("seed {} `{}`: without SYSTEM_CELL `{}`, with SYSTEM_CELL `{}`", seed, short(l), ca, a));
                }
            }
        }
        let mut ks: Vec<String> = kinds.into_iter().collect();
        ks.sort();
        out.nontrivial(format!("sys|{}|{}|{}", warm_lines.len(), n_over, ks.join(",")));
    }
}

pub fn run(opts: &Opts) {
    let mut out = Out::new(&opts.out);
    let base = scratch_dir(&opts.out, "c14");
    let cyc = measure_cycles(&base);
    // kind=sys, phase 1: answered while SYSTEM_CELL is not initialised (see `sys_phase2`)
    let world = sys_world();
    let sys_seeds: Vec<u64> = if let Some(p) = &opts.replay {
        read_replay_ops(p).iter().filter(|l| l.starts_with("case ") && l.contains("kind=sys")).filter_map(|l| l.split_whitespace().find_map(|t| t.strip_prefix("seed=")).and_then(|s| s.parse().ok())).collect()
    } else {
        let n = if opts.thorough() { 40 * opts.scale } else { 10 * opts.scale };
        (0..n).map(|i| opts.seed.wrapping_mul(1_000_003).wrapping_add(i)).collect()
    };
    assert!(SYSTEM_CELL.get().is_none());
    let sys_cold: Vec<(u64, Vec<(String, String)>)> = sys_seeds.iter().map(|s| (*s, sys_case_answers(&world, *s))).collect();
    if let Some(p) = &opts.replay {
        let mut n = sys_cold.len();
        for l in read_replay_ops(p) {
            if l.starts_with("case ") {
                if let Some(s) = l.split_whitespace().find_map(|t| t.strip_prefix("seed=")) {
                    let var = l.split_whitespace().find_map(|t| t.strip_prefix("var="));
                    if l.contains("kind=sys") {
                        // both phases are emitted by `sys_phase2` below
                    } else if l.contains("kind=cyc") {
                        run_cyc_case(&mut out, s.parse().expect("seed"), &base, cyc);
                    } else if l.contains("kind=pool") {
                        run_pool_case(&mut out, s.parse().expect("seed"), &base, cyc);
                    } else if l.contains("kind=store") {
                        run_store_case(&mut out, s.parse().expect("seed"), &base);
                    } else if l.contains("kind=vc") {
                        run_vc_case(&mut out, s.parse().expect("seed"), &base, cyc, var);
                    } else {
                        run_case(&mut out, s.parse().expect("seed"), &base, cyc);
                    }
                    n += 1;
                }
            }
        }
        if n == 0 {
            eprintln!("replay file has no `case <n> seed=<s>` line");
            std::process::exit(2);
        }
    } else {
        let cases = if opts.thorough() { 100 * opts.scale } else { 12 * opts.scale };
        for i in 0..cases {
            run_case(&mut out, opts.seed.wrapping_mul(1_000_003).wrapping_add(i), &base, cyc);
        }
        let cyc_cases = if opts.thorough() { 20 * opts.scale } else { 5 * opts.scale };
        for i in 0..cyc_cases {
            run_cyc_case(&mut out, opts.seed.wrapping_mul(1_000_003).wrapping_add(i), &base, cyc);
        }
        let pool_cases = if opts.thorough() { 12 * opts.scale } else { 3 * opts.scale };
        for i in 0..pool_cases {
            run_pool_case(&mut out, opts.seed.wrapping_mul(1_000_003).wrapping_add(i), &base, cyc);
        }
        let store_cases = if opts.thorough() { 80 * opts.scale } else { 16 * opts.scale };
        for i in 0..store_cases {
            run_store_case(&mut out, opts.seed.wrapping_mul(1_000_003).wrapping_add(i), &base);
        }
        let vc_cases = if opts.thorough() { 10 * opts.scale } else { 6 * opts.scale };
        for i in 0..vc_cases {
            run_vc_case(&mut out, opts.seed.wrapping_mul(1_000_003).wrapping_add(i), &base, cyc, Some(if i % 2 == 0 { "rel" } else { "ts" }));
        }
    }
    sys_phase2(&mut out, &world, &sys_cold);
    let _ = std::fs::remove_dir_all(&base);
    out.finish("a case = two real nodes (store caches size 0 + verification cache emptied before every block, vs default or size-1 store caches + verification cache kept) fed the same history: transactions proposed once, committed on a first branch, then re-committed at other positions on a heavier branch (A with one of two witness sets under the same tx hash, B, and S with a relative since that is immature at one position and mature at others), one block refused for immaturity, one invalid block and its child; after the history every block hash and out-point is queried on both nodes; every case is non-trivial (it contains a reorg re-commit and a since-dependent refusal); distinct by (window, epoch length, since distance, witness variants used). Before every delivery the content accessors are asked for the not-yet-stored hash on both nodes, after it for the stored block, and liveness / guarded data / data hash of every tracked out-point through handle, snapshot and store transaction. kind=vc: a lock that execs witness 0 and a since (relative number | absolute timestamp): branch A commits T with passing witnesses, branch B the same tx hash with failing ones on the block that makes B heaviest, branch C is valid and heavier with T immature in its context; test_accept_tx / submit_local_tx / notify_txs / a block are probed with T immature (and, for the relative variant, again mature with both witness sets); distinct by (variant, epoch length, since). kind=store: one RocksDB under a warm (default | size-1 | size-3 caches), a cold (size 0) and a per-round fresh ChainDB; 28-40 random insert / attach / detach / delete / rolled-back-attach steps over a 10-block tree (fork, uncle, empty-data output, extension-less block), after each a round of all accessors over all block hashes and out-points (stored or not) through handle / snapshot / transaction, compared with the cold store, the fresh store and the raw rows; distinct by (cache sizes, steps, op kinds, query density)");
}
