//! C14 — caches never change a verdict or an answer.
//!
//! Two real nodes are fed the same history, block by block:
//!   * `cold`: every `StoreConfig` cache size 0 (`SharedBuilder::store_config`), and the shared
//!     `TxVerificationCache` is emptied before every block → every transaction takes the full
//!     `ContextualTransactionVerifier` path and every store read goes to RocksDB;
//!   * `warm`: default cache sizes, verification cache kept across blocks and branches.
//! The history: transactions proposed and committed on one branch, then a heavier branch that
//! commits the *same* transactions at other positions (cache hits in `warm`), a transaction with a
//! relative `since` that is mature on one branch and immature at its position on the other (the
//! block must be refused by both, in `warm` through the cached path's re-evaluated
//! `TimeRelativeTransactionVerifier`), and a transaction with equal hash but different witnesses.
//!
//! Oracle (independent of the model): both nodes give the same verdict (and error class) for every
//! block, the same tip, the same `BlockExt.{txs_fees, cycles, verified}` for every block and the
//! same answer to a list of chain queries for every block hash / out-point seen.
//! Model tie (lean/CkbVerif/Driver/C14.lean): every block the warm node verifies is replayed on
//! the model's *cached* path (`blk` lines carry the transaction content measured on full
//! verifications); the warm node's fees/cycles/error class must equal the model's.
//!
//! F6 classification probes (counted, not oracle failures): the bare `get_cell_data` of a spent
//! cell, `get_block_header` / `block_exists` of a deleted invalid block, and the node-API
//! consequence (`HeaderVerifier` on a child of the deleted block).
//!
//! Replay: a case is regenerated from its `case <n> seed=<s>` line.
use crate::common::*;
use crate::node::*;
use ckb_app_config::{BlockAssemblerConfig, NetworkConfig, StoreConfig, TxPoolConfig};
use ckb_network::{Flags, NetworkController, NetworkService, NetworkState, network::TransportType};
use ckb_chain::ChainServiceScope;
use ckb_chain_spec::consensus::Consensus;
use ckb_jsonrpc_types::ScriptHashType;
use ckb_shared::{Shared, SharedBuilder};
use ckb_store::ChainStore;
use ckb_test_chain_utils::always_success_cell;
use ckb_types::core::{BlockView, Capacity, TransactionBuilder, TransactionView};
use ckb_types::packed::{Byte32, CellInput, CellOutput, OutPoint};
use ckb_types::prelude::*;
use ckb_types::{bytes::Bytes, h256};
use ckb_verification::HeaderVerifier;
use ckb_verification_traits::Verifier;
use std::collections::HashMap;
use std::path::Path;
use std::sync::Arc;

struct N {
    shared: Shared,
    chain: Option<ChainServiceScope>,
    _network: Option<NetworkController>,
}

fn dummy_network(shared: &Shared, dir: &Path) -> NetworkController {
    let config = NetworkConfig {
        max_peers: 19,
        max_outbound_peers: 5,
        path: dir.join("network"),
        ping_interval_secs: 15,
        ping_timeout_secs: 20,
        connect_outbound_interval_secs: 1,
        discovery_local_address: true,
        bootnode_mode: true,
        reuse_port_on_linux: true,
        ..Default::default()
    };
    let network_state = Arc::new(NetworkState::from_config(config).expect("Init network state failed"));
    NetworkService::new(network_state, vec![], vec![], (shared.consensus().identify_name(), "test".to_string(), Flags::COMPATIBILITY), TransportType::Tcp)
        .start(shared.async_handle())
        .expect("Start network service failed")
}

fn start(dir: &Path, consensus: Consensus, store: StoreConfig) -> N {
    start_with(dir, consensus, store, None)
}

fn start_with(dir: &Path, consensus: Consensus, store: StoreConfig, pool: Option<TxPoolConfig>) -> N {
    std::fs::create_dir_all(dir.join("header_map")).unwrap();
    let db_config = ckb_app_config::DBConfig { path: dir.join("db"), ..Default::default() };
    let builder = SharedBuilder::new("verif", dir, &db_config, None, runtime_handle(), consensus)
        .unwrap_or_else(|e| panic!("SharedBuilder::new failed: {e:?}"))
        .header_map_tmp_dir(Some(dir.join("header_map")))
        .store_config(store);
    let builder = match &pool {
        Some(tp) => builder.tx_pool_config(tp.clone()),
        None => builder,
    };
    let ba = BlockAssemblerConfig {
        code_hash: h256!("0x0"),
        args: Default::default(),
        hash_type: ScriptHashType::Data,
        message: Default::default(),
        use_binary_version_as_message_prefix: false,
        binary_version: "TEST".to_string(),
        update_interval_millis: 800,
        notify: vec![],
        notify_scripts: vec![],
        notify_timeout_millis: 800,
    };
    let (shared, mut pack) = builder.block_assembler_config(Some(ba)).build().unwrap_or_else(|e| panic!("SharedBuilder::build failed: {e:?}"));
    let network = if pool.is_some() {
        let n = dummy_network(&shared, dir);
        pack.take_tx_pool_builder().start(n.clone());
        Some(n)
    } else {
        None
    };
    let chain = ChainServiceScope::new(pack.take_chain_services_builder());
    N { shared, chain: Some(chain), _network: network }
}

impl N {
    fn process(&self, b: &BlockView) -> Result<bool, String> {
        self.chain.as_ref().unwrap().chain_controller().blocking_process_block(Arc::new(b.clone())).map_err(|e| format!("{:?}", e))
    }
    fn clear_vcache(&self) {
        let c = self.shared.txs_verify_cache();
        c.blocking_write().clear();
    }
    fn vcache_len(&self) -> usize {
        let c = self.shared.txs_verify_cache();
        let n = c.blocking_read().len();
        n
    }
}

fn classify(d: &str) -> &'static str {
    for (p, c) in [
        ("Immature", "timerel"),
        ("CellbaseImmaturity", "timerel"),
        ("InvalidSince", "timerel"),
        ("ExceededMaximumCycles", "cycles"),
        ("Commit(", "commit"),
        ("InvalidDAO", "dao"),
        ("kind: OutPoint", "resolve"),
        ("UnknownParent", "badparent"),
        ("InvalidParent", "badparent"),
        ("is invalid, so block", "badparent"),
        ("previously verified failed", "badparent"),
    ] {
        if d.contains(p) {
            return c;
        }
    }
    "other"
}

/// always-success spend with an explicit `since` on every input and optional extra witness bytes
fn spend(inputs: &[(OutPoint, u64)], since: u64, fee: u64, salt: u64, witness: Option<Vec<u8>>) -> TransactionView {
    let (_, _, script) = always_success_cell();
    let total: u64 = inputs.iter().map(|(_, c)| *c).sum();
    let mut b = TransactionBuilder::default().cell_dep(always_success_dep());
    for (op, _) in inputs {
        b = b.input(CellInput::new(op.clone(), since));
    }
    b = b
        .output(CellOutput::new_builder().capacity(Capacity::shannons(total - fee)).lock(script.clone()).build())
        .output_data(Bytes::from(salt.to_le_bytes().to_vec()));
    if let Some(w) = witness {
        b = b.witness(Bytes::from(w).pack());
    }
    b.build()
}

const REL_BLOCKS: u64 = 0x8000_0000_0000_0000;

struct Ctx<'a> {
    out: &'a mut Out,
    cold: N,
    warm: N,
    ids: HashMap<Byte32, u64>,
    /// content of every transaction by witness hash: (fee, cycles)
    content: HashMap<Byte32, (u64, u64)>,
    blocks: Vec<BlockView>,
    /// delivered, stored, not (yet) verified
    side: Vec<BlockView>,
    cyc: u64,
}

impl Ctx<'_> {
    fn wid(&mut self, h: &Byte32) -> u64 {
        let n = self.ids.len() as u64 + 1;
        *self.ids.entry(h.clone()).or_insert(n)
    }

    /// deliver one block to both nodes; `immature` = witness hashes whose time-relative check fails here
    fn deliver(&mut self, b: &BlockView, immature: &[Byte32], label: &str) {
        self.cold.clear_vcache();
        let tip_before = self.warm.shared.snapshot().tip_hash();
        let rc = self.cold.process(b);
        let rw = self.warm.process(b);
        self.blocks.push(b.clone());
        let canon = |r: &Result<bool, String>| match r {
            Ok(true) => "ok".to_string(),
            Ok(false) => "known".to_string(),
            Err(d) => format!("err {}", classify(d)),
        };
        let (vc, vw) = (canon(&rc), canon(&rw));
        self.out.count(&format!("{}:{}", label, vw));
        if vc != vw {
            self.out.oracle_fail("verdict-differs", &format!("{} block {}: cold={} warm={} ({:?} / {:?})", label, b.number(), vc, vw, rc, rw));
        }
        let (tc, tw) = (self.cold.shared.snapshot().tip_hash(), self.warm.shared.snapshot().tip_hash());
        if tc != tw {
            self.out.oracle_fail("tip-differs", &format!("{} block {}", label, b.number()));
        }
        // model tie: the blocks the warm node verified in this call, in order
        let store = self.warm.shared.store();
        if rw.is_ok() && tw == b.hash() && tip_before != tw {
            // newly attached blocks: walk back from the new tip to the old main chain
            let mut path = vec![];
            let mut h = b.hash();
            loop {
                let blk = store.get_block(&h).expect("attached block");
                let ext = store.get_block_ext(&h).expect("ext");
                if blk.number() == 0 || ext.verified != Some(true) || self.verified_before(&h) {
                    break;
                }
                path.push((blk.clone(), ext));
                if blk.number() == 0 {
                    break;
                }
                h = blk.parent_hash();
            }
            path.reverse();
            for (blk, ext) in path {
                self.mark_verified(&blk.hash());
                let line = self.blk_line(&blk, &[]);
                let fees: Vec<u64> = ext.txs_fees.iter().map(|c| c.as_u64()).collect();
                let cycles: Vec<u64> = ext.cycles.clone().unwrap_or_default();
                let f = |v: &[u64]| if v.is_empty() { "-".to_string() } else { v.iter().map(|x| x.to_string()).collect::<Vec<_>>().join(",") };
                self.out.op(&format!("blk {}", line), &format!("ok fees={} cycles={}", f(&fees), f(&cycles)));
            }
        } else if rw.is_ok() && tw != b.hash() {
            self.side.push(b.clone());
        } else if let Err(d) = &rw {
            let c = classify(d);
            if c == "timerel" || c == "cycles" {
                // the attempt verified the stored, unverified ancestors first (results dropped with
                // the DB transaction, verification-cache entries kept)
                let mut anc = vec![];
                let mut p = b.parent_hash();
                while let Some(x) = self.side.iter().find(|x| x.hash() == p) {
                    anc.push(x.clone());
                    p = x.parent_hash();
                }
                anc.reverse();
                for x in anc {
                    let l = self.blk_line(&x, &[]);
                    self.out.op(&format!("warm {}", l), "ok");
                }
                let line = self.blk_line(b, immature);
                self.out.op(&format!("blk {}", line), &format!("err {}", c));
            }
        }
    }

    fn verified_before(&self, h: &Byte32) -> bool {
        self.ids.contains_key(&mark_key(h))
    }
    fn mark_verified(&mut self, h: &Byte32) {
        let k = mark_key(h);
        let n = self.ids.len() as u64 + 1;
        self.ids.insert(k, n);
    }

    fn blk_line(&mut self, b: &BlockView, immature: &[Byte32]) -> String {
        let txs: Vec<String> = b
            .transactions()
            .iter()
            .skip(1)
            .map(|t| {
                let w = t.witness_hash();
                let (fee, cyc) = *self.content.get(&w).expect("content known");
                format!("{}:{}:1:{}:{}", self.wid(&w), if immature.contains(&w) { 0 } else { 1 }, cyc, fee)
            })
            .collect();
        if txs.is_empty() { "-".to_string() } else { txs.join(";") }
    }

    /// every query answered by both nodes identically
    fn compare_queries(&mut self, outpoints: &[OutPoint]) {
        let (cs, ws) = (self.cold.shared.store(), self.warm.shared.store());
        let mut n = 0u64;
        let mut diffs = vec![];
        for pass in 0..2 {
            for b in self.blocks.clone() {
                let h = b.hash();
                let on_main = cs.is_main_chain(&h);
                let stored = cs.get_block_ext(&h).is_some();
                macro_rules! q {
                    ($name:expr, $e:expr) => {{
                        let a = { let s = cs; $e(s) };
                        let w = { let s = ws; $e(s) };
                        n += 1;
                        if a != w {
                            diffs.push(format!("{} block {} pass {}", $name, b.number(), pass));
                        }
                    }};
                }
                q!("is_main_chain", |s: &ckb_store::ChainDB| format!("{:?}", s.is_main_chain(&h)));
                q!("get_block_ext", |s: &ckb_store::ChainDB| format!("{:?}", s.get_block_ext(&h).map(|e| (e.verified, e.txs_fees, e.cycles, e.total_difficulty, e.total_uncles_count))));
                q!("get_block_number", |s: &ckb_store::ChainDB| format!("{:?}", s.get_block_number(&h)));
                q!("get_block_hash", |s: &ckb_store::ChainDB| format!("{:?}", s.get_block_hash(b.number())));
                q!("get_block_epoch_index", |s: &ckb_store::ChainDB| format!("{:?}", s.get_block_epoch_index(&h)));
                // content reads are compared for stored blocks (the authoritative ext row guards them)
                if stored {
                    q!("get_block", |s: &ckb_store::ChainDB| format!("{:?}", s.get_block(&h).map(|x| x.data().as_slice().to_vec())));
                    q!("get_block_header", |s: &ckb_store::ChainDB| format!("{:?}", s.get_block_header(&h).map(|x| x.hash())));
                    q!("get_block_uncles", |s: &ckb_store::ChainDB| format!("{:?}", s.get_block_uncles(&h).map(|x| x.data().as_slice().to_vec())));
                    q!("get_block_proposal_txs_ids", |s: &ckb_store::ChainDB| format!("{:?}", s.get_block_proposal_txs_ids(&h).map(|x| x.as_slice().to_vec())));
                    q!("get_block_extension", |s: &ckb_store::ChainDB| format!("{:?}", s.get_block_extension(&h).map(|x| x.as_slice().to_vec())));
                    q!("get_block_txs_hashes", |s: &ckb_store::ChainDB| format!("{:?}", s.get_block_txs_hashes(&h)));
                }
                let _ = on_main;
                for t in b.transactions() {
                    let th = t.hash();
                    q!("get_transaction_info", |s: &ckb_store::ChainDB| format!("{:?}", s.get_transaction_info(&th).map(|i| (i.block_hash, i.block_number, i.index))));
                }
            }
            for op in outpoints {
                let a = (cs.have_cell(op), cs.get_cell(op).map(|m| (m.cell_output.as_slice().to_vec(), m.data_bytes)), if cs.have_cell(op) { cs.get_cell_data(op) } else { None });
                let w = (ws.have_cell(op), ws.get_cell(op).map(|m| (m.cell_output.as_slice().to_vec(), m.data_bytes)), if ws.have_cell(op) { ws.get_cell_data(op) } else { None });
                n += 3;
                if a != w {
                    diffs.push(format!("cell {:?} pass {}", op, pass));
                }
            }
        }
        self.out.evaluations += n;
        self.out.count("queries-compared-x1000+");
        *self.out.hist.entry("queries-compared".into()).or_insert(0) += n;
        for d in diffs {
            self.out.oracle_fail("query-answer-differs", &d);
        }
    }
}

fn out_cap(t: &TransactionView) -> u64 {
    let c: u64 = t.outputs().get(0).unwrap().capacity().unpack();
    c
}

fn mark_key(h: &Byte32) -> Byte32 {
    let mut raw = h.raw_data().to_vec();
    raw[0] ^= 0xff;
    raw[31] ^= 0xff;
    Byte32::from_slice(&raw).unwrap()
}

fn measure_cycles(base: &Path) -> u64 {
    let cfg = NodeCfg { epoch_len: 10, window: (1, 3), genesis_cells: 2, ..Default::default() };
    let consensus = make_consensus(&cfg);
    let node = Node::start(&base.join("probe-node"), consensus.clone(), &cfg);
    let mut b = ChainBuilder::new(consensus.clone(), &base.join("probe-builder"));
    let cells = genesis_cells(&consensus);
    let tx = spend_tx(&cells[0..1], 1, 100, 1);
    let b1 = b.build(&consensus.genesis_hash(), &BlockSpec { proposals: vec![tx.proposal_short_id()], salt: 1, ..Default::default() });
    let b2 = b.build(&b1.hash(), &BlockSpec { txs: vec![tx.clone()], salt: 2, ..Default::default() });
    node.process(&b1).expect("probe b1");
    node.process(&b2).expect("probe b2");
    let cyc = node.store().get_block_ext(&b2.hash()).expect("ext").cycles.expect("cycles")[0];
    node.stop();
    cyc
}

fn run_case(out: &mut Out, seed: u64, base: &Path, cyc: u64) {
    let mut rng = Rng::new(seed);
    out.begin_case(&format!("seed={}", seed));
    let wclose = rng.range(1, 2);
    let cfg = NodeCfg { epoch_len: rng.range(5, 9), window: (wclose, wclose + rng.range(8, 10)), genesis_cells: 8, ..Default::default() };
    let consensus = make_consensus(&cfg);
    let dir = base.join(format!("case-{}", seed));
    let _ = std::fs::remove_dir_all(&dir);
    let zero = StoreConfig { header_cache_size: 0, cell_data_cache_size: 0, block_proposals_cache_size: 0, block_tx_hashes_cache_size: 0, block_uncles_cache_size: 0, block_extensions_cache_size: 0, freezer_enable: false };
    let default_warm = rng.chance(1, 2);
    let warm_kind = if default_warm { "default-caches" } else { "size-1-caches" };
    let small = if default_warm {
        StoreConfig::default()
    } else {
        // size-1 caches: constant eviction
        StoreConfig { header_cache_size: 1, cell_data_cache_size: 1, block_proposals_cache_size: 1, block_tx_hashes_cache_size: 1, block_uncles_cache_size: 1, block_extensions_cache_size: 1, freezer_enable: false }
    };
    let cold = start(&dir.join("cold"), consensus.clone(), zero);
    let warm = start(&dir.join("warm"), consensus.clone(), small);
    let mut bld = ChainBuilder::new(consensus.clone(), &dir.join("builder"));
    let cells = genesis_cells(&consensus);
    let mut c = Ctx { out, cold, warm, ids: HashMap::new(), content: HashMap::new(), blocks: vec![], side: vec![], cyc };
    c.out.op(&format!("max {}", consensus.max_block_cycles()), "ok");
    // what an RPC `get_live_cell(with_data)` does while the cell is live: fills the cell-data cache
    for n in [&c.cold, &c.warm] {
        let st = n.shared.store();
        assert!(st.have_cell(&cells[0].0) && st.get_cell_data(&cells[0].0).is_some());
    }

    // transactions: A plain; A2 = A with another witness (same hash); S spends A's output with a
    // relative since of `rel` blocks; B plain (second cell)
    let rel = rng.range(2, 3);
    let fee_a = 1000 + rng.below(500);
    let a = spend(&cells[0..1], 0, fee_a, 1, None);
    let a2 = spend(&cells[0..1], 0, fee_a, 1, Some(vec![1, 2, 3, seed as u8]));
    assert_eq!(a.hash(), a2.hash());
    assert_ne!(a.witness_hash(), a2.witness_hash());
    let a_cap: u64 = a.outputs().get(0).unwrap().capacity().unpack();
    let s = spend(&[(OutPoint::new(a.hash(), 0), a_cap)], REL_BLOCKS | rel, 700 + rng.below(300), 2, None);
    let b_tx = spend(&cells[1..2], 0, 2000 + rng.below(100), 3, None);
    for (t, fee) in [(&a, fee_a), (&a2, fee_a), (&s, a_cap - out_cap(&s)), (&b_tx, cells[1].1 - out_cap(&b_tx))] {
        c.content.insert(t.witness_hash(), (fee, cyc * t.inputs().len() as u64));
    }
    let props = vec![a.proposal_short_id(), s.proposal_short_id(), b_tx.proposal_short_id()];
    let g = consensus.genesis_hash();
    // ---- common prefix: 1 (proposes everything), 2 .. fork
    let mut tip = g.clone();
    let mut salt = seed * 1000;
    let mut next = |tip: &Byte32, bld: &mut ChainBuilder, txs: Vec<TransactionView>, props: Vec<ckb_types::packed::ProposalShortId>| {
        salt += 1;
        bld.build(tip, &BlockSpec { txs, proposals: props, salt, ..Default::default() })
    };
    let b1 = next(&tip, &mut bld, vec![], props.clone());
    c.deliver(&b1, &[], "prefix");
    tip = b1.hash();
    let fork_at = 1 + wclose; // first height at which a commit is allowed
    for _ in 2..fork_at {
        let b = next(&tip, &mut bld, vec![], vec![]);
        c.deliver(&b, &[], "prefix");
        tip = b.hash();
    }
    let fork = tip.clone();
    // ---- branch 1: A (variant by seed) at fork_at, B next, S at fork_at + rel (mature)
    let first_a = if rng.chance(1, 2) { a.clone() } else { a2.clone() };
    let mut t1 = fork.clone();
    let mut h = fork_at;
    let b = next(&t1, &mut bld, vec![first_a.clone()], vec![]);
    c.deliver(&b, &[], "branch1:A");
    t1 = b.hash();
    h += 1;
    let b = next(&t1, &mut bld, vec![b_tx.clone()], vec![]);
    c.deliver(&b, &[], "branch1:B");
    t1 = b.hash();
    h += 1;
    while h < fork_at + rel {
        let b = next(&t1, &mut bld, vec![], vec![]);
        c.deliver(&b, &[], "branch1:empty");
        t1 = b.hash();
        h += 1;
    }
    // S one block too early on a sibling (immature) — refused; then S exactly mature
    {
        // (only meaningful when there is an earlier slot: build S at the parent's height instead)
    }
    let b = next(&t1, &mut bld, vec![s.clone()], vec![]);
    c.deliver(&b, &[], "branch1:S-mature");
    t1 = b.hash();
    let len1 = h;
    // ---- branch 2 (stored first, then heavier): B and A swapped, A possibly the other witness variant
    let second_a = if rng.chance(1, 2) { a.clone() } else { a2.clone() };
    let mut t2 = fork.clone();
    let mut h2 = fork_at;
    let b = next(&t2, &mut bld, vec![b_tx.clone()], vec![]);
    c.deliver(&b, &[], "branch2:B");
    t2 = b.hash();
    h2 += 1;
    let b = next(&t2, &mut bld, vec![], vec![]);
    c.deliver(&b, &[], "branch2:empty");
    t2 = b.hash();
    h2 += 1;
    let b = next(&t2, &mut bld, vec![second_a.clone()], vec![]);
    let a_height2 = h2;
    c.deliver(&b, &[], "branch2:A");
    t2 = b.hash();
    h2 += 1;
    while h2 < a_height2 + rel - 1 {
        let b = next(&t2, &mut bld, vec![], vec![]);
        c.deliver(&b, &[], "branch2:empty");
        t2 = b.hash();
        h2 += 1;
    }
    // S one block before its maturity on branch 2, on the block that makes branch 2 the heaviest:
    // the whole attempt must be refused by both nodes (warm: through the cached path)
    {
        let bad = next(&t2, &mut bld, vec![s.clone()], vec![]);
        let heavier = bad.number() > len1;
        c.deliver(&bad, &[s.witness_hash()], if heavier { "branch2:S-immature-heaviest" } else { "branch2:S-immature-side" });
    }
    // continue branch 2 without S until mature, then S, until it is the heaviest
    while h2 < a_height2 + rel {
        let b = next(&t2, &mut bld, vec![], vec![]);
        c.deliver(&b, &[], "branch2:empty");
        t2 = b.hash();
        h2 += 1;
    }
    let b = next(&t2, &mut bld, vec![s.clone()], vec![]);
    c.deliver(&b, &[], "branch2:S-mature");
    t2 = b.hash();
    h2 += 1;
    while h2 <= len1 + 1 {
        let b = next(&t2, &mut bld, vec![], vec![]);
        c.deliver(&b, &[], "branch2:extend");
        t2 = b.hash();
        h2 += 1;
    }
    // ---- an invalid block on the tip (dao), then its child: F6 probes
    salt += 1;
    let bad = bld.build(&t2, &BlockSpec { salt, tweak: Tweak::Dao, ..Default::default() });
    c.deliver(&bad, &[], "invalid:dao");
    salt += 1;
    let child = bld.build(&bad.hash(), &BlockSpec { salt, ..Default::default() });
    {
        let hv = |n: &N| {
            let g = n.shared.snapshot();
            let snap: &ckb_snapshot::Snapshot = &g;
            match std::panic::catch_unwind(std::panic::AssertUnwindSafe(|| HeaderVerifier::new(snap, &consensus).verify(&child.header()).map_err(|e| format!("{:?}", e)))) {
                Ok(r) => r,
                Err(_) => Err("PANIC".to_string()),
            }
        };
        let (rc, rw) = (hv(&c.cold), hv(&c.warm));
        let show = |r: &Result<(), String>| match r {
            Ok(()) => "passes",
            Err(d) if d == "PANIC" => "PANICS",
            Err(_) => "unknown-parent",
        };
        c.out.count(&format!("F6:header-verifier-on-child-of-deleted:cold={},warm({})={}", show(&rc), warm_kind, show(&rw)));
        let (hc, hw) = (c.cold.shared.store().get_block_header(&bad.hash()).is_some(), c.warm.shared.store().get_block_header(&bad.hash()).is_some());
        c.out.count(&format!("F6:bare-get_block_header-of-deleted:cold={},warm={}", hc, hw));
        // through the pipeline both refuse the child
        let (pc, pw) = (
            if rc.is_ok() { c.cold.process(&child).is_ok() } else { false },
            if rw.is_ok() { c.warm.process(&child).is_ok() } else { false },
        );
        if pc || pw {
            c.out.oracle_fail("child-of-invalid-accepted", &format!("cold={} warm={}", pc, pw));
        }
        // spent cell: bare accessor vs guarded
        let spent = cells[0].0.clone();
        let (dc, dw) = (c.cold.shared.store().get_cell_data(&spent).is_some(), c.warm.shared.store().get_cell_data(&spent).is_some());
        c.out.count(&format!("F6:bare-get_cell_data-of-spent:cold={},warm={}", dc, dw));
    }
    let mut ops: Vec<OutPoint> = cells.iter().map(|x| x.0.clone()).collect();
    for t in [&a, &s, &b_tx] {
        ops.push(OutPoint::new(t.hash(), 0));
    }
    c.compare_queries(&ops);
    let vl = c.warm.vcache_len();
    c.out.count(&format!("warm-vcache-entries={}", vl));
    let fp = format!("{:?}|{}|{}|{:?}", cfg.window, cfg.epoch_len, rel, (first_a.witness_hash() == a.witness_hash(), second_a.witness_hash() == a.witness_hash()));
    c.out.nontrivial(fp);
    let Ctx { cold, warm, .. } = c;
    drop(cold.chain);
    drop(warm.chain);
    drop(cold.shared);
    drop(warm.shared);
    drop(bld);
    let _ = std::fs::remove_dir_all(&dir);
}

/// the tx-pool path: pool submission fills the verification cache, the same transaction is then
/// committed in a block (cached path in `warm`); and the pool-vs-block cycle limits: a transaction
/// whose cycles exceed `max_tx_verify_cycles` but not the block limit is committed by a block
/// (entry produced under the block limit), detached by a reorg (`readd_detached_tx` verifies under
/// `max_tx_verify_cycles`), and submitted to the pool again (`_process_tx` verifies under
/// `max_block_cycles`, or the peer's declared cycles). Both pools must agree at every point.
fn run_pool_case(out: &mut Out, seed: u64, base: &Path, cyc: u64) {
    let mut rng = Rng::new(seed ^ 0x5151);
    out.begin_case(&format!("seed={} kind=pool", seed));
    let cfg = NodeCfg { epoch_len: rng.range(6, 10), window: (2, 10), genesis_cells: 8, ..Default::default() };
    let consensus = make_consensus(&cfg);
    let dir = base.join(format!("pool-{}", seed));
    let _ = std::fs::remove_dir_all(&dir);
    let zero = StoreConfig { header_cache_size: 0, cell_data_cache_size: 0, block_proposals_cache_size: 0, block_tx_hashes_cache_size: 0, block_uncles_cache_size: 0, block_extensions_cache_size: 0, freezer_enable: false };
    let mut tp = TxPoolConfig::default();
    // one always-success input passes the pool limit, two inputs do not (both pass the block limit)
    tp.max_tx_verify_cycles = cyc + cyc / 2;
    let cold = start_with(&dir.join("cold"), consensus.clone(), zero, Some(tp.clone()));
    let warm = start_with(&dir.join("warm"), consensus.clone(), StoreConfig::default(), Some(tp));
    let mut bld = ChainBuilder::new(consensus.clone(), &dir.join("builder"));
    let cells = genesis_cells(&consensus);
    let mut c = Ctx { out, cold, warm, ids: HashMap::new(), content: HashMap::new(), blocks: vec![], side: vec![], cyc };
    c.out.op(&format!("max {}", consensus.max_block_cycles()), "ok");
    let fee1 = 1500 + rng.below(500);
    let p1 = spend(&cells[0..1], 0, fee1, 1, None);
    // X splits a cell into two outputs with different lock args, so that T2 (spending both) runs two
    // script groups: cycles(T2) = 2 × cyc > pool limit, < block limit
    let (_, _, script) = always_success_cell();
    let fee_x = 2000 + rng.below(300);
    let half = (cells[1].1 - fee_x) / 2;
    let x = {
        let mut b = TransactionBuilder::default().cell_dep(always_success_dep()).input(CellInput::new(cells[1].0.clone(), 0));
        for (i, cap) in [(1u8, half), (2u8, cells[1].1 - fee_x - half)] {
            let lock = script.clone().as_builder().args(Bytes::from(vec![i]).pack()).build();
            b = b.output(CellOutput::new_builder().capacity(Capacity::shannons(cap)).lock(lock).build()).output_data(Bytes::new());
        }
        b.build()
    };
    let fee2 = 3000 + rng.below(500);
    let t2 = {
        let total = cells[1].1 - fee_x;
        TransactionBuilder::default()
            .cell_dep(always_success_dep())
            .input(CellInput::new(OutPoint::new(x.hash(), 0), 0))
            .input(CellInput::new(OutPoint::new(x.hash(), 1), 0))
            .output(CellOutput::new_builder().capacity(Capacity::shannons(total - fee2)).lock(script.clone()).build())
            .output_data(Bytes::new())
            .build()
    };
    c.content.insert(p1.witness_hash(), (fee1, cyc));
    c.content.insert(x.witness_hash(), (fee_x, cyc));
    c.content.insert(t2.witness_hash(), (fee2, 2 * cyc));
    let submit = |n: &N, tx: &TransactionView| -> String {
        match n.shared.tx_pool_controller().submit_local_tx(tx.clone()) {
            Ok(Ok(())) => "ok".to_string(),
            Ok(Err(r)) => {
                let d = format!("{:?}", r);
                if d.contains("ExceededMaximumCycles") || d.contains("Cycles") {
                    "err cycles".to_string()
                } else if d.contains("Duplicated") {
                    "err duplicated".to_string()
                } else {
                    format!("err {}", d.split('(').next().unwrap_or("other"))
                }
            }
            Err(e) => format!("fail {}", e),
        }
    };
    let pool_ids = |n: &N| -> Vec<String> {
        let ids = n.shared.tx_pool_controller().get_all_ids().expect("ids");
        let mut v: Vec<String> = ids.pending.iter().chain(ids.proposed.iter()).map(|h| format!("{:#x}", h)).collect();
        v.sort();
        v
    };
    let both = |c: &mut Ctx, tx: &TransactionView, label: &str| {
        c.cold.clear_vcache();
        let (rc, rw) = (submit(&c.cold, tx), submit(&c.warm, tx));
        c.out.count(&format!("pool:{}:cold={},warm={}", label, rc, rw));
        c.out.evaluations += 2;
        if rc != rw {
            c.out.oracle_fail("pool-verdict-differs", &format!("{}: cold pool (verification cache empty) answers `{}`, warm pool `{}`", label, rc, rw));
        }
    };
    let same_pools = |c: &mut Ctx, label: &str| {
        std::thread::sleep(std::time::Duration::from_millis(120));
        let (ic, iw) = (pool_ids(&c.cold), pool_ids(&c.warm));
        c.out.count(&format!("pool:{}:cold-has={},warm-has={}", label, ic.len(), iw.len()));
        if ic != iw {
            c.out.oracle_fail("pool-content-differs", &format!("{}: cold pool {:?}, warm pool {:?}", label, ic, iw));
        }
    };
    // 1. the pool path: P1 and X are verified by the pools first (entries written by the pool)
    both(&mut c, &p1, "P1-first-submission");
    both(&mut c, &x, "X-first-submission");
    let g = consensus.genesis_hash();
    let mut salt = seed * 1000 + 500;
    let mut next = |tip: &Byte32, bld: &mut ChainBuilder, txs: Vec<TransactionView>, props: Vec<ckb_types::packed::ProposalShortId>| {
        salt += 1;
        bld.build(tip, &BlockSpec { txs, proposals: props, salt, ..Default::default() })
    };
    let b1 = next(&g, &mut bld, vec![], vec![p1.proposal_short_id(), x.proposal_short_id(), t2.proposal_short_id()]);
    c.deliver(&b1, &[], "pool:prefix");
    let b2 = next(&b1.hash(), &mut bld, vec![], vec![]);
    c.deliver(&b2, &[], "pool:prefix");
    // 2. committed by a block: the warm node takes the cached path (entries from the pool)
    let n_entries = c.warm.vcache_len();
    c.out.count(&format!("pool:warm-cache-entries-written-by-pool-before-commit={}", n_entries));
    let b3 = next(&b2.hash(), &mut bld, vec![p1.clone(), x.clone()], vec![]);
    c.deliver(&b3, &[], "pool:commit-P1-X");
    same_pools(&mut c, "after-commit");
    // 3. T2 needs 2 × cyc cycles: above the pools' limit
    both(&mut c, &t2, "T2-above-max_tx_verify_cycles");
    // 4. a block commits T2 under the block limit: the warm node now holds an entry for it
    let b4 = next(&b3.hash(), &mut bld, vec![t2.clone()], vec![]);
    c.deliver(&b4, &[], "pool:commit-T2");
    // 5. a heavier branch from b3 without T2: T2 is detached and re-added by the pools
    let mut t = b3.hash();
    for _ in 0..2 {
        let b = next(&t, &mut bld, vec![], vec![]);
        c.deliver(&b, &[], "pool:reorg-branch");
        t = b.hash();
    }
    same_pools(&mut c, "after-reorg");
    // 6. T2 submitted again: entry produced under the block limit vs the pool's smaller limit
    both(&mut c, &t2, "T2-resubmitted-after-reorg");
    same_pools(&mut c, "after-resubmission");
    c.out.nontrivial(format!("pool|{}|{}", cfg.epoch_len, fee1 % 7));
    // nodes with a running tx-pool service are not torn down in-process (global exit signal); leak them
    let Ctx { cold, warm, .. } = c;
    std::mem::forget(cold);
    std::mem::forget(warm);
    drop(bld);
}

pub fn run(opts: &Opts) {
    let mut out = Out::new(&opts.out);
    let base = scratch_dir(&opts.out, "c14");
    let cyc = measure_cycles(&base);
    if let Some(p) = &opts.replay {
        let mut n = 0;
        for l in read_replay_ops(p) {
            if l.starts_with("case ") {
                if let Some(s) = l.split_whitespace().find_map(|t| t.strip_prefix("seed=")) {
                    if l.contains("kind=pool") {
                        run_pool_case(&mut out, s.parse().expect("seed"), &base, cyc);
                    } else {
                        run_case(&mut out, s.parse().expect("seed"), &base, cyc);
                    }
                    n += 1;
                }
            }
        }
        if n == 0 {
            eprintln!("replay file has no `case <n> seed=<s>` line");
            std::process::exit(2);
        }
    } else {
        let cases = if opts.thorough() { 100 * opts.scale } else { 12 * opts.scale };
        for i in 0..cases {
            run_case(&mut out, opts.seed.wrapping_mul(1_000_003).wrapping_add(i), &base, cyc);
        }
        let pool_cases = if opts.thorough() { 12 * opts.scale } else { 3 * opts.scale };
        for i in 0..pool_cases {
            run_pool_case(&mut out, opts.seed.wrapping_mul(1_000_003).wrapping_add(i), &base, cyc);
        }
    }
    let _ = std::fs::remove_dir_all(&base);
    out.finish("a case = two real nodes (store caches size 0 + verification cache emptied before every block, vs default or size-1 store caches + verification cache kept) fed the same history: transactions proposed once, committed on a first branch, then re-committed at other positions on a heavier branch (A with one of two witness sets under the same tx hash, B, and S with a relative since that is immature at one position and mature at others), one block refused for immaturity, one invalid block and its child; after the history every block hash and out-point is queried on both nodes; every case is non-trivial (it contains a reorg re-commit and a since-dependent refusal); distinct by (window, epoch length, since distance, witness variants used)");
}
