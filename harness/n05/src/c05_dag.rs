//! C05: random spawn/pipe DAG inputs for `testdata/spawn_dag` — a verbatim port of
//! `generate_data_graph` of /repo/script/src/verify/tests/ckb_latest/features_since_v2023.rs (same
//! crates: daggy + rand StdRng, so a (seed, spawns, writes) triple names the same graph as in the
//! repository's own proptest), plus the molecule schema module of testdata.
#![allow(dead_code, unused_imports, clippy::all)]
#[allow(dead_code)]
#[path = "/repo/script/testdata/spawn_dag.rs"]
pub mod dag;
use daggy::{Dag, Walker};
use molecule::prelude::*;
use rand::{Rng, SeedableRng, rngs::StdRng};
use std::collections::{BTreeMap, HashMap, HashSet, VecDeque};

/// molecule-encoded witness for `spawn_dag`
pub fn dag_witness(seed: u64, spawns: u32, writes: u32) -> Vec<u8> {
    generate_data_graph(seed, spawns, writes, 3).as_bytes().to_vec()
}

pub fn generate_data_graph(
    seed: u64,
    spawns: u32,
    writes: u32,
    converging_threshold: u32,
) -> dag::Data {
    let mut rng = StdRng::seed_from_u64(seed);

    let mut spawn_dag: Dag<(), ()> = Dag::new();
    let mut write_dag: Dag<(), ()> = Dag::new();

    // Root node denoting entrypoint VM
    let spawn_root = spawn_dag.add_node(());
    let write_root = write_dag.add_node(());
    assert_eq!(spawn_root.index(), 0);
    assert_eq!(write_root.index(), 0);

    let mut spawn_nodes = vec![spawn_root];
    let mut write_nodes = vec![write_root];

    for _ in 1..=spawns {
        let write_node = write_dag.add_node(());
        write_nodes.push(write_node);

        let previous_node = spawn_nodes[rng.gen_range(0..spawn_nodes.len())];
        let (_, spawn_node) = spawn_dag.add_child(previous_node, (), ());
        spawn_nodes.push(spawn_node);
    }

    let mut write_edges = Vec::new();
    if spawns > 0 {
        for _ in 1..=writes {
            let mut updated = false;

            for _ in 0..converging_threshold {
                let first_index = rng.gen_range(0..write_nodes.len());
                let second_index = {
                    let mut i = first_index;
                    while i == first_index {
                        i = rng.gen_range(0..write_nodes.len());
                    }
                    i
                };

                let first_node = write_nodes[first_index];
                let second_node = write_nodes[second_index];

                if let Ok(e) = write_dag.add_edge(first_node, second_node, ()) {
                    write_edges.push(e);
                    updated = true;
                    break;
                }
            }

            if !updated {
                break;
            }
        }
    }

    // Edge index -> pipe indices. Daggy::edge_endpoints helps us finding
    // nodes (vms) from edges (spawns)
    let mut spawn_ops: HashMap<usize, Vec<usize>> = HashMap::default();
    // Node index -> created pipes
    let mut pipes_ops: BTreeMap<usize, Vec<(usize, usize)>> = BTreeMap::default();

    let mut spawn_edges = Vec::new();
    // Traversing spawn_dag for spawn operations
    let mut processing = VecDeque::from([spawn_root]);
    while !processing.is_empty() {
        let node = processing.pop_front().unwrap();
        pipes_ops.insert(node.index(), Vec::new());
        let children: Vec<_> = spawn_dag.children(node).iter(&spawn_dag).collect();
        for (e, n) in children.into_iter().rev() {
            spawn_ops.insert(e.index(), Vec::new());
            spawn_edges.push(e);

            processing.push_back(n);
        }
    }

    let mut writes_builder = dag::WritesBuilder::default();
    // Traversing all edges in write_dag
    for e in write_edges {
        let (writer, reader) = write_dag.edge_endpoints(e).unwrap();
        assert_ne!(writer, reader);
        let writer_pipe_index = e.index() * 2 + 1;
        let reader_pipe_index = e.index() * 2;

        // Generate finalized write op
        {
            let data_len = rng.gen_range(1..=1024);
            let mut data = vec![0u8; data_len];
            rng.fill(&mut data[..]);

            writes_builder = writes_builder.push(
                dag::WriteBuilder::default()
                    .from(build_vm_index(writer.index() as u64))
                    .from_fd(build_fd_index(writer_pipe_index as u64))
                    .to(build_vm_index(reader.index() as u64))
                    .to_fd(build_fd_index(reader_pipe_index as u64))
                    .data(
                        dag::BytesBuilder::default()
                            .extend(data.iter().map(|b| Byte::new(*b)))
                            .build(),
                    )
                    .build(),
            );
        }

        // Finding the lowest common ancestor of writer & reader nodes
        // in spawn_dag, which will creates the pair of pipes. Note that
        // all traversed spawn edges will have to pass the pipes down.
        //
        // TODO: we use a simple yet slow LCA solution, a faster algorithm
        // can be used to replace the code here if needed.
        let ancestor = {
            let mut a = writer;
            let mut b = reader;

            let mut set_a = HashSet::new();
            set_a.insert(a);
            let mut set_b = HashSet::new();
            set_b.insert(b);

            loop {
                let parents_a: Vec<_> = spawn_dag.parents(a).iter(&spawn_dag).collect();
                let parents_b: Vec<_> = spawn_dag.parents(b).iter(&spawn_dag).collect();

                assert!(
                    ((parents_a.len() == 1) && (parents_b.len() == 1))
                        || (parents_a.is_empty() && (parents_b.len() == 1))
                        || ((parents_a.len() == 1) && parents_b.is_empty())
                );

                // Update spawn ops to pass down pipes via edges, also update
                // each node's path node list
                if parents_a.len() == 1 {
                    let (_, parent_a) = parents_a[0];
                    set_a.insert(parent_a);

                    a = parent_a;
                }
                if parents_b.len() == 1 {
                    let (_, parent_b) = parents_b[0];
                    set_b.insert(parent_b);

                    b = parent_b;
                }

                // Test for ancestor
                if parents_a.len() == 1 {
                    let (_, parent_a) = parents_a[0];
                    if set_b.contains(&parent_a) {
                        break parent_a;
                    }
                }
                if parents_b.len() == 1 {
                    let (_, parent_b) = parents_b[0];
                    if set_a.contains(&parent_b) {
                        break parent_b;
                    }
                }
            }
        };

        // Update the path from each node to the LCA so we can pass created
        // pipes from LCA to each node
        {
            let mut a = writer;
            while a != ancestor {
                let parents_a: Vec<_> = spawn_dag.parents(a).iter(&spawn_dag).collect();
                assert!(parents_a.len() == 1);
                let (edge_a, parent_a) = parents_a[0];
                spawn_ops
                    .get_mut(&edge_a.index())
                    .unwrap()
                    .push(writer_pipe_index);
                a = parent_a;
            }

            let mut b = reader;
            while b != ancestor {
                let parents_b: Vec<_> = spawn_dag.parents(b).iter(&spawn_dag).collect();
                assert!(parents_b.len() == 1);
                let (edge_b, parent_b) = parents_b[0];
                spawn_ops
                    .get_mut(&edge_b.index())
                    .unwrap()
                    .push(reader_pipe_index);
                b = parent_b;
            }
        }

        // Create the pipes at the ancestor node
        pipes_ops
            .get_mut(&ancestor.index())
            .unwrap()
            .push((reader_pipe_index, writer_pipe_index));
    }

    let mut spawns_builder = dag::SpawnsBuilder::default();
    for e in spawn_edges {
        let (parent, child) = spawn_dag.edge_endpoints(e).unwrap();

        let pipes = {
            let mut builder = dag::FdIndicesBuilder::default();
            for p in &spawn_ops[&e.index()] {
                builder = builder.push(build_fd_index(*p as u64));
            }
            builder.build()
        };

        spawns_builder = spawns_builder.push(
            dag::SpawnBuilder::default()
                .from(build_vm_index(parent.index() as u64))
                .child(build_vm_index(child.index() as u64))
                .fds(pipes)
                .build(),
        );
    }

    let mut pipes_builder = dag::PipesBuilder::default();
    for (vm_index, pairs) in pipes_ops {
        for (reader_pipe_index, writer_pipe_index) in pairs {
            pipes_builder = pipes_builder.push(
                dag::PipeBuilder::default()
                    .vm(build_vm_index(vm_index as u64))
                    .read_fd(build_fd_index(reader_pipe_index as u64))
                    .write_fd(build_fd_index(writer_pipe_index as u64))
                    .build(),
            );
        }
    }

    dag::DataBuilder::default()
        .spawns(spawns_builder.build())
        .pipes(pipes_builder.build())
        .writes(writes_builder.build())
        .build()
}

fn build_vm_index(val: u64) -> dag::VmIndex {
    let mut data = [Byte::new(0); 8];
    for (i, v) in val.to_le_bytes().into_iter().enumerate() {
        data[i] = Byte::new(v);
    }
    dag::VmIndexBuilder::default().set(data).build()
}

fn build_fd_index(val: u64) -> dag::FdIndex {
    let mut data = [Byte::new(0); 8];
    for (i, v) in val.to_le_bytes().into_iter().enumerate() {
        data[i] = Byte::new(v);
    }
    dag::FdIndexBuilder::default().set(data).build()
}
