//! C05 `sched` op: the scheduler bookkeeping of script/src/scheduler.rs compared line by line with
//! lean/CkbVerif/Model/SchedBook.lean on the PRODUCTION path (`resumable_verify` /
//! `resume_from_state` → `chunk_run` → `Scheduler::{resume, run(LimitCycles), suspend}`).
//!
//! The `verif_hook` trace of ckb-script gives, in order: every VM run of `iterate_inner` (VM id,
//! cycles on its machine, how it stopped), every message taken from the message box, every
//! `suspend_vm` / `resume_vm` call, every `process_io` scan and transfer. The VM runs and messages
//! are the INPUT of the model (the VMs are opaque to it); everything the scheduler decides is its
//! OUTPUT and is compared: the order of suspend_vm / resume_vm calls, the process_io scans and
//! transfers, the complete bookkeeping of every `FullSuspendedState` (total and iteration cycles, id
//! counters, instantiated ids, VM states, fds with owners, inherited fds, terminated VMs), where
//! each API call stops, and the final result (exit code, total cycles / deadlock).
//!
//!   sched <l1,l2,…> <tok>…     -> <out>…   (see lean/CkbVerif/Driver/C05Sched.lean)
use super::*;
use ckb_script::types::FullSuspendedState;

fn dot(v: Vec<String>) -> String {
    if v.is_empty() { "-".into() } else { v.join(".") }
}

fn show_full(f: &FullSuspendedState) -> String {
    let vms = f.vms.iter().map(|(id, st, _)| match st {
        VmState::Runnable => format!("{id}R"),
        VmState::Terminated => format!("{id}T"),
        VmState::Wait { target_vm_id, .. } => format!("{id}W{target_vm_id}"),
        VmState::WaitForWrite(w) => format!("{id}Ww{}/{}/{}", w.fd.0, w.consumed, w.length),
        VmState::WaitForRead(r) => format!("{id}Wr{}/{}", r.fd.0, r.length),
    }).collect();
    let inh = f.inherited_fd.iter().map(|(id, fds)| format!("{id}:{}", if fds.is_empty() { "-".to_string() } else { fds.iter().map(|x| x.0.to_string()).collect::<Vec<_>>().join("+") })).collect();
    format!(
        "S[t={},i={},nv={},nf={},inst={},vms={},fds={},inh={},term={}]",
        f.total_cycles,
        f.iteration_cycles,
        f.next_vm_id,
        f.next_fd_slot,
        dot(f.instantiated_ids.iter().map(|x| x.to_string()).collect()),
        dot(vms),
        dot(f.fds.iter().map(|(fd, o)| format!("{}>{o}", fd.0)).collect()),
        dot(inh),
        dot(f.terminated_vms.iter().map(|(id, c)| format!("{id}:{c}")).collect())
    )
}

/// hook lines → (input tokens for the model, output tokens of the implementation)
fn split_trace(lines: Vec<String>, inputs: &mut Vec<String>, outputs: &mut Vec<String>, cum: &mut u64, yields: &mut Vec<(String, u64)>) {
    for l in lines {
        let t: Vec<&str> = l.split(' ').collect();
        match t[0] {
            "run" | "sv" | "rv" => *cum = cum.saturating_add(if t[0] == "run" { t[2].parse().unwrap() } else { 100_000 }),
            "m" => yields.push((t[1].to_string(), *cum)),
            _ => {}
        }
        match t[0] {
            "run" => {
                let k = match t[3] {
                    "yield" => "y".to_string(),
                    "exceeded" => "c".to_string(),
                    "pause" => "p".to_string(),
                    "err" => "e".to_string(),
                    x => format!("x{}", x.strip_prefix("exit:").expect("exit:<code>")),
                };
                inputs.push(format!("r:{}:{}:{k}", t[1], t[2]));
            }
            "m" => inputs.push(format!("m:{}", t[1..].join(":"))),
            "sv" => outputs.push(format!("sv{}", t[1])),
            "rv" => outputs.push(format!("rv{}", t[1])),
            "io-scan" => outputs.push(format!("scan:{}:{}", t[1], t[2])),
            "io" => outputs.push(format!("io:{}:{}:{}", t[1], t[2], t[3])),
            _ => panic!("C05 sched: unknown hook line {l:?}"),
        }
    }
}

pub(super) struct SchedRun {
    pub op: String,
    pub answer: String,
    pub rounds: u64,
    pub states: Vec<FullSuspendedState>,
    pub r: Result<u64, ckb_error::Error>,
    pub max_vms: usize,
    pub swaps: usize,
    pub ios: usize,
    /// the suspended state the last call started from
    pub from: Option<TransactionState>,
    /// suspended states on the way in which servable pipe IO was left unserved
    pub io_skipped: u64,
    /// (message kind, total cycles consumed when the VM run that sent it ended) for every message
    pub yields: Vec<(String, u64)>,
}

/// one traced chunked run over `limits` (last one repeated; a call that makes no progress is followed
/// by calls with a doubling extra allowance). None: not applicable (more than one script group, a
/// TYPE_ID group, no end within the round cap)
pub(super) fn sched_run(c: &Case, limits: &[u64]) -> Option<SchedRun> {
    // programs that end in a VM error report it through `as_group_vm_error`; everything else is traced
    let v = &c.v;
    let mut inputs: Vec<String> = vec![];
    let mut outputs: Vec<String> = vec![];
    let mut used: Vec<u64> = vec![];
    let mut states = vec![];
    let mut state: Option<TransactionState> = None;
    let mut boost = 0u64;
    let mut last: Option<u64> = None;
    let mut i = 0usize;
    let (mut cum, mut yields, mut io_skipped) = (0u64, vec![], 0u64);
    ckb_script::verif_hook::start();
    let r = loop {
        let l = limits[i.min(limits.len() - 1)].saturating_add(boost);
        i += 1;
        used.push(l);
        let r = match &state {
            None => v.resumable_verify(l),
            Some(s) => v.resume_from_state(s, l),
        };
        split_trace(ckb_script::verif_hook::drain(), &mut inputs, &mut outputs, &mut cum, &mut yields);
        match r {
            Err(e) => break Err(e),
            Ok(VerifyResult::Completed(n)) => break Ok(n),
            Ok(VerifyResult::Suspended(s)) => {
                if servable_io(&s) {
                    io_skipped += 1;
                }
                inputs.push("|".into());
                // the TransactionState: group index, cycles of the completed groups, recorded limit
                outputs.push(format!("T[g={},cur={},lim={}]", s.current, s.current_cycles, s.limit_cycles));
                let pos = (s.current as u64) << 48 | s.state.as_ref().map(|f| f.total_cycles).unwrap_or(0);
                match &s.state {
                    Some(f) => {
                        outputs.push(show_full(f));
                        states.push(f.clone());
                    }
                    // ChunkState::suspended_type_id(): the system script keeps no state
                    None => outputs.push("S-".into()),
                }
                if last == Some(pos) { boost = (boost * 2).max(1) } else { boost = 0 }
                last = Some(pos);
                state = Some(s);
            }
        }
        if used.len() >= 600 {
            ckb_script::verif_hook::stop();
            return None;
        }
    };
    ckb_script::verif_hook::stop();
    // final result with the group the error is attributed to
    outputs.push(match &r {
        Ok(n) => format!("done:0:{n}"),
        Err(e) => match e.downcast_ref::<TransactionScriptError>().map(|t| t.script_error()) {
            Some(ScriptError::ValidationFailure(_, code)) => format!("done:{code}@{}", group_of(&c.groups, e)),
            Some(ScriptError::Other(_)) => "end:other".to_string(),
            Some(ScriptError::CyclesOverflow(..)) => "end:overflow".to_string(),
            _ if is_deadlock(e) => format!("end:deadlock@{}", group_of(&c.groups, e)),
            _ => format!("end:err@{}", group_of(&c.groups, e)),
        },
    });
    let max_vms = states.iter().map(|f| f.vms.len()).max().unwrap_or(1);
    let swaps = outputs.iter().filter(|o| o.starts_with("sv") || o.starts_with("rv")).count();
    let ios = outputs.iter().filter(|o| o.starts_with("io:")).count();
    Some(SchedRun {
        op: format!("sched {} {}", used.iter().map(|x| x.to_string()).collect::<Vec<_>>().join(","), inputs.join(" ")),
        answer: outputs.join(" "),
        rounds: used.len() as u64,
        states,
        r,
        max_vms,
        swaps,
        ios,
        from: state,
        io_skipped,
        yields,
    })
}

/// model-independent sanity of an observed suspended state: at most MAX_INSTANTIATED_VMS
/// instantiated, instantiated ⊆ live VMs, every fd is owned by a live VM, inherited fds only for live
/// or past VMs below next_vm_id, no live VM is listed as terminated-and-collected twice
pub(super) fn state_broken(f: &FullSuspendedState) -> Option<String> {
    let live: Vec<u64> = f.vms.iter().map(|(id, _, _)| *id).collect();
    // after the root VM has terminated every other VM is purged from `states` while `fds` is left as
    // it was (the run is over): nothing to check there
    if f.vms.iter().any(|(_, st, _)| matches!(st, VmState::Terminated)) {
        return None;
    }
    if f.instantiated_ids.len() > 4 {
        return Some(format!("{} VMs instantiated", f.instantiated_ids.len()));
    }
    if let Some(x) = f.instantiated_ids.iter().find(|x| !live.contains(x)) {
        return Some(format!("instantiated VM {x} is not a live VM"));
    }
    if let Some((fd, o)) = f.fds.iter().find(|(_, o)| !live.contains(o)) {
        return Some(format!("fd {} is owned by VM {o}, which is not live", fd.0));
    }
    if let Some(x) = live.iter().find(|x| **x >= f.next_vm_id) {
        return Some(format!("live VM {x} >= next_vm_id {}", f.next_vm_id));
    }
    if let Some((fd, _)) = f.fds.iter().find(|(fd, _)| fd.0 >= f.next_fd_slot) {
        return Some(format!("fd {} >= next_fd_slot {}", fd.0, f.next_fd_slot));
    }
    None
}
