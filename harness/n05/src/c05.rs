//! C05 — script verdict and cycle count do not depend on how execution is chunked.
//!
//! Drives the real `ckb_script::TransactionScriptsVerifier` on the repo's own RISC-V test programs
//! (`/repo/script/testdata`, plus `always_success` of ckb-test-chain-utils) in mock resolved
//! transactions: one-shot `verify`, `resumable_verify` + `resume_from_state` over limit schedules
//! driven to completion, `resumable_verify` + `complete`, `resumable_verify_with_signal` with
//! Suspend/Resume at random instants; budgets C−1, C, C+1 around the measured cost C.
//!
//! Line protocol (model side: lean/CkbVerif/Driver/C05.lean):
//!   prog <name> <cost:code,...>        per script group, measured with unlimited one-shot runs
//!   verify <B>                          -> ok <cycles> | exceeded | fail <code> | other
//!   chunks <L1,L2,...>                  resumable_verify(L1), resume_from_state(L2) ... (last limit
//!                                       repeated) until completed -> final result
//!   complete <L> <B> <idx> <p>          resumable_verify(L) suspended in group idx with p cycles
//!                                       consumed inside it (observed), then complete(state, B)
//!   signal <B> <idx> <p>                not generated (pause points are not observable); signal runs
//!                                       are `note` lines checked by the oracle only
//!   note <text>                         -> ok
use crate::common::*;
use ckb_chain_spec::consensus::{Consensus, ConsensusBuilder};
use ckb_script::{ChunkCommand, ScriptError, ScriptVersion, TransactionScriptError, TransactionScriptsVerifier, TransactionState, TxVerifyEnv, VerifyResult};
use ckb_traits::{CellDataProvider, ExtensionProvider, HeaderProvider};
use ckb_types::bytes::Bytes;
use ckb_types::core::cell::{CellMeta, CellMetaBuilder, ResolvedTransaction};
use ckb_types::core::{Capacity, EpochNumberWithFraction, HeaderView, TransactionBuilder, TransactionInfo};
use ckb_types::packed::{self, Byte32, CellInput, CellOutput, OutPoint, Script};
use ckb_types::prelude::*;
use std::sync::Arc;

#[derive(Clone)]
struct NoData;
impl CellDataProvider for NoData {
    fn get_cell_data(&self, _out_point: &OutPoint) -> Option<Bytes> {
        None
    }
    fn get_cell_data_hash(&self, _out_point: &OutPoint) -> Option<Byte32> {
        None
    }
}
impl HeaderProvider for NoData {
    fn get_header(&self, _hash: &Byte32) -> Option<HeaderView> {
        None
    }
}
impl ExtensionProvider for NoData {
    fn get_block_extension(&self, _hash: &Byte32) -> Option<packed::Bytes> {
        None
    }
}

type Verifier = TransactionScriptsVerifier<NoData>;

fn load(name: &str) -> Bytes {
    if name == "always_success" {
        let (_, data, _) = ckb_test_chain_utils::always_success_cell();
        return data.clone();
    }
    Bytes::from(std::fs::read(format!("/repo/script/testdata/{name}")).unwrap_or_else(|e| panic!("testdata {name}: {e}")))
}

fn code_cell(data: Bytes, k: u32) -> (CellMeta, Byte32) {
    let out = CellOutput::new_builder().capacity(Capacity::bytes(data.len()).unwrap()).build();
    let meta = CellMetaBuilder::from_cell_output(out, data)
        .out_point(OutPoint::new(Byte32::zero(), 100 + k))
        .transaction_info(TransactionInfo::new(1, EpochNumberWithFraction::new(0, 1, 10), Byte32::zero(), 1))
        .build();
    let h = meta.mem_cell_data_hash.clone().unwrap();
    (meta, h)
}

/// a program set: (lock program, other programs that must be in the cell deps, version, extra type-script programs on outputs)
struct Prog {
    name: &'static str,
    lock: &'static str,
    deps: &'static [&'static str],
    version: ScriptVersion,
    types: &'static [&'static str],
}

const PROGS: &[Prog] = &[
    Prog { name: "as-v0", lock: "always_success", deps: &[], version: ScriptVersion::V0, types: &[] },
    Prog { name: "as-v1", lock: "always_success", deps: &[], version: ScriptVersion::V1, types: &[] },
    Prog { name: "as-v2", lock: "always_success", deps: &[], version: ScriptVersion::V2, types: &[] },
    Prog { name: "as-3groups", lock: "always_success", deps: &[], version: ScriptVersion::V2, types: &["always_success", "vm_version_2"] },
    Prog { name: "failure", lock: "always_failure", deps: &[], version: ScriptVersion::V1, types: &[] },
    Prog { name: "as-then-failure", lock: "always_success", deps: &[], version: ScriptVersion::V1, types: &["always_failure"] },
    Prog { name: "strcat", lock: "spawn_caller_strcat", deps: &["spawn_callee_strcat"], version: ScriptVersion::V2, types: &[] },
    Prog { name: "strcat-wrap", lock: "spawn_caller_strcat_wrap", deps: &["spawn_caller_strcat", "spawn_callee_strcat"], version: ScriptVersion::V2, types: &[] },
    Prog { name: "spawn-cycles", lock: "spawn_caller_current_cycles", deps: &["spawn_callee_current_cycles"], version: ScriptVersion::V2, types: &[] },
    Prog { name: "spawn-exec", lock: "spawn_caller_exec", deps: &["spawn_callee_exec_caller", "spawn_callee_exec_callee"], version: ScriptVersion::V2, types: &[] },
    Prog { name: "spawn-recursive", lock: "spawn_recursive", deps: &[], version: ScriptVersion::V2, types: &[] },
    Prog { name: "spawn-17", lock: "spawn_create_17_spawn", deps: &[], version: ScriptVersion::V2, types: &[] },
    Prog { name: "spawn-io-cycles", lock: "spawn_io_cycles", deps: &[], version: ScriptVersion::V2, types: &[] },
    Prog { name: "spawn-huge-swap", lock: "spawn_huge_swap", deps: &[], version: ScriptVersion::V2, types: &[] },
    Prog { name: "spawn-saturate", lock: "spawn_saturate_memory", deps: &[], version: ScriptVersion::V2, types: &[] },
    Prog { name: "exec-cell", lock: "exec_caller_from_cell_data", deps: &["exec_callee"], version: ScriptVersion::V1, types: &[] },
    Prog { name: "exec-cell-v2", lock: "exec_caller_from_cell_data", deps: &["exec_callee"], version: ScriptVersion::V2, types: &[] },
    Prog { name: "current-cycles", lock: "current_cycles", deps: &[], version: ScriptVersion::V1, types: &[] },
    Prog { name: "vm-version", lock: "vm_version", deps: &[], version: ScriptVersion::V1, types: &[] },
    Prog { name: "vm-version-2", lock: "vm_version_2", deps: &[], version: ScriptVersion::V2, types: &[] },
    Prog { name: "mop-adc", lock: "mop_adc_lock", deps: &[], version: ScriptVersion::V1, types: &[] },
    Prog { name: "cpop", lock: "cpop_lock", deps: &[], version: ScriptVersion::V1, types: &[] },
    Prog { name: "load-arith", lock: "load_arithmetic", deps: &[], version: ScriptVersion::V1, types: &[] },
    Prog { name: "spawn-then-as", lock: "spawn_caller_strcat", deps: &["spawn_callee_strcat"], version: ScriptVersion::V2, types: &["always_success", "spawn_recursive"] },
];

fn build(p: &Prog) -> ResolvedTransaction {
    let mut deps = vec![];
    let mut k = 0u32;
    let mut add = |name: &str, deps: &mut Vec<CellMeta>| -> Byte32 {
        let (m, h) = code_cell(load(name), k);
        k += 1;
        deps.push(m);
        h
    };
    let lock_hash = add(p.lock, &mut deps);
    for d in p.deps {
        add(d, &mut deps);
    }
    let lock = Script::new_builder().hash_type(p.version.data_hash_type()).code_hash(lock_hash).build();
    let input_cell = CellOutput::new_builder().capacity(Capacity::shannons(100_000_000_000)).lock(lock).build();
    let mut tb = TransactionBuilder::default().input(CellInput::new(OutPoint::new(Byte32::zero(), 7), 0));
    for (i, t) in p.types.iter().enumerate() {
        let h = add(t, &mut deps);
        // distinct args make distinct groups even for the same program
        let ty = Script::new_builder().hash_type(p.version.data_hash_type()).code_hash(h).args(Bytes::from(vec![i as u8]).pack()).build();
        let (_, _, as_lock) = ckb_test_chain_utils::always_success_cell();
        tb = tb
            .output(CellOutput::new_builder().capacity(Capacity::shannons(10_000_000_000)).lock(as_lock.clone()).type_(Some(ty)).build())
            .output_data(Bytes::new());
    }
    let input_meta = CellMetaBuilder::from_cell_output(input_cell, Bytes::new())
        .out_point(OutPoint::new(Byte32::zero(), 7))
        .transaction_info(TransactionInfo::new(1, EpochNumberWithFraction::new(0, 1, 10), Byte32::zero(), 1))
        .build();
    ResolvedTransaction { transaction: tb.build(), resolved_cell_deps: deps, resolved_inputs: vec![input_meta], resolved_dep_groups: vec![] }
}

fn verifier(rtx: &ResolvedTransaction, consensus: &Arc<Consensus>) -> Verifier {
    let header = HeaderView::new_advanced_builder().epoch(EpochNumberWithFraction::new(5, 0, 10)).number(50).build();
    TransactionScriptsVerifier::new(Arc::new(rtx.clone()), NoData, Arc::clone(consensus), Arc::new(TxVerifyEnv::new_commit(&header)))
}

fn class_of(e: &ckb_error::Error) -> String {
    match e.downcast_ref::<TransactionScriptError>().map(|t| t.script_error()) {
        Some(ScriptError::ExceededMaximumCycles(_)) => "exceeded".into(),
        Some(ScriptError::ValidationFailure(_, code)) => format!("fail {code}"),
        Some(ScriptError::Other(_)) => "other".into(),
        Some(ScriptError::CyclesOverflow(..)) => "overflow".into(),
        Some(ScriptError::Interrupts) => "interrupts".into(),
        Some(ScriptError::VMInternalError(e)) => { if std::env::var("VERIF_SHOW_PANIC").is_ok() { eprintln!("vm internal error: {e:?}"); } format!("vm-error:{}", format!("{e:?}").split(['(', ' ']).next().unwrap_or("?")) }
        Some(other) => format!("script-error:{}", format!("{other:?}").split(['(', ' ']).next().unwrap_or("?")),
        None => "non-script-error".into(),
    }
}

fn show(r: &Result<u64, ckb_error::Error>) -> String {
    match r {
        Ok(c) => format!("ok {c}"),
        Err(e) => class_of(e),
    }
}

/// per-group (cost, exit code) with unlimited budget; None if some group ends in a VM error
fn measure(v: &Verifier) -> Option<Vec<(u64, i8)>> {
    let mut out = vec![];
    for (hash, g) in v.groups() {
        match v.verify_single(g.group_type, hash, 200_000_000) {
            Ok(c) => out.push((c, 0)),
            Err(ScriptError::ValidationFailure(_, code)) => out.push((0, code)),
            Err(e) => {
                if std::env::var("VERIF_SHOW_PANIC").is_ok() {
                    eprintln!("measure: group does not run: {e:?}");
                }
                return None;
            }
        }
    }
    Some(out)
}

struct Case {
    v: Verifier,
    groups: Vec<(u64, i8)>,
    total: u64,
    all_ok: bool,
}

fn drive_chunks(v: &Verifier, limits: &[u64]) -> (Result<u64, ckb_error::Error>, u64) {
    let mut i = 0;
    let mut state: Option<TransactionState> = None;
    let mut rounds = 0u64;
    // a limit below the cost of the next atomic step (e.g. the initial program load) makes no
    // progress: the driver then doubles an extra allowance until the run moves again
    let mut boost = 0u64;
    let mut last: Option<(usize, u64)> = None;
    loop {
        let l = limits[i.min(limits.len() - 1)].saturating_add(boost);
        i += 1;
        rounds += 1;
        let r = match &state {
            None => v.resumable_verify(l),
            Some(s) => v.resume_from_state(s, l),
        };
        match r {
            Err(e) => return (Err(e), rounds),
            Ok(VerifyResult::Completed(c)) => return (Ok(c), rounds),
            Ok(VerifyResult::Suspended(s)) => {
                let pos = (s.current, s.state.as_ref().map(|f| f.total_cycles).unwrap_or(0));
                if last == Some(pos) {
                    boost = (boost * 2).max(1);
                } else {
                    boost = 0;
                }
                last = Some(pos);
                state = Some(s);
            }
        }
        if rounds >= 3000 {
            return (Err(ScriptError::Other("verif: chunk drive made no end in 3000 rounds".into()).unknown_source().into()), rounds);
        }
    }
}

fn exec_case(lines: &[String], out: &mut Out, consensus: &Arc<Consensus>, rt: &tokio::runtime::Runtime) {
    let mut case: Option<Case> = None;
    for line in lines {
        let t: Vec<&str> = line.split(' ').collect();
        match t[0] {
            "prog" => {
                let p = PROGS.iter().find(|p| p.name == t[1]).unwrap_or_else(|| panic!("unknown program {}", t[1]));
                let rtx = build(p);
                let v = verifier(&rtx, consensus);
                let groups = measure(&v).unwrap_or_else(|| panic!("program {} does not run", p.name));
                let shown: Vec<String> = groups.iter().map(|(c, e)| format!("{c}:{e}")).collect();
                assert_eq!(shown.join(","), t[2], "program {} measures differently on replay", p.name);
                let total = groups.iter().map(|g| g.0).sum();
                let all_ok = groups.iter().all(|g| g.1 == 0);
                case = Some(Case { v, groups, total, all_ok });
                out.op(line, "ok");
            }
            "note" => out.op(line, "ok"),
            "verify" => {
                let c = case.as_ref().expect("prog first");
                let b: u64 = t[1].parse().unwrap();
                let r = c.v.verify(b);
                out.op(line, &show(&r));
                out.count("op:verify");
                oracle_budget(out, c, "verify", b, &r, line);
            }
            "chunks" => {
                let c = case.as_ref().expect("prog first");
                let limits: Vec<u64> = t[1].split(',').map(|x| x.parse().unwrap()).collect();
                let (r, rounds) = drive_chunks(&c.v, &limits);
                let one = c.v.verify(u64::MAX);
                if show(&one) != show(&r) {
                    // deviation (known finding F20 family): reported by the oracle below; the op line
                    // carries the observed class so that the model stream stays aligned
                    out.op(&format!("{} dev={}", t[..2].join(" "), show(&r).replace(' ', "_")), &show(&r));
                } else {
                    out.op(&t[..2].join(" "), &show(&r));
                }
                out.count("op:chunks");
                if rounds > 1 {
                    out.nontrivial(format!("chunks/{}/{}", t[1].len().min(12), rounds.min(64)));
                }
                // oracle: any partition driven to completion = the unlimited one-shot run
                if show(&one) != show(&r) {
                    out.oracle_fail("chunked-differs-from-oneshot", &format!("oneshot={} chunked={} rounds={rounds} op={line}", show(&one), show(&r)));
                }
            }
            "complete" => {
                let c = case.as_ref().expect("prog first");
                let (l, b): (u64, u64) = (t[1].parse().unwrap(), t[2].parse().unwrap());
                match c.v.resumable_verify(l) {
                    Ok(VerifyResult::Suspended(s)) => {
                        let p = s.state.as_ref().map(|f| f.total_cycles).unwrap_or(0);
                        assert_eq!((s.current as u64, p), (t[3].parse().unwrap(), t[4].parse().unwrap()), "suspension point differs on replay");
                        let r = c.v.complete(&s, b);
                        out.op(line, &show(&r));
                        out.count("op:complete");
                        out.nontrivial(format!("complete/{}/{}", s.current, show(&r).split(' ').next().unwrap()));
                        oracle_budget(out, c, "complete", b, &r, line);
                    }
                    Ok(VerifyResult::Completed(n)) => out.op(line, &format!("completed-early {n}")),
                    Err(e) => out.op(line, &class_of(&e)),
                }
            }
            _ => panic!("C05: bad op {line:?}"),
        }
    }
    let _ = rt;
}

/// the budget clause of the property on the implementation's own answers
fn oracle_budget(out: &mut Out, c: &Case, entry: &str, b: u64, r: &Result<u64, ckb_error::Error>, line: &str) {
    if !c.all_ok {
        return;
    }
    if b < c.total {
        if let Ok(n) = r {
            out.oracle_fail(&format!("{entry}-succeeds-below-cost"), &format!("budget={b} cost={} returned=ok {n} op={line}", c.total));
        } else if show(r) != "exceeded" {
            out.count(&format!("{entry}:below-cost-error-not-exceeded"));
        }
    } else if show(r) != format!("ok {}", c.total) {
        out.oracle_fail(&format!("{entry}-differs-with-sufficient-budget"), &format!("budget={b} cost={} returned={} op={line}", c.total, show(r)));
    }
}

/// signal path: Suspend/Resume at random instants; returns the result
fn run_signal(rt: &tokio::runtime::Runtime, v: &Verifier, budget: u64, rng: &mut Rng, toggles: u64) -> Result<u64, ckb_error::Error> {
    let (tx, mut rx) = tokio::sync::watch::channel(ChunkCommand::Resume);
    let delays: Vec<u64> = (0..toggles * 2).map(|_| rng.below(400)).collect();
    let h = std::thread::spawn(move || {
        for (i, d) in delays.iter().enumerate() {
            std::thread::sleep(std::time::Duration::from_micros(*d));
            let _ = tx.send(if i % 2 == 0 { ChunkCommand::Suspend } else { ChunkCommand::Resume });
        }
        // keep the sender alive until the verifier is done
        std::thread::sleep(std::time::Duration::from_millis(3000));
        drop(tx);
    });
    let r = rt.block_on(async { v.resumable_verify_with_signal(budget, &mut rx).await });
    drop(h); // detached; it ends by itself
    r
}

fn gen_case(p: &Prog, rng: &mut Rng, thorough: bool, consensus: &Arc<Consensus>) -> Option<Vec<String>> {
    let rtx = build(p);
    let v = verifier(&rtx, consensus);
    let groups = measure(&v)?;
    let total: u64 = groups.iter().map(|g| g.0).sum();
    let heavy_prog = ["spawn-recursive", "spawn-io-cycles", "spawn-huge-swap", "spawn-saturate", "strcat-wrap", "spawn-17"].contains(&p.name);
    if !thorough && (total > 3_000_000 || heavy_prog) {
        return None; // long-running programs: thorough tier only
    }
    let all_ok = groups.iter().all(|g| g.1 == 0);
    let mut lines = vec![format!("prog {} {}", p.name, groups.iter().map(|(c, e)| format!("{c}:{e}")).collect::<Vec<_>>().join(","))];
    // budgets
    if all_ok {
        for b in [total.saturating_sub(1), total, total + 1, 0, total / 2, u64::MAX] {
            lines.push(format!("verify {b}"));
        }
        let mut acc = 0;
        for g in &groups {
            acc += g.0;
            for b in [acc.saturating_sub(1), acc] {
                lines.push(format!("verify {b}"));
            }
        }
    } else {
        lines.push(format!("verify {}", u64::MAX));
    }
    // chunk schedules driven to completion
    if !all_ok {
        // cost unknown (the one-shot error carries no cycles): coarse schedules only
        let heavy = ["spawn-recursive", "spawn-io-cycles", "spawn-huge-swap", "spawn-saturate", "strcat-wrap", "spawn-17"].contains(&p.name);
        let ls: &[&str] = if heavy { &["50000000"] } else { &["5000", "1000000", "200000,400000", "30000,70000,110000"] };
        for l in ls {
            lines.push(format!("chunks {l}"));
        }
        return Some(lines);
    }
    let exhaustive = total <= 4096;
    if exhaustive {
        let step = if thorough { 1 } else { 7 };
        let mut l = 1;
        while l <= total + 1 {
            lines.push(format!("chunks {l}"));
            l += step;
        }
    }
    let n_random = if exhaustive { if thorough { 60 } else { 12 } } else if thorough { 12 } else { 3 };
    for _ in 0..n_random {
        let k = rng.range(1, 6);
        let floor = if exhaustive { 0 } else if thorough { total / 60 } else { total / 15 };
        let base = (total / rng.range(2, 40)).max(1);
        let ls: Vec<String> = (0..k).map(|_| (rng.range(1, base) + floor).to_string()).collect();
        lines.push(format!("chunks {}", ls.join(",")));
    }
    // suspend, then complete with budgets around the true cost
    if all_ok && total > 2 {
        let n = if exhaustive { if thorough { 40 } else { 10 } } else if thorough { 8 } else { 3 };
        for _ in 0..n {
            let l = rng.range(1, total - 1);
            if let Ok(VerifyResult::Suspended(s)) = v.resumable_verify(l) {
                let p_in = s.state.as_ref().map(|f| f.total_cycles).unwrap_or(0);
                for b in [total - 1, total, total + 1, l, total.saturating_sub(p_in), total.saturating_sub(p_in).saturating_sub(1)] {
                    lines.push(format!("complete {l} {b} {} {p_in}", s.current));
                }
            }
        }
    }
    Some(lines)
}

pub fn run(opts: &Opts) {
    // the signal path's debug assertion panics inside tokio workers; keep stderr short
    std::panic::set_hook(Box::new(|info| {
        let msg = info.to_string();
        eprintln!("panic: {}", msg.lines().next().unwrap_or(""));
    }));
    let consensus = Arc::new(
        ConsensusBuilder::default()
            .hardfork_switch(ckb_types::core::hardfork::HardForks {
                ckb2021: ckb_types::core::hardfork::CKB2021::new_dev_default(),
                ckb2023: ckb_types::core::hardfork::CKB2023::new_dev_default(),
            })
            .build(),
    );
    let rt = tokio::runtime::Builder::new_multi_thread().worker_threads(2).enable_all().build().expect("tokio runtime");
    let mut out = Out::new(&opts.out);
    if let Some(rp) = &opts.replay {
        let lines = read_replay_ops(rp);
        let mut cur: Vec<String> = vec![];
        let mut label = String::from("replay");
        let mut any = false;
        for l in lines.into_iter().chain(std::iter::once("case end".to_string())) {
            if l.starts_with("case ") {
                if any || !cur.is_empty() {
                    out.begin_case(&label);
                    exec_case(&cur, &mut out, &consensus, &rt);
                    cur.clear();
                }
                any = true;
                label = l.splitn(3, ' ').nth(2).unwrap_or("replay").to_string();
            } else {
                cur.push(l);
            }
        }
        out.finish("replay");
        return;
    }
    let mut rng = Rng::new(opts.seed ^ 0xC05);
    let mut skipped = vec![];
    for p in PROGS {
        match gen_case(p, &mut rng, opts.thorough(), &consensus) {
            None => skipped.push(p.name),
            Some(lines) => {
                let t0 = std::time::Instant::now();
                if std::env::var("VERIF_SHOW_PANIC").is_ok() {
                    eprintln!("case {} ({} ops)", p.name, lines.len());
                }
                let _ = t0;
                out.begin_case(p.name);
                exec_case(&lines, &mut out, &consensus, &rt);
                // signal path (oracle only: pause instants are wall-clock, not observable)
                let c_rtx = build(p);
                let v = verifier(&c_rtx, &consensus);
                if let Some(groups) = measure(&v) {
                    let total: u64 = groups.iter().map(|g| g.0).sum();
                    let all_ok = groups.iter().all(|g| g.1 == 0);
                    let one = v.verify(u64::MAX);
                    let n = if total > 4096 { if opts.thorough() { 8 } else { 2 } } else if opts.thorough() { 30 } else { 6 } * opts.scale;
                    for _ in 0..n {
                        let toggles = rng.range(0, 4);
                        let budget = *rng.pick(&[u64::MAX, total, total + 1, total.saturating_sub(1), total / 2]);
                        let r = match std::panic::catch_unwind(std::panic::AssertUnwindSafe(|| run_signal(&rt, &v, budget, &mut rng, toggles))) {
                            Ok(r) => r,
                            Err(_) => {
                                // debug builds: `debug_assert!(consumed_cycles <= max_cycles)` in
                                // chunk_run_with_signal fires after a Resume — the F4b symptom
                                out.op(&format!("note signal budget={budget} toggles={toggles}"), "ok");
                                out.count("op:signal-panic");
                                if all_ok && budget < total {
                                    out.oracle_fail("signal-succeeds-below-cost", &format!("budget={budget} cost={total} the verifier's own debug assertion `consumed <= max_cycles` fired (panic) toggles={toggles}"));
                                } else {
                                    out.oracle_fail("signal-panics", &format!("budget={budget} cost={total} toggles={toggles}"));
                                }
                                continue;
                            }
                        };
                        out.op(&format!("note signal budget={budget} toggles={toggles}"), "ok");
                        out.count("op:signal");
                        if all_ok {
                            if budget < total {
                                if let Ok(n) = &r {
                                    out.oracle_fail("signal-succeeds-below-cost", &format!("budget={budget} cost={total} returned=ok {n} toggles={toggles}"));
                                }
                            } else if show(&r) != format!("ok {total}") {
                                out.oracle_fail("signal-differs-with-sufficient-budget", &format!("budget={budget} cost={total} returned={}", show(&r)));
                            }
                        } else if budget == u64::MAX && show(&r) != show(&one) {
                            out.oracle_fail("signal-differs-from-oneshot", &format!("oneshot={} signal={}", show(&one), show(&r)));
                        }
                    }
                }
            }
        }
    }
    out.extra.insert("programs_skipped".into(), serde_json::json!(skipped));
    out.finish("a chunk schedule is non-trivial if the run was suspended at least once (fingerprint: schedule shape / number of rounds); every suspend+complete pair (fingerprint: suspended group index / result class)");
}
