//! C05 — script verdict and cycle count do not depend on how execution is chunked.
//!
//! Drives the real `ckb_script::TransactionScriptsVerifier` on the repo's own RISC-V test programs
//! (`/repo/script/testdata`, plus `always_success` of ckb-test-chain-utils) in mock resolved
//! transactions: one-shot `verify`, `resumable_verify` + `resume_from_state` over limit schedules
//! driven to completion, `resumable_verify` + `complete`, `resumable_verify_with_signal` with
//! Suspend/Resume at random instants; budgets C−1, C, C+1 around the measured cost C.
//!
//! Line protocol (model side: lean/CkbVerif/Driver/C05.lean):
//!   prog <name> <cost:code[:t],...>    per script group (groups() order: lock groups, then type groups),
//!                                       measured with unlimited one-shot runs; for a failing group the
//!                                       cost is the cycles consumed up to the failure; `:t` marks the
//!                                       built-in TYPE_ID system script (the model takes its cost from
//!                                       script/src/type_id.rs through the translator and answers
//!                                       `typeid-cost-mismatch` if the measurement differs)
//!   verify <B>                          -> ok <cycles> | exceeded <limit> @<group> | fail <code> @<group>
//!                                       | other | ...   (error class AND payload: the limit carried by
//!                                       ExceededMaximumCycles, the exit code, the group the error is
//!                                       attributed to)
//!   rv <L>                              one resumable_verify(L) -> ok <cycles> | suspended <group> | error
//!   resume <L1> <L2> <idx> <p>          resumable_verify(L1) suspended in group idx with p cycles consumed
//!                                       inside it (observed), then ONE resume_from_state(state, L2)
//!                                       -> ok <cycles> | suspended <group> | error
//!   ctx-verify <B>                      ContextualTransactionVerifier::verify(B, false) (time-relative,
//!                                       capacity, scripts, fee) -> as verify
//!   ctx-complete <L> <B> <idx> <p>      state from resumable_verify(L), then
//!                                       ContextualTransactionVerifier::complete(B, false, state)
//!   chunks <L1,L2,...>                  resumable_verify(L1), resume_from_state(L2) ... (last limit
//!                                       repeated) until completed -> final result
//!   complete <L> <B> <idx> <p>          resumable_verify(L) suspended in group idx with p cycles
//!                                       consumed inside it (observed), then complete(state, B)
//!                                       -> ok <cycles> | exceeded <limit> | fail <code> | ...
//!   signal <B> <idx> <p>                not generated (pause points are not observable); signal runs
//!                                       are `note` lines checked by the oracle only
//!   note <text>                         -> ok
use crate::common::*;
use ckb_chain_spec::consensus::{Consensus, ConsensusBuilder, TYPE_ID_CODE_HASH};
use ckb_script::types::ScriptGroup;
use ckb_script::{ChunkCommand, ScriptError, ScriptVersion, TransactionScriptError, TransactionScriptsVerifier, TransactionState, TxVerifyEnv, VerifyResult};
use ckb_traits::{CellDataProvider, EpochProvider, ExtensionProvider, HeaderFields, HeaderFieldsProvider, HeaderProvider};
use ckb_types::bytes::Bytes;
use ckb_types::core::cell::{CellMeta, CellMetaBuilder, ResolvedTransaction};
use ckb_types::core::{BlockExt, BlockNumber, Capacity, EpochExt, EpochNumberWithFraction, HeaderView, ScriptHashType, TransactionBuilder, TransactionInfo};
use ckb_types::packed::{self, Byte32, CellInput, CellOutput, OutPoint, Script};
use ckb_types::prelude::*;
use ckb_verification::ContextualTransactionVerifier;
use std::sync::Arc;

#[derive(Clone)]
struct NoData;
impl CellDataProvider for NoData {
    fn get_cell_data(&self, _out_point: &OutPoint) -> Option<Bytes> {
        None
    }
    fn get_cell_data_hash(&self, _out_point: &OutPoint) -> Option<Byte32> {
        None
    }
}
impl HeaderProvider for NoData {
    fn get_header(&self, _hash: &Byte32) -> Option<HeaderView> {
        None
    }
}
impl ExtensionProvider for NoData {
    fn get_block_extension(&self, _hash: &Byte32) -> Option<packed::Bytes> {
        None
    }
}
impl HeaderFieldsProvider for NoData {
    fn get_header_fields(&self, _hash: &Byte32) -> Option<HeaderFields> {
        None
    }
}
impl EpochProvider for NoData {
    fn get_epoch_ext(&self, _block_header: &HeaderView) -> Option<EpochExt> {
        None
    }
    fn get_block_hash(&self, _number: BlockNumber) -> Option<Byte32> {
        None
    }
    fn get_block_ext(&self, _block_hash: &Byte32) -> Option<BlockExt> {
        None
    }
    fn get_block_header(&self, _hash: &Byte32) -> Option<HeaderView> {
        None
    }
}

type Verifier = TransactionScriptsVerifier<NoData>;
type Ctx = ContextualTransactionVerifier<NoData>;

fn load(name: &str) -> Bytes {
    if name == "always_success" {
        let (_, data, _) = ckb_test_chain_utils::always_success_cell();
        return data.clone();
    }
    Bytes::from(std::fs::read(format!("/repo/script/testdata/{name}")).unwrap_or_else(|e| panic!("testdata {name}: {e}")))
}

fn code_cell(data: Bytes, k: u32) -> (CellMeta, Byte32) {
    let out = CellOutput::new_builder().capacity(Capacity::bytes(data.len()).unwrap()).build();
    let meta = CellMetaBuilder::from_cell_output(out, data)
        .out_point(OutPoint::new(Byte32::zero(), 100 + k))
        .transaction_info(TransactionInfo::new(1, EpochNumberWithFraction::new(0, 1, 10), Byte32::zero(), 1))
        .build();
    let h = meta.mem_cell_data_hash.clone().unwrap();
    (meta, h)
}

/// a transaction shape: input 0 is locked by `lock`, one more input per entry of `locks2` (each a
/// lock group of its own), one output per entry of `types` carrying that type script. A type entry
/// is a program name, or the built-in TYPE_ID system script (script/src/type_id.rs):
///   tid:ok       created here, args = blake2b(first input || output index)      -> passes
///   tid:in       also the type script of input 0 (a transfer: no hash check)    -> passes
///   tid:badargs  31-byte args                                                   -> ERROR_ARGS (-1)
///   tid:badhash  32 bytes that are not the creation hash                        -> ERROR_INVALID_INPUT_HASH (-3)
///   tid:dup      the same script as the previous output (two cells, one group)  -> ERROR_TOO_MANY_CELLS (-2)
/// `deps`: other programs that must be in the cell deps.
struct Prog {
    name: &'static str,
    lock: &'static str,
    deps: &'static [&'static str],
    version: ScriptVersion,
    types: &'static [&'static str],
    locks2: &'static [&'static str],
}

const PROGS: &[Prog] = &[
    Prog { name: "as-v0", lock: "always_success", deps: &[], version: ScriptVersion::V0, types: &[], locks2: &[] },
    Prog { name: "as-v1", lock: "always_success", deps: &[], version: ScriptVersion::V1, types: &[], locks2: &[] },
    Prog { name: "as-v2", lock: "always_success", deps: &[], version: ScriptVersion::V2, types: &[], locks2: &[] },
    Prog { name: "as-3groups", lock: "always_success", deps: &[], version: ScriptVersion::V2, types: &["always_success", "vm_version_2"], locks2: &[] },
    Prog { name: "failure", lock: "always_failure", deps: &[], version: ScriptVersion::V1, types: &[], locks2: &[] },
    Prog { name: "as-then-failure", lock: "always_success", deps: &[], version: ScriptVersion::V1, types: &["always_failure"], locks2: &[] },
    Prog { name: "strcat", lock: "spawn_caller_strcat", deps: &["spawn_callee_strcat"], version: ScriptVersion::V2, types: &[], locks2: &[] },
    Prog { name: "strcat-wrap", lock: "spawn_caller_strcat_wrap", deps: &["spawn_caller_strcat", "spawn_callee_strcat"], version: ScriptVersion::V2, types: &[], locks2: &[] },
    Prog { name: "spawn-cycles", lock: "spawn_caller_current_cycles", deps: &["spawn_callee_current_cycles"], version: ScriptVersion::V2, types: &[], locks2: &[] },
    Prog { name: "spawn-exec", lock: "spawn_caller_exec", deps: &["spawn_callee_exec_caller", "spawn_callee_exec_callee"], version: ScriptVersion::V2, types: &[], locks2: &[] },
    Prog { name: "spawn-recursive", lock: "spawn_recursive", deps: &[], version: ScriptVersion::V2, types: &[], locks2: &[] },
    Prog { name: "spawn-17", lock: "spawn_create_17_spawn", deps: &[], version: ScriptVersion::V2, types: &[], locks2: &[] },
    Prog { name: "spawn-io-cycles", lock: "spawn_io_cycles", deps: &[], version: ScriptVersion::V2, types: &[], locks2: &[] },
    Prog { name: "spawn-huge-swap", lock: "spawn_huge_swap", deps: &[], version: ScriptVersion::V2, types: &[], locks2: &[] },
    Prog { name: "spawn-saturate", lock: "spawn_saturate_memory", deps: &[], version: ScriptVersion::V2, types: &[], locks2: &[] },
    Prog { name: "exec-cell", lock: "exec_caller_from_cell_data", deps: &["exec_callee"], version: ScriptVersion::V1, types: &[], locks2: &[] },
    Prog { name: "exec-cell-v2", lock: "exec_caller_from_cell_data", deps: &["exec_callee"], version: ScriptVersion::V2, types: &[], locks2: &[] },
    Prog { name: "current-cycles", lock: "current_cycles", deps: &[], version: ScriptVersion::V1, types: &[], locks2: &[] },
    Prog { name: "vm-version", lock: "vm_version", deps: &[], version: ScriptVersion::V1, types: &[], locks2: &[] },
    Prog { name: "vm-version-2", lock: "vm_version_2", deps: &[], version: ScriptVersion::V2, types: &[], locks2: &[] },
    Prog { name: "mop-adc", lock: "mop_adc_lock", deps: &[], version: ScriptVersion::V1, types: &[], locks2: &[] },
    Prog { name: "cpop", lock: "cpop_lock", deps: &[], version: ScriptVersion::V1, types: &[], locks2: &[] },
    Prog { name: "load-arith", lock: "load_arithmetic", deps: &[], version: ScriptVersion::V1, types: &[], locks2: &[] },
    Prog { name: "spawn-then-as", lock: "spawn_caller_strcat", deps: &["spawn_callee_strcat"], version: ScriptVersion::V2, types: &["always_success", "spawn_recursive"], locks2: &[] },
    // the built-in TYPE_ID system script as a group of its own
    Prog { name: "tid-create", lock: "always_success", deps: &[], version: ScriptVersion::V2, types: &["tid:ok"], locks2: &[] },
    Prog { name: "tid-transfer", lock: "always_success", deps: &[], version: ScriptVersion::V1, types: &["tid:in"], locks2: &[] },
    Prog { name: "tid-badargs", lock: "always_success", deps: &[], version: ScriptVersion::V2, types: &["tid:badargs"], locks2: &[] },
    Prog { name: "tid-badhash", lock: "always_success", deps: &[], version: ScriptVersion::V1, types: &["tid:badhash"], locks2: &[] },
    Prog { name: "tid-dup", lock: "always_success", deps: &[], version: ScriptVersion::V2, types: &["tid:ok", "tid:dup"], locks2: &[] },
    Prog { name: "tid-mixed", lock: "always_success", deps: &[], version: ScriptVersion::V2, types: &["always_success", "tid:ok", "vm_version_2"], locks2: &["always_success"] },
    Prog { name: "tid-two", lock: "always_success", deps: &[], version: ScriptVersion::V2, types: &["tid:in", "tid:ok", "always_success"], locks2: &[] },
    Prog { name: "tid-then-failure", lock: "always_success", deps: &[], version: ScriptVersion::V1, types: &["tid:ok", "always_failure", "always_success"], locks2: &[] },
    // >= 3 groups mixing lock and type scripts in which a LATER group fails
    Prog { name: "mixed-late-failure-a", lock: "always_success", deps: &[], version: ScriptVersion::V1, types: &["always_success", "always_failure", "always_success"], locks2: &["always_success", "always_success"] },
    Prog { name: "mixed-late-failure-b", lock: "always_success", deps: &[], version: ScriptVersion::V2, types: &["always_failure", "always_success", "always_success", "vm_version_2"], locks2: &["vm_version_2"] },
    Prog { name: "mixed-late-failure-c", lock: "always_success", deps: &[], version: ScriptVersion::V2, types: &["always_success", "tid:badhash", "always_success"], locks2: &["vm_version_2"] },
    Prog { name: "mixed-late-lock-failure", lock: "always_success", deps: &[], version: ScriptVersion::V1, types: &["always_success"], locks2: &["always_failure", "always_success"] },
    Prog { name: "spawn-then-failure", lock: "spawn_caller_strcat", deps: &["spawn_callee_strcat"], version: ScriptVersion::V2, types: &["always_success", "always_failure"], locks2: &[] },
    Prog { name: "exec-then-tid-failure", lock: "exec_caller_from_cell_data", deps: &["exec_callee"], version: ScriptVersion::V2, types: &["tid:ok", "tid:dup", "always_success"], locks2: &["always_success"] },
];

fn type_id_script(args: Vec<u8>) -> Script {
    Script::new_builder().code_hash(TYPE_ID_CODE_HASH.pack()).hash_type(ScriptHashType::Type).args(Bytes::from(args).pack()).build()
}

fn is_type_id(script: &Script) -> bool {
    script.code_hash() == TYPE_ID_CODE_HASH.pack() && Into::<u8>::into(script.hash_type()) == Into::<u8>::into(ScriptHashType::Type)
}

const INPUT_SHANNONS: u64 = 100_000_000_000;
const OUTPUT_SHANNONS: u64 = 20_000_000_000;

/// the transaction and the fee it pays
fn build(p: &Prog) -> (ResolvedTransaction, u64) {
    let mut deps = vec![];
    let mut k = 0u32;
    let mut add = |name: &str, deps: &mut Vec<CellMeta>| -> Byte32 {
        let (m, h) = code_cell(load(name), k);
        k += 1;
        deps.push(m);
        h
    };
    let lock_hash = add(p.lock, &mut deps);
    for d in p.deps {
        add(d, &mut deps);
    }
    let lock = Script::new_builder().hash_type(p.version.data_hash_type()).code_hash(lock_hash).build();
    let first_input = CellInput::new(OutPoint::new(Byte32::zero(), 7), 0);
    let mut tb = TransactionBuilder::default().input(first_input.clone());
    let (_, _, as_lock) = ckb_test_chain_utils::always_success_cell();
    let mut input0_type: Option<Script> = None;
    let mut prev_type: Option<Script> = None;
    for (i, t) in p.types.iter().enumerate() {
        let ty = match *t {
            "tid:ok" => {
                let mut blake2b = ckb_hash::new_blake2b();
                blake2b.update(first_input.as_slice());
                blake2b.update(&(i as u64).to_le_bytes());
                let mut ret = [0u8; 32];
                blake2b.finalize(&mut ret);
                type_id_script(ret.to_vec())
            }
            "tid:in" => {
                let s = type_id_script(vec![0x22; 32]);
                input0_type = Some(s.clone());
                s
            }
            "tid:badargs" => type_id_script(vec![0x33; 31]),
            "tid:badhash" => type_id_script(vec![0x11; 32]),
            "tid:dup" => prev_type.clone().expect("tid:dup follows another type entry"),
            name => {
                let h = add(name, &mut deps);
                // distinct args make distinct groups even for the same program
                Script::new_builder().hash_type(p.version.data_hash_type()).code_hash(h).args(Bytes::from(vec![i as u8]).pack()).build()
            }
        };
        prev_type = Some(ty.clone());
        tb = tb
            .output(CellOutput::new_builder().capacity(Capacity::shannons(OUTPUT_SHANNONS)).lock(as_lock.clone()).type_(Some(ty)).build())
            .output_data(Bytes::new());
    }
    let tx_info = || TransactionInfo::new(1, EpochNumberWithFraction::new(0, 1, 10), Byte32::zero(), 1);
    let input_cell = CellOutput::new_builder().capacity(Capacity::shannons(INPUT_SHANNONS)).lock(lock).type_(input0_type).build();
    let mut inputs = vec![CellMetaBuilder::from_cell_output(input_cell, Bytes::new()).out_point(OutPoint::new(Byte32::zero(), 7)).transaction_info(tx_info()).build()];
    for (i, l) in p.locks2.iter().enumerate() {
        let h = add(l, &mut deps);
        let lock = Script::new_builder().hash_type(p.version.data_hash_type()).code_hash(h).args(Bytes::from(vec![0xA0 + i as u8]).pack()).build();
        let op = OutPoint::new(Byte32::zero(), 8 + i as u32);
        tb = tb.input(CellInput::new(op.clone(), 0));
        let cell = CellOutput::new_builder().capacity(Capacity::shannons(INPUT_SHANNONS)).lock(lock).build();
        inputs.push(CellMetaBuilder::from_cell_output(cell, Bytes::new()).out_point(op).transaction_info(tx_info()).build());
    }
    let fee = INPUT_SHANNONS * inputs.len() as u64 - OUTPUT_SHANNONS * p.types.len() as u64;
    (ResolvedTransaction { transaction: tb.build(), resolved_cell_deps: deps, resolved_inputs: inputs, resolved_dep_groups: vec![] }, fee)
}

fn tx_env() -> Arc<TxVerifyEnv> {
    let header = HeaderView::new_advanced_builder().epoch(EpochNumberWithFraction::new(5, 0, 10)).number(50).build();
    Arc::new(TxVerifyEnv::new_commit(&header))
}

fn verifier(rtx: &ResolvedTransaction, consensus: &Arc<Consensus>) -> Verifier {
    TransactionScriptsVerifier::new(Arc::new(rtx.clone()), NoData, Arc::clone(consensus), tx_env())
}

/// the wrapper of verification/src/transaction_verifier.rs (time-relative + capacity + scripts + fee)
fn ctx_verifier(rtx: &ResolvedTransaction, consensus: &Arc<Consensus>) -> Ctx {
    ContextualTransactionVerifier::new(Arc::new(rtx.clone()), Arc::clone(consensus), NoData, tx_env())
}

/// error class and payload (the limit of ExceededMaximumCycles, the exit code), without attribution
fn class_of(e: &ckb_error::Error) -> String {
    match e.downcast_ref::<TransactionScriptError>().map(|t| t.script_error()) {
        Some(ScriptError::ExceededMaximumCycles(l)) => format!("exceeded {l}"),
        Some(ScriptError::ValidationFailure(_, code)) => format!("fail {code}"),
        Some(ScriptError::Other(_)) => "other".into(),
        Some(ScriptError::CyclesOverflow(..)) => "overflow".into(),
        Some(ScriptError::Interrupts) => "interrupts".into(),
        Some(ScriptError::VMInternalError(e)) => { if std::env::var("VERIF_SHOW_PANIC").is_ok() { eprintln!("vm internal error: {e:?}"); } format!("vm-error:{}", format!("{e:?}").split(['(', ' ']).next().unwrap_or("?")) }
        Some(other) => format!("script-error:{}", format!("{other:?}").split(['(', ' ']).next().unwrap_or("?")),
        None => "non-script-error".into(),
    }
}

/// the group an error is attributed to (`TransactionScriptError::originating_script`), as an index
/// into groups()
fn group_of(groups: &[G], e: &ckb_error::Error) -> String {
    match e.downcast_ref::<TransactionScriptError>() {
        Some(t) => {
            let src = format!("{:?}", t.originating_script());
            groups.iter().position(|g| g.src == src).map(|i| i.to_string()).unwrap_or_else(|| "?".into())
        }
        None => "?".into(),
    }
}

/// class + payload + attributed group
fn show(groups: &[G], r: &Result<u64, ckb_error::Error>) -> String {
    match r {
        Ok(c) => format!("ok {c}"),
        Err(e) => {
            let c = class_of(e);
            if c.starts_with("exceeded") || c.starts_with("fail") { format!("{c} @{}", group_of(groups, e)) } else { c }
        }
    }
}

/// class + payload only (entry points whose attribution the model does not predict)
fn show_plain(r: &Result<u64, ckb_error::Error>) -> String {
    match r {
        Ok(c) => format!("ok {c}"),
        Err(e) => class_of(e),
    }
}

/// everything an error carries (script error with all its fields + originating script), for the
/// chunked-vs-one-shot comparison of the oracle
fn payload(r: &Result<u64, ckb_error::Error>) -> String {
    match r {
        Ok(c) => format!("ok {c}"),
        Err(e) => match e.downcast_ref::<TransactionScriptError>() {
            Some(t) => format!("{:?} at {:?}", t.script_error(), t.originating_script()),
            None => format!("non-script-error {e:?}"),
        },
    }
}

fn show_vr(groups: &[G], r: &Result<VerifyResult, ckb_error::Error>) -> String {
    match r {
        Ok(VerifyResult::Completed(c)) => format!("ok {c}"),
        Ok(VerifyResult::Suspended(s)) => format!("suspended {}", s.current),
        Err(e) => {
            let c = class_of(e);
            if c.starts_with("exceeded") || c.starts_with("fail") { format!("{c} @{}", group_of(groups, e)) } else { c }
        }
    }
}

/// a script group as measured with unlimited budget
#[derive(Clone)]
struct G {
    /// cycles consumed up to the exit (for a failing group: up to the failure)
    cost: u64,
    code: i8,
    /// the built-in TYPE_ID system script
    tid: bool,
    /// `TransactionScriptErrorSource` of the group, as printed by Debug
    src: String,
}

fn src_of_group(g: &ScriptGroup) -> String {
    if let Some(n) = g.input_indices.first() {
        format!("Inputs({n}, {:?})", g.group_type)
    } else if let Some(n) = g.output_indices.first() {
        format!("Outputs({n}, {:?})", g.group_type)
    } else {
        "Unknown".into()
    }
}

/// per-group cost and exit code with unlimited budget; None if some group ends in a VM error
fn measure(v: &Verifier) -> Option<Vec<G>> {
    let mut out = vec![];
    for (hash, g) in v.groups() {
        let src = src_of_group(g);
        if is_type_id(&g.script) {
            match v.verify_single(g.group_type, hash, u64::MAX) {
                Ok(c) => out.push(G { cost: c, code: 0, tid: true, src }),
                Err(ScriptError::ValidationFailure(_, code)) => {
                    // the cycles the system script asks for before it looks at anything: the least
                    // budget that is not answered with ExceededMaximumCycles
                    let (mut lo, mut hi) = (0u64, u64::MAX); // lo: exceeded (or 0), hi: not exceeded
                    if !matches!(v.verify_single(g.group_type, hash, 0), Err(ScriptError::ExceededMaximumCycles(_))) {
                        hi = 0;
                    }
                    while hi > 0 && hi - lo > 1 {
                        let mid = lo + (hi - lo) / 2;
                        if matches!(v.verify_single(g.group_type, hash, mid), Err(ScriptError::ExceededMaximumCycles(_))) { lo = mid } else { hi = mid }
                    }
                    out.push(G { cost: hi, code, tid: true, src });
                }
                Err(e) => {
                    if std::env::var("VERIF_SHOW_PANIC").is_ok() {
                        eprintln!("measure: type-id group does not run: {e:?}");
                    }
                    return None;
                }
            }
        } else {
            match v.detailed_run(g, 200_000_000) {
                Ok(t) => out.push(G { cost: t.consumed_cycles, code: t.exit_code, tid: false, src }),
                Err(e) => {
                    if std::env::var("VERIF_SHOW_PANIC").is_ok() {
                        eprintln!("measure: group does not run: {e:?}");
                    }
                    return None;
                }
            }
        }
    }
    Some(out)
}

fn groups_line(groups: &[G]) -> String {
    groups.iter().map(|g| format!("{}:{}{}", g.cost, g.code, if g.tid { ":t" } else { "" })).collect::<Vec<_>>().join(",")
}

/// cycles an uninterrupted run needs to reach its verdict: every group up to and including the
/// first failing one
fn need_of(groups: &[G]) -> u64 {
    let mut n = 0;
    for g in groups {
        n += g.cost;
        if g.code != 0 {
            break;
        }
    }
    n
}

struct Case {
    v: Verifier,
    ctx: Ctx,
    fee: u64,
    groups: Vec<G>,
    /// cycles needed to reach the verdict (= total cost when every group succeeds)
    need: u64,
    all_ok: bool,
    /// the unlimited one-shot run, with everything its error carries
    unlimited: String,
}

fn make_case(p: &Prog, consensus: &Arc<Consensus>) -> Option<Case> {
    let (rtx, fee) = build(p);
    let v = verifier(&rtx, consensus);
    let ctx = ctx_verifier(&rtx, consensus);
    let groups = measure(&v)?;
    let need = need_of(&groups);
    let all_ok = groups.iter().all(|g| g.code == 0);
    let unlimited = payload(&v.verify(u64::MAX));
    Some(Case { v, ctx, fee, groups, need, all_ok, unlimited })
}

fn drive_chunks(v: &Verifier, limits: &[u64]) -> (Result<u64, ckb_error::Error>, u64) {
    let mut i = 0;
    let mut state: Option<TransactionState> = None;
    let mut rounds = 0u64;
    // a limit below the cost of the next atomic step (e.g. the initial program load) makes no
    // progress: the driver then doubles an extra allowance until the run moves again
    let mut boost = 0u64;
    let mut last: Option<(usize, u64)> = None;
    loop {
        let l = limits[i.min(limits.len() - 1)].saturating_add(boost);
        i += 1;
        rounds += 1;
        let r = match &state {
            None => v.resumable_verify(l),
            Some(s) => v.resume_from_state(s, l),
        };
        match r {
            Err(e) => return (Err(e), rounds),
            Ok(VerifyResult::Completed(c)) => return (Ok(c), rounds),
            Ok(VerifyResult::Suspended(s)) => {
                let pos = (s.current, s.state.as_ref().map(|f| f.total_cycles).unwrap_or(0));
                if last == Some(pos) {
                    boost = (boost * 2).max(1);
                } else {
                    boost = 0;
                }
                last = Some(pos);
                state = Some(s);
            }
        }
        if rounds >= 6000 {
            return (Err(ScriptError::Other("verif: chunk drive made no end in 6000 rounds".into()).unknown_source().into()), rounds);
        }
    }
}

fn vr_to_result(r: Result<VerifyResult, ckb_error::Error>) -> Option<Result<u64, ckb_error::Error>> {
    match r {
        Ok(VerifyResult::Completed(c)) => Some(Ok(c)),
        Ok(VerifyResult::Suspended(_)) => None,
        Err(e) => Some(Err(e)),
    }
}

fn is_deadlock(e: &ckb_error::Error) -> bool {
    matches!(e.downcast_ref::<TransactionScriptError>().map(|t| t.script_error()), Some(ScriptError::VMInternalError(v)) if format!("{v:?}").contains("deadlock"))
}

/// the two budget clauses on one call of the resumable API: `done` cycles were executed before the
/// call, `l` is the limit of the call
fn oracle_resumable(out: &mut Out, c: &Case, entry: &str, done: u64, l: u64, r: &Result<VerifyResult, ckb_error::Error>, line: &str) {
    let enough = done.saturating_add(l) >= c.need;
    match r {
        Ok(VerifyResult::Suspended(s)) => {
            if enough {
                out.oracle_fail(&format!("{entry}-suspends-with-sufficient-limit"), &format!("done={done} limit={l} need={} suspended in group {} op={line}", c.need, s.current));
            }
            if s.limit_cycles > l {
                out.oracle_fail("suspended-state-limit-above-call-limit", &format!("limit={l} state.limit_cycles={} op={line}", s.limit_cycles));
            }
            let done2 = s.current_cycles + s.state.as_ref().map(|f| f.total_cycles).unwrap_or(0);
            if done2 < done {
                out.oracle_fail("suspended-state-went-backwards", &format!("done before={done} after={done2} op={line}"));
            }
            if done2 > done.saturating_add(l) {
                // the scheduler may charge spawn/exec/IO bookkeeping past the limit before it stops
                out.count(&format!("{entry}:overshoot"));
            }
        }
        _ => {
            let res = match r { Ok(VerifyResult::Completed(n)) => Ok(*n), Err(e) => Err(e.clone()), _ => unreachable!() };
            if enough {
                if payload(&res) != c.unlimited {
                    let class = if matches!(&res, Err(e) if is_deadlock(e)) { "chunked-differs-from-oneshot".to_string() } else { format!("{entry}-differs-with-sufficient-limit") };
                    out.oracle_fail(&class, &format!("done={done} limit={l} need={} oneshot=[{}] got=[{}] op={line}", c.need, c.unlimited, payload(&res)));
                }
            } else {
                let class = if matches!(&res, Err(e) if is_deadlock(e)) { "chunked-differs-from-oneshot".to_string() } else { format!("{entry}-ends-below-need") };
                out.oracle_fail(&class, &format!("done={done} limit={l} need={} got=[{}] op={line}", c.need, payload(&res)));
            }
        }
    }
}

/// run `resumable_verify(l)` and insist on the suspension point recorded in the op line
fn suspend_at(c: &Case, l: u64, idx: &str, p: &str) -> Result<TransactionState, String> {
    match c.v.resumable_verify(l) {
        Ok(VerifyResult::Suspended(s)) => {
            let got = (s.current as u64, s.state.as_ref().map(|f| f.total_cycles).unwrap_or(0));
            assert_eq!(got, (idx.parse().unwrap(), p.parse().unwrap()), "suspension point differs on replay");
            Ok(s)
        }
        Ok(VerifyResult::Completed(n)) => Err(format!("completed-early {n}")),
        Err(e) => Err(class_of(&e)),
    }
}

fn exec_case(lines: &[String], out: &mut Out, consensus: &Arc<Consensus>, rt: &tokio::runtime::Runtime) {
    let mut case: Option<Case> = None;
    for line in lines {
        let t: Vec<&str> = line.split(' ').collect();
        match t[0] {
            "prog" => {
                let p = PROGS.iter().find(|p| p.name == t[1]).unwrap_or_else(|| panic!("unknown program {}", t[1]));
                let c = make_case(p, consensus).unwrap_or_else(|| panic!("program {} does not run", p.name));
                assert_eq!(groups_line(&c.groups), t[2], "program {} measures differently on replay", p.name);
                if c.groups.iter().any(|g| g.tid) {
                    out.count("prog:with-type-id-group");
                }
                if c.groups.len() >= 3 && c.groups.iter().position(|g| g.code != 0).map(|i| i >= 1).unwrap_or(false) {
                    out.count("prog:three-groups-later-failure");
                }
                case = Some(c);
                out.op(line, "ok");
            }
            "note" => out.op(line, "ok"),
            "verify" | "ctx-verify" => {
                let c = case.as_ref().expect("prog first");
                let b: u64 = t[1].parse().unwrap();
                let raw = c.v.verify(b);
                let r = if t[0] == "verify" { raw } else {
                    let w = c.ctx.verify(b, false);
                    if let Ok(done) = &w {
                        if done.fee.as_u64() != c.fee {
                            out.oracle_fail("wrapper-fee-differs", &format!("fee={} expected={} op={line}", done.fee.as_u64(), c.fee));
                        }
                    }
                    let w = w.map(|d| d.cycles);
                    if payload(&w) != payload(&raw) {
                        out.oracle_fail("wrapper-differs-from-raw-verifier", &format!("raw=[{}] wrapper=[{}] op={line}", payload(&raw), payload(&w)));
                    }
                    w
                };
                out.op(line, &show(&c.groups, &r));
                out.count(&format!("op:{}", t[0]));
                oracle_budget(out, c, t[0], b, &r, line, 0);
            }
            "rv" => {
                let c = case.as_ref().expect("prog first");
                let l: u64 = t[1].parse().unwrap();
                let r = c.v.resumable_verify(l);
                out.op(line, &show_vr(&c.groups, &r));
                out.count("op:rv");
                if let Ok(VerifyResult::Suspended(s)) = &r {
                    out.nontrivial(format!("rv/suspended/{}", s.current));
                }
                oracle_resumable(out, c, "resumable_verify", 0, l, &r, line);
            }
            "resume" => {
                let c = case.as_ref().expect("prog first");
                let (l1, l2): (u64, u64) = (t[1].parse().unwrap(), t[2].parse().unwrap());
                match suspend_at(c, l1, t[3], t[4]) {
                    Ok(s) => {
                        let done = s.current_cycles + s.state.as_ref().map(|f| f.total_cycles).unwrap_or(0);
                        let r = c.v.resume_from_state(&s, l2);
                        let shown = show_vr(&c.groups, &r);
                        if shown.starts_with("vm-error") {
                            // VM-level deviation (F20 family), outside the accounting model: the op line
                            // carries the observed class so that the model stream stays aligned
                            out.op(&format!("{line} dev={}", shown.replace(' ', "_")), &shown);
                        } else {
                            out.op(line, &shown);
                        }
                        out.count("op:resume");
                        out.nontrivial(format!("resume/{}/{}", s.current, shown.split(' ').next().unwrap()));
                        oracle_resumable(out, c, "resume_from_state", done, l2, &r, line);
                    }
                    Err(a) => out.op(line, &a),
                }
            }
            "chunks" => {
                let c = case.as_ref().expect("prog first");
                let limits: Vec<u64> = t[1].split(',').map(|x| x.parse().unwrap()).collect();
                let (r, rounds) = drive_chunks(&c.v, &limits);
                let one = c.v.verify(u64::MAX);
                if show(&c.groups, &one) != show(&c.groups, &r) {
                    // deviation (known finding F20 family): reported by the oracle below; the op line
                    // carries the observed class so that the model stream stays aligned
                    out.op(&format!("{} dev={}", t[..2].join(" "), show(&c.groups, &r).replace(' ', "_")), &show(&c.groups, &r));
                } else {
                    out.op(&t[..2].join(" "), &show(&c.groups, &r));
                }
                out.count("op:chunks");
                if rounds > 1 {
                    out.nontrivial(format!("chunks/{}/{}", t[1].len().min(12), rounds.min(64)));
                }
                // oracle: any partition driven to completion = the unlimited one-shot run: class,
                // payload (total cycles / exit code / every field of the error) and attributed group
                if show(&c.groups, &one) != show(&c.groups, &r) {
                    out.oracle_fail("chunked-differs-from-oneshot", &format!("oneshot={} chunked={} rounds={rounds} op={line}", show(&c.groups, &one), show(&c.groups, &r)));
                } else if payload(&one) != payload(&r) {
                    out.oracle_fail("chunked-error-payload-differs", &format!("oneshot=[{}] chunked=[{}] rounds={rounds} op={line}", payload(&one), payload(&r)));
                }
            }
            "complete" | "ctx-complete" => {
                let c = case.as_ref().expect("prog first");
                let (l, b): (u64, u64) = (t[1].parse().unwrap(), t[2].parse().unwrap());
                match suspend_at(c, l, t[3], t[4]) {
                    Ok(s) => {
                        let raw = c.v.complete(&s, b);
                        let r = if t[0] == "complete" { raw } else {
                            let w = c.ctx.complete(b, false, &s);
                            if let Ok(done) = &w {
                                if done.fee.as_u64() != c.fee {
                                    out.oracle_fail("wrapper-fee-differs", &format!("fee={} expected={} op={line}", done.fee.as_u64(), c.fee));
                                }
                            }
                            let w = w.map(|d| d.cycles);
                            if payload(&w) != payload(&raw) {
                                out.oracle_fail("wrapper-differs-from-raw-verifier", &format!("raw=[{}] wrapper=[{}] op={line}", payload(&raw), payload(&w)));
                            }
                            w
                        };
                        out.op(line, &show_plain(&r));
                        out.count(&format!("op:{}", t[0]));
                        out.nontrivial(format!("{}/{}/{}", t[0], s.current, show_plain(&r).split(' ').next().unwrap()));
                        oracle_budget(out, c, "complete", b, &r, line, t[4].parse().unwrap());
                    }
                    Err(a) => out.op(line, &a),
                }
            }
            _ => panic!("C05: bad op {line:?}"),
        }
    }
    let _ = rt;
}

/// the budget clauses of the property on the implementation's own answers (one-shot entry points
/// and `complete`): below the cycles needed never a success; from the cycles needed on exactly the
/// unlimited result, including everything the error carries
fn oracle_budget(out: &mut Out, c: &Case, entry: &str, b: u64, r: &Result<u64, ckb_error::Error>, line: &str, inside: u64) {
    if b < c.need {
        if let Ok(n) = r {
            // F4 (known) explains a success of `complete` only when the budget is short by no more than the
            // cycles consumed inside the suspended group (Lean: complete_budget_lt_partial)
            let class = if entry == "complete" && b.saturating_add(inside) < c.need { "complete-succeeds-below-cost-beyond-f4".to_string() } else { format!("{entry}-succeeds-below-cost") };
            out.oracle_fail(&class, &format!("budget={b} cost={} consumed-inside-group={inside} returned=ok {n} op={line}", c.need));
        } else if !class_of(r.as_ref().unwrap_err()).starts_with("exceeded") {
            if entry.ends_with("verify") {
                out.oracle_fail(&format!("{entry}-below-cost-error-is-not-the-cycle-limit"), &format!("budget={b} cost={} returned=[{}] op={line}", c.need, payload(r)));
            } else {
                out.count(&format!("{entry}:below-cost-error-not-exceeded"));
            }
        } else if entry.ends_with("verify") {
            // payload: the limit reported is what was left of the budget for the group that did not
            // fit, and the error is attributed to that group
            let mut before = 0;
            let mut j = 0;
            while j < c.groups.len() && before + c.groups[j].cost <= b {
                before += c.groups[j].cost;
                j += 1;
            }
            let expect = format!("exceeded {} @{j}", b - before);
            if show(&c.groups, r) != expect {
                out.oracle_fail(&format!("{entry}-exceeded-payload-differs"), &format!("budget={b} expected=[{expect}] returned=[{}] op={line}", show(&c.groups, r)));
            }
        }
    } else if payload(r) != c.unlimited {
        let class = if c.all_ok { format!("{entry}-differs-with-sufficient-budget") } else { format!("{entry}-failure-differs-with-sufficient-budget") };
        out.oracle_fail(&class, &format!("budget={b} cost={} unlimited=[{}] returned=[{}] op={line}", c.need, c.unlimited, payload(r)));
    }
}

/// signal path: Suspend/Resume at random instants; returns the result. `via_ctx`: through the
/// `ContextualTransactionVerifier::verify_with_pause` wrapper
fn run_signal(rt: &tokio::runtime::Runtime, c: &Case, via_ctx: bool, budget: u64, rng: &mut Rng, toggles: u64) -> Result<u64, ckb_error::Error> {
    let (tx, mut rx) = tokio::sync::watch::channel(ChunkCommand::Resume);
    let delays: Vec<u64> = (0..toggles * 2).map(|_| rng.below(400)).collect();
    let h = std::thread::spawn(move || {
        for (i, d) in delays.iter().enumerate() {
            std::thread::sleep(std::time::Duration::from_micros(*d));
            let _ = tx.send(if i % 2 == 0 { ChunkCommand::Suspend } else { ChunkCommand::Resume });
        }
        // keep the sender alive until the verifier is done
        std::thread::sleep(std::time::Duration::from_millis(3000));
        drop(tx);
    });
    let r = if via_ctx {
        rt.block_on(async { c.ctx.verify_with_pause(budget, &mut rx).await }).map(|d| d.cycles)
    } else {
        rt.block_on(async { c.v.resumable_verify_with_signal(budget, &mut rx).await })
    };
    drop(h); // detached; it ends by itself
    r
}

const HEAVY: &[&str] = &["spawn-recursive", "spawn-io-cycles", "spawn-huge-swap", "spawn-saturate", "strcat-wrap", "spawn-17"];

fn push_unique(lines: &mut Vec<String>, l: String) {
    if !lines.contains(&l) {
        lines.push(l);
    }
}

fn gen_case(p: &Prog, rng: &mut Rng, thorough: bool, consensus: &Arc<Consensus>) -> Option<Vec<String>> {
    let c = make_case(p, consensus)?;
    let (v, groups, need) = (&c.v, &c.groups, c.need);
    let heavy_prog = HEAVY.contains(&p.name);
    if !thorough && (need > 3_000_000 || heavy_prog) {
        return None; // long-running programs: thorough tier only
    }
    let mut lines = vec![format!("prog {} {}", p.name, groups_line(groups))];
    // group boundaries (cumulative cost after each group that runs)
    let mut bounds = vec![];
    let mut acc = 0;
    for g in groups {
        acc += g.cost;
        bounds.push(acc);
        if g.code != 0 {
            break;
        }
    }
    // budgets: around the cycles needed, and each group boundary -1 / exact / +1
    let mut budgets = vec![need.saturating_sub(1), need, need + 1, 0, 1, need / 2, u64::MAX];
    for b in &bounds {
        budgets.extend([b.saturating_sub(1), *b, b + 1]);
    }
    for b in &budgets {
        push_unique(&mut lines, format!("verify {b}"));
    }
    for b in &budgets {
        push_unique(&mut lines, format!("rv {b}"));
    }
    for b in [need.saturating_sub(1), need, u64::MAX, bounds[0].saturating_sub(1), bounds[bounds.len() / 2]] {
        push_unique(&mut lines, format!("ctx-verify {b}"));
    }
    // one resume_from_state call from states suspended just before / just after each group boundary
    // and at random points, with limits around what is still needed and around the next boundaries
    if need > 2 {
        let mut l1s: Vec<u64> = vec![];
        for b in &bounds {
            l1s.extend([b.saturating_sub(1), *b]);
        }
        let n_rand = if heavy_prog { 1 } else if thorough { 6 } else { 2 };
        for _ in 0..n_rand {
            l1s.push(rng.range(1, need - 1));
        }
        l1s.sort();
        l1s.dedup();
        if heavy_prog {
            l1s.truncate(2);
        }
        for l1 in l1s {
            if l1 >= need {
                continue;
            }
            if let Ok(VerifyResult::Suspended(s)) = v.resumable_verify(l1) {
                let p_in = s.state.as_ref().map(|f| f.total_cycles).unwrap_or(0);
                let done = s.current_cycles + p_in;
                let rem = need.saturating_sub(done);
                let mut l2s = vec![rem.saturating_sub(1), rem, rem + 1, 1, u64::MAX];
                for b in &bounds {
                    if *b > done {
                        l2s.extend([(b - done).saturating_sub(1), b - done, b - done + 1]);
                    }
                }
                l2s.sort();
                l2s.dedup();
                if heavy_prog {
                    l2s = vec![rem.saturating_sub(1), rem];
                }
                for l2 in l2s {
                    push_unique(&mut lines, format!("resume {l1} {l2} {} {p_in}", s.current));
                }
            }
        }
    }
    // chunk schedules driven to completion
    let vm_need: u64 = { let mut n = 0; for g in groups { if !g.tid { n += g.cost; } if g.code != 0 { break; } } n };
    let has_tid = groups.iter().any(|g| g.tid);
    let exhaustive = vm_need <= 4096;
    if exhaustive {
        // EVERY chunk size for the smallest programs (thorough), every 7th in the quick tier; a
        // chunk limit of 1 cycle always
        let step = if thorough { 1 } else { 7 };
        let mut l = 1;
        while l <= vm_need + 1 {
            lines.push(format!("chunks {l}"));
            l += step;
        }
        if has_tid {
            for b in &bounds {
                for l in [b.saturating_sub(1), *b, b + 1] {
                    push_unique(&mut lines, format!("chunks {l}"));
                }
            }
            for g in groups.iter().filter(|g| g.tid) {
                for l in [g.cost - 1, g.cost, g.cost + 1, g.cost / 2] {
                    push_unique(&mut lines, format!("chunks {l}"));
                }
            }
        }
    } else if !heavy_prog {
        push_unique(&mut lines, format!("chunks {}", need.saturating_sub(1)));
        for b in &bounds {
            push_unique(&mut lines, format!("chunks {b}"));
        }
    }
    let n_random = if exhaustive { if thorough { 60 } else { 12 } } else if thorough { 12 } else { 3 };
    for _ in 0..n_random {
        let k = rng.range(1, 6);
        let floor = if exhaustive { 0 } else if thorough { need / 60 } else { need / 15 };
        let base = (if exhaustive && has_tid && rng.chance(1, 2) { vm_need } else { need } / rng.range(2, 40)).max(1);
        let ls: Vec<String> = (0..k).map(|_| (rng.range(1, base) + floor).to_string()).collect();
        lines.push(format!("chunks {}", ls.join(",")));
    }
    // suspend, then complete with budgets around the true cost
    if need > 2 {
        let n = if exhaustive { if thorough { 40 } else { 10 } } else if thorough { 8 } else { 3 };
        for i in 0..n {
            let l = rng.range(1, need - 1);
            if let Ok(VerifyResult::Suspended(s)) = v.resumable_verify(l) {
                let p_in = s.state.as_ref().map(|f| f.total_cycles).unwrap_or(0);
                for b in [need - 1, need, need + 1, l, need.saturating_sub(p_in), need.saturating_sub(p_in).saturating_sub(1)] {
                    lines.push(format!("complete {l} {b} {} {p_in}", s.current));
                }
                if i < 2 {
                    for b in [need - 1, need, u64::MAX] {
                        lines.push(format!("ctx-complete {l} {b} {} {p_in}", s.current));
                    }
                }
            }
        }
    }
    Some(lines)
}

pub fn run(opts: &Opts) {
    // the signal path's debug assertion panics inside tokio workers; keep stderr short
    std::panic::set_hook(Box::new(|info| {
        let msg = info.to_string();
        eprintln!("panic: {}", msg.lines().next().unwrap_or(""));
    }));
    let consensus = Arc::new(
        ConsensusBuilder::default()
            .hardfork_switch(ckb_types::core::hardfork::HardForks {
                ckb2021: ckb_types::core::hardfork::CKB2021::new_dev_default(),
                ckb2023: ckb_types::core::hardfork::CKB2023::new_dev_default(),
            })
            .build(),
    );
    let rt = tokio::runtime::Builder::new_multi_thread().worker_threads(2).enable_all().build().expect("tokio runtime");
    let mut out = Out::new(&opts.out);
    if let Some(rp) = &opts.replay {
        let lines = read_replay_ops(rp);
        let mut cur: Vec<String> = vec![];
        let mut label = String::from("replay");
        let mut any = false;
        for l in lines.into_iter().chain(std::iter::once("case end".to_string())) {
            if l.starts_with("case ") {
                if any || !cur.is_empty() {
                    out.begin_case(&label);
                    exec_case(&cur, &mut out, &consensus, &rt);
                    cur.clear();
                }
                any = true;
                label = l.splitn(3, ' ').nth(2).unwrap_or("replay").to_string();
            } else {
                cur.push(l);
            }
        }
        out.finish("replay");
        return;
    }
    let mut rng = Rng::new(opts.seed ^ 0xC05);
    let mut skipped = vec![];
    for p in PROGS {
        match gen_case(p, &mut rng, opts.thorough(), &consensus) {
            None => skipped.push(p.name),
            Some(lines) => {
                let t0 = std::time::Instant::now();
                out.begin_case(p.name);
                exec_case(&lines, &mut out, &consensus, &rt);
                // signal path (oracle only: pause instants are wall-clock, not observable), raw and
                // through the ContextualTransactionVerifier wrapper
                if let Some(c) = make_case(p, &consensus) {
                    let need = c.need;
                    let n = if need > 4096 { if opts.thorough() { 10 } else { 4 } } else if opts.thorough() { 32 } else { 8 } * opts.scale;
                    for i in 0..n {
                        // the first runs send no signal at all: the production path must then be exactly
                        // `verify` (budget one below the need, and the need itself); then random signals
                        let toggles = if i < 2 { 0 } else { rng.range(0, 4) };
                        let budget = if i == 0 { need.saturating_sub(1) } else if i == 1 { need } else { *rng.pick(&[u64::MAX, need, need + 1, need.saturating_sub(1), need / 2]) };
                        let via_ctx = i % 3 == 2 || (i < 2 && p.name.len() % 2 == 0);
                        let tag = if via_ctx { "ctx-signal" } else { "signal" };
                        let r = match std::panic::catch_unwind(std::panic::AssertUnwindSafe(|| run_signal(&rt, &c, via_ctx, budget, &mut rng, toggles))) {
                            Ok(r) => r,
                            Err(_) => {
                                // debug builds: `debug_assert!(consumed_cycles <= max_cycles)` in
                                // chunk_run_with_signal fires after a Resume — the F4b symptom
                                out.op(&format!("note {tag} budget={budget} toggles={toggles}"), "ok");
                                out.count("op:signal-panic");
                                if budget < need {
                                    out.oracle_fail("signal-succeeds-below-cost", &format!("budget={budget} cost={need} the verifier's own debug assertion `consumed <= max_cycles` fired (panic) toggles={toggles}"));
                                } else {
                                    out.oracle_fail("signal-panics", &format!("budget={budget} cost={need} toggles={toggles}"));
                                }
                                continue;
                            }
                        };
                        out.op(&format!("note {tag} budget={budget} toggles={toggles}"), "ok");
                        out.count(&format!("op:{tag}"));
                        if toggles == 0 {
                            // no Suspend was ever sent: F4b cannot apply, the run is the one-shot run
                            out.count("op:signal-without-pause");
                            let one = c.v.verify(budget);
                            if payload(&r) != payload(&one) {
                                out.oracle_fail("signal-without-pause-differs-from-verify", &format!("budget={budget} cost={need} verify=[{}] signal=[{}] via_ctx={via_ctx}", payload(&one), payload(&r)));
                            }
                        }
                        if budget < need {
                            if let Ok(n) = &r {
                                if toggles > 0 {
                                    out.oracle_fail("signal-succeeds-below-cost", &format!("budget={budget} cost={need} returned=ok {n} toggles={toggles}"));
                                }
                            }
                        } else if payload(&r) != c.unlimited {
                            let class = if c.all_ok { "signal-differs-with-sufficient-budget" } else { "signal-differs-from-oneshot" };
                            out.oracle_fail(class, &format!("budget={budget} cost={need} oneshot=[{}] signal=[{}] via_ctx={via_ctx}", c.unlimited, payload(&r)));
                        }
                    }
                }
                if std::env::var("VERIF_SHOW_PANIC").is_ok() {
                    eprintln!("case {} ({} ops) {:?}", p.name, lines.len(), t0.elapsed());
                }
            }
        }
    }
    out.extra.insert("programs_skipped".into(), serde_json::json!(skipped));
    out.finish("a chunk schedule is non-trivial if the run was suspended at least once (fingerprint: schedule shape / number of rounds); every suspend+complete pair (fingerprint: entry point / suspended group index / result class); every resumable_verify call that suspends (fingerprint: group) and every suspend + resume_from_state pair (fingerprint: group / result class)");
}
