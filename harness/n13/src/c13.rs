//! C13 — node-level correspondence harness (stub; see /verif/AGENT_GUIDE.md).
use crate::common::*;

pub fn run(_opts: &Opts) {
    eprintln!("C13: harness not implemented");
    std::process::exit(2);
}
