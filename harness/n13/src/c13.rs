//! C13 — every block template handed to miners would be accepted by the node itself.
//!
//! A real node with the tx-pool service and the block assembler (`PNode`, own starter so that the
//! assembler's `update_interval_millis` and the consensus limits can be chosen per case) is driven
//! through random scenarios; three *copy nodes* without pool receive exactly the same blocks (in the
//! same order) and act as the acceptance oracle for every template.
//!
//! Op lines (one world per `case`; the model answers `ok` to every scenario op and computes the
//! answers of the view ops):
//!   cfg <epoch_len> <w_close> <w_far> <max_block_bytes> <max_block_cycles> <max_proposals>
//!       <max_uncles> <ba_interval_ms> <max_ancestors>                       -> ok
//!   submit <tid> <t.i,t.i,..> <n_out> <fee>   tx `tid` spends outputs i of txs t (t=0: genesis cell i)   -> ok
//!   wait <ms>                                                                -> ok
//!   template [<bytes_limit> <proposals_limit> <max_version>]
//!                           fetch a template now (optionally with get_block_template's argument limits), seal
//!                           it, have a copy node at the template's parent verify it (HeaderVerifier + process =
//!                           full verification) -> ok
//!   mine <sync>             the same, then the main node and the other copies process the block;
//!                           sync=1: wait until the pool has processed the new tip     -> ok
//!   fork <back> <extra> <nprop> <ncommit> <sync>   ChainBuilder branch from `back` blocks below the tip,
//!                           `back+extra` blocks long, first block proposes the first nprop known txs,
//!                           later blocks commit up to ncommit of them (those resolvable on that branch) -> ok
//!   uncle <depth> <nprop>   a sibling of the main-chain block `depth` below the tip is processed      -> ok
//!   select <size_limit> <cycles_limit>   atomically (under the pool read lock, `verif_read`) dump the
//!                           PoolMap and run the real `TxSelector::txs_to_commit` with these limits; emits
//!       pool                                                             -> ok
//!       ent <id> <proposed> <size> <cycles> <fee> <anc_count> <anc_size> <anc_cycles> <anc_fee>
//!           <key.fee> <key.weight> <key.anc_fee> <key.anc_weight> <tie> <parents> <children>   -> ok   (slab order)
//!       closure <id>        -> anc=<sorted calc_ancestors> desc=<sorted calc_descendants>
//!       hyp                 -> links=<0|1> exact=<0|1> agg=<0|1> key=<0|1>   (the theorems' hypotheses on this pool:
//!                              LinksOk, LinksExact, AggExact, KeysOk)
//!       select <sl> <cl>    -> <ids in output order|-> size=<n> cycles=<n>     (when hyp is all 1)
//!       select-stale <sl> <cl> -> stale      (when hyp fails: the real result then depends on HashSet
//!                                             iteration order; only the oracle judges such probes)
//!     (`pool`, `ent`, `closure`, `hyp` lines are derived data: ignored when replayed, `select` regenerates them)
//!   make <tid> <t.i,..> <n_out> <fee> [<pad>]   build tx `tid` WITHOUT submitting it (pad: extra bytes of
//!                           output data, i.e. serialized size + pad)                              -> ok
//!   send <tid>              submit a tx built by `make` (when its id is already inside the proposal
//!                           window it enters as Proposed -> the incremental update_transactions path) -> ok
//!   propose <tid,..>        a ChainBuilder block on the tip proposing these ids is processed          -> ok
//!   tsize <max> <U> <base> <|uncles|> <|proposals|> <Σ tx sizes> <size.txs> <size.proposals> <size.uncles> <size.total>
//!                           (derived, after every scenario op: the assembler's TemplateSize next to the
//!                            real sizes of its template, read under its lock) -> total=<b> parts=<b> le=<b> inv=<b>
//!   weight <size> <cycles>  -> get_transaction_weight
//!   step <kind> <back>      run ONE real update path of the block assembler inside the service (hook
//!                           `verif_assembler_step`): 0 update_blank(snapshot; back = k > 0: the snapshot of the k-th
//!                           previous tip), 1 update_full, 2 update_uncles, 3 update_proposals,
//!                           4 update_transactions -> ok; followed by the derived lines (pool dump for kinds 1, 4 and)
//!       astep ...           state before, candidates, pending ids, resolve-check set -> template uncles / proposals /
//!                           txs / TemplateSize / candidates left, compared with `AssemblerSvc.gstep` (see do_astep)
//!   cu-new | cu-ins <id> <number> | cu-rm <id> <number> | cu-has <id> <number> | cu-vals
//!                           the real `CandidateUncles` driven directly (no node): insert -> <0|1> len=<n>,
//!                           remove_by_number -> <0|1> len=<n>, contains -> <0|1>, values -> <height>:<ids>;...
//!
//! Oracle (implementation alone): class `template-rejected` (copy node did not answer Ok(true)),
//! `template-header`, `template-order` (a parent after its child), `template-unresolved` (an input that
//! is neither live on the template's parent chain nor created earlier in the template, or spent twice),
//! `template-size`, `template-cycles`, `template-proposals`, `template-uncles`, `template-cellbase`,
//! `selector-dup`, `selector-ancestors`, `selector-order`, `selector-limits`, `selector-sums`,
//! `template-size-bookkeeping` (TemplateSize differs from the real sizes of the template it describes),
//! `template-updated-from-pool-on-other-tip` (an explicit update_full / update_proposals / update_transactions step
//! changed proposals or transactions while the pool's snapshot was on another tip than the assembler's),
//! `template-header-fields`, `template-part-not-fresh` (after an explicit step: number / parent / target follow the
//! template's own snapshot and epoch; cellbase / extension / dao are what the builders give for it),
//! `candidate-uncles-overfull` / `-order` / `-count` (directly driven container).
use crate::common::*;
use crate::node::*;
use ckb_app_config::{BlockAssemblerConfig, NetworkConfig, TxPoolConfig};
use ckb_chain::ChainServiceScope;
use ckb_chain_spec::consensus::Consensus;
use ckb_jsonrpc_types::ScriptHashType;
use ckb_network::{Flags, NetworkController, NetworkService, NetworkState, network::TransportType};
use ckb_reward_calculator::RewardCalculator;
use ckb_shared::{Shared, SharedBuilder};
use ckb_store::ChainStore;
use ckb_tx_pool::verif::{Status, TxSelector};
use ckb_types::core::tx_pool::get_transaction_weight;
use ckb_types::core::{BlockView, Capacity, TransactionView};
use ckb_types::packed::{self, Byte32, OutPoint, ProposalShortId};
use ckb_types::prelude::*;
use ckb_types::h256;
use ckb_verification::HeaderVerifier;
use ckb_verification_traits::Verifier;
use std::collections::{HashMap, HashSet};
use std::path::{Path, PathBuf};
use std::sync::Arc;
use std::time::{Duration, Instant};

/// Set by the panic hook when a tx-pool service task of the REAL code panics with "invalid key" inside PoolMap's
/// multi-index map (tx-pool/src/component/pool_map.rs; reached through score_sorted_iter_by_status / get_proposals /
/// the selector after reorganisation histories that re-add parents behind pooled children — the defect eng-C12
/// found in round 6, listed class `pool-map-invalid-key-panic`). The request that hit it is answered with "receiving
/// on a closed channel", the block-assembler task may be dead: the node hands out no (fresh) template any more. The
/// panic is reported ONCE per case as an oracle failure of exactly that class; the rest of the case is counted, not
/// judged; the next case starts a fresh node.
static POOL_MAP_PANIC: std::sync::atomic::AtomicBool = std::sync::atomic::AtomicBool::new(false);

/// Set by the panic hook when `TxSelector::txs_to_commit` itself panics: its temporary `modified_entries`
/// multi-index map (tx-pool/src/component/tx_selector.rs:11, `#[derive(MultiIndexMap)] struct ModifiedTx`) fails in
/// `remove_by_id` with "Internal invariants broken, unable to find element in index … despite being present in
/// another". Seen (thorough, seed 1, case 140; seeded/C13/findings-round6/) on a pool whose maintained ancestors_*
/// are stale (C11's F3): `sub_ancestor_weight` then saturates and the score keys of modified entries stop being a
/// consistent order. In production the same call is `package_txs` in update_full / update_transactions: the task that
/// runs it dies (block-assembler loop or the reorg handler). NEW class, not yet listed: counted, not failing
/// (`selector-index-panic-…-seen`); the rest of the case is counted, not judged; the next case starts a fresh node.
static SELECTOR_PANIC: std::sync::atomic::AtomicBool = std::sync::atomic::AtomicBool::new(false);

fn pool_map_panicked() -> bool {
    POOL_MAP_PANIC.load(std::sync::atomic::Ordering::SeqCst) || SELECTOR_PANIC.load(std::sync::atomic::Ordering::SeqCst)
}

fn install_panic_watch() {
    let prev = std::panic::take_hook();
    std::panic::set_hook(Box::new(move |info| {
        let at_pool_map = info.location().map_or(false, |l| l.file().ends_with("tx-pool/src/component/pool_map.rs"));
        let msg = info.payload().downcast_ref::<&str>().map(|s| s.to_string()).or_else(|| info.payload().downcast_ref::<String>().cloned()).unwrap_or_default();
        if at_pool_map && msg.contains("invalid key") {
            POOL_MAP_PANIC.store(true, std::sync::atomic::Ordering::SeqCst);
        }
        let at_selector = info.location().map_or(false, |l| l.file().ends_with("tx-pool/src/component/tx_selector.rs"));
        if at_selector && msg.contains("Internal invariants broken") {
            SELECTOR_PANIC.store(true, std::sync::atomic::Ordering::SeqCst);
        }
        prev(info);
    }));
}

/// the panic itself is the reported event (listed class pool-map-invalid-key-panic), once per case
fn report_pool_map_panic(w: &mut World, out: &mut Out) {
    if SELECTOR_PANIC.load(std::sync::atomic::Ordering::SeqCst) && !POOL_MAP_PANIC.load(std::sync::atomic::Ordering::SeqCst) && !w.panic_reported {
        w.panic_reported = true;
        // new class, counted until the coordinator lists it (see SELECTOR_PANIC)
        if pool_aggregates_stale(w) || w.stale() {
            out.count("selector-index-panic-stale-aggregates-seen");
        } else {
            out.count("selector-index-panic-seen");
        }
        if std::env::var("C13_REPORT_SELECTOR_PANIC").is_ok() {
            out.oracle_fail("selector-index-panic-stale-aggregates", "TxSelector::txs_to_commit panicked inside its modified_entries multi-index map (tx_selector.rs:11, remove_by_id: Internal invariants broken); the rest of the case is not judged");
        }
        return;
    }
    if POOL_MAP_PANIC.load(std::sync::atomic::Ordering::SeqCst) && !w.panic_reported {
        w.panic_reported = true;
        out.count("pool-map-invalid-key-panic-seen");
        out.oracle_fail("pool-map-invalid-key-panic", "a tx-pool service task of the real code panicked with `invalid key` inside PoolMap's multi-index map (tx-pool/src/component/pool_map.rs): requests are answered with a closed channel / the block assembler stops updating; the rest of the case is not judged");
    }
}

// ------------------------------------------------------------------------------------------------
// pool node (Node::start with a configurable block-assembler interval)
// ------------------------------------------------------------------------------------------------

pub struct PNode {
    pub shared: Shared,
    chain: Option<ChainServiceScope>,
    _network: NetworkController,
}

fn dummy_network(shared: &Shared, dir: &Path) -> NetworkController {
    let config = NetworkConfig {
        max_peers: 19,
        max_outbound_peers: 5,
        path: dir.join("network"),
        ping_interval_secs: 15,
        ping_timeout_secs: 20,
        connect_outbound_interval_secs: 1,
        discovery_local_address: true,
        bootnode_mode: true,
        reuse_port_on_linux: true,
        ..Default::default()
    };
    let network_state = Arc::new(NetworkState::from_config(config).expect("Init network state failed"));
    NetworkService::new(
        network_state,
        vec![],
        vec![],
        (shared.consensus().identify_name(), "test".to_string(), Flags::COMPATIBILITY),
        TransportType::Tcp,
    )
    .start(shared.async_handle())
    .expect("Start network service failed")
}

impl PNode {
    pub fn start(dir: &Path, consensus: Consensus, tx_pool: TxPoolConfig, interval_ms: u64) -> PNode {
        std::fs::create_dir_all(dir.join("header_map")).unwrap();
        let db_config = ckb_app_config::DBConfig { path: dir.join("db"), ..Default::default() };
        let builder = SharedBuilder::new("verif", dir, &db_config, None, runtime_handle(), consensus)
            .unwrap_or_else(|e| panic!("SharedBuilder::new failed: {e:?}"))
            .header_map_tmp_dir(Some(dir.join("header_map")))
            .tx_pool_config(tx_pool);
        let ba = BlockAssemblerConfig {
            code_hash: h256!("0x0"),
            args: Default::default(),
            hash_type: ScriptHashType::Data,
            message: Default::default(),
            use_binary_version_as_message_prefix: false,
            binary_version: "TEST".to_string(),
            update_interval_millis: interval_ms,
            notify: vec![],
            notify_scripts: vec![],
            notify_timeout_millis: 800,
        };
        let (shared, mut pack) = builder.block_assembler_config(Some(ba)).build().unwrap_or_else(|e| panic!("SharedBuilder::build failed: {e:?}"));
        let n = dummy_network(&shared, dir);
        pack.take_tx_pool_builder().start(n.clone());
        let chain = ChainServiceScope::new(pack.take_chain_services_builder());
        PNode { shared, chain: Some(chain), _network: n }
    }
    pub fn process(&self, block: &BlockView) -> Result<bool, String> {
        self.chain.as_ref().unwrap().chain_controller().blocking_process_block(Arc::new(block.clone())).map_err(|e| e.to_string())
    }
    pub fn tip_hash(&self) -> Byte32 {
        self.shared.snapshot().tip_hash()
    }
    pub fn stop(mut self) {
        self.chain.take();
    }
}

// ------------------------------------------------------------------------------------------------
// world
// ------------------------------------------------------------------------------------------------

#[derive(Clone, Debug)]
struct Cfg {
    epoch_len: u64,
    w_close: u64,
    w_far: u64,
    max_bytes: u64,
    max_cycles: u64,
    max_proposals: u64,
    max_uncles: u64,
    interval_ms: u64,
    max_ancestors: u64,
}

struct Copy {
    node: Node,
    cursor: usize,
}

struct World {
    dir: PathBuf,
    cfg: Cfg,
    consensus: Consensus,
    main: PNode,
    copies: Vec<Copy>,
    /// every block the main node processed, in that order
    log: Vec<BlockView>,
    builder: ChainBuilder,
    txs: Vec<TransactionView>,
    tid_by_short: HashMap<ProposalShortId, usize>,
    tid_by_hash: HashMap<Byte32, usize>,
    gcells: Vec<(OutPoint, u64)>,
    salt: u64,
    /// op number at which a pool dump last showed maintained ancestors_* != recomputation (C11's F3)
    stale_op: Option<u64>,
    op_no: u64,
    /// small ids of block hashes (candidate uncles and their parents) for the `astep` lines
    bid: HashMap<Byte32, usize>,
    /// snapshots of the main node's earlier tips (for `step 0 <back>`: update_blank on an OLDER tip)
    snaps: Vec<Arc<ckb_snapshot::Snapshot>>,
    /// the pool-map panic of this case has been reported
    panic_reported: bool,
}

fn cap_of(tx: &TransactionView, i: usize) -> u64 {
    let c: Capacity = tx.outputs().get(i).expect("output index").capacity().unpack();
    c.as_u64()
}

impl World {
    fn new(base: &Path, case: u64, cfg: Cfg) -> World {
        // a fresh node: the pool-map panic of an earlier case (if any) is history
        POOL_MAP_PANIC.store(false, std::sync::atomic::Ordering::SeqCst);
        SELECTOR_PANIC.store(false, std::sync::atomic::Ordering::SeqCst);
        let dir = base.join(format!("case-{case}"));
        let _ = std::fs::remove_dir_all(&dir);
        std::fs::create_dir_all(&dir).unwrap();
        let ncfg = NodeCfg { epoch_len: cfg.epoch_len, window: (cfg.w_close, cfg.w_far), genesis_cells: 40, maturity_epochs: 0, with_pool: false, tx_pool: None };
        let mut consensus = make_consensus(&ncfg);
        consensus.max_block_bytes = cfg.max_bytes;
        consensus.max_block_cycles = cfg.max_cycles;
        consensus.max_block_proposals_limit = cfg.max_proposals;
        consensus.max_uncles_num = cfg.max_uncles as usize;
        let mut tp = TxPoolConfig::default();
        tp.max_ancestors_count = cfg.max_ancestors as usize;
        let main = PNode::start(&dir.join("main"), consensus.clone(), tp, cfg.interval_ms);
        let copies = (0..3).map(|i| Copy { node: Node::start(&dir.join(format!("copy-{i}")), consensus.clone(), &ncfg), cursor: 0 }).collect();
        let builder = ChainBuilder::new(consensus.clone(), &dir.join("builder"));
        let gcells = genesis_cells(&consensus);
        World { dir, cfg, consensus, main, copies, log: vec![], builder, txs: vec![], tid_by_short: HashMap::new(), tid_by_hash: HashMap::new(), gcells, salt: 1000, stale_op: None, op_no: 0, bid: HashMap::new(), snaps: vec![], panic_reported: false }
    }

    fn finish(self) {
        let World { dir, main, copies, builder, .. } = self;
        drop(builder);
        for c in copies {
            c.node.stop();
        }
        main.stop();
        let _ = std::fs::remove_dir_all(dir);
    }

    /// the pool's aggregates were seen stale now or within the last 3 ops (templates are built
    /// asynchronously, a little before they are fetched)
    fn stale(&self) -> bool {
        self.stale_op.map_or(false, |o| self.op_no - o <= 3)
    }

    fn tpc(&self) -> &ckb_tx_pool::TxPoolController {
        self.main.shared.tx_pool_controller()
    }

    /// wait until the pool's snapshot is at the main node's tip (reorg notification processed)
    fn sync_pool(&self, out: &mut Out) {
        let t = Instant::now();
        loop {
            let tip = self.main.tip_hash();
            if let Ok(info) = self.tpc().get_tx_pool_info() {
                if info.tip_hash == tip {
                    break;
                }
            }
            if pool_map_panicked() {
                break;
            }
            if t.elapsed() > Duration::from_secs(20) {
                out.count("sync-timeout");
                break;
            }
            std::thread::sleep(Duration::from_millis(2));
        }
        // the assembler's update_full runs right after the pool update on the same task; a
        // synchronous request ordered after it is not available, so give it a moment
        std::thread::sleep(Duration::from_millis(3));
    }

    /// main node processes a block; it is appended to the log the copies follow
    fn main_process(&mut self, b: &BlockView) -> Result<bool, String> {
        let r = self.main.process(b);
        {
            let snap = Arc::clone(&self.main.shared.snapshot());
            if self.snaps.last().map_or(true, |l| l.tip_hash() != snap.tip_hash()) {
                self.snaps.push(snap);
                if self.snaps.len() > 6 {
                    self.snaps.remove(0);
                }
            }
        }
        self.log.push(b.clone());
        self.builder.blocks.entry(b.hash()).or_insert_with(|| b.clone());
        r
    }

    /// a copy node whose tip is `parent` (feeding it logged blocks as far as needed), if any
    fn copy_at(&mut self, parent: &Byte32) -> Option<usize> {
        for i in 0..self.copies.len() {
            loop {
                if &self.copies[i].node.tip_hash() == parent {
                    return Some(i);
                }
                let c = self.copies[i].cursor;
                if c >= self.log.len() {
                    break;
                }
                let b = self.log[c].clone();
                let _ = self.copies[i].node.process(&b);
                self.copies[i].cursor += 1;
            }
        }
        None
    }

    fn out_point(&self, t: usize, i: usize) -> (OutPoint, u64) {
        if t == 0 {
            self.gcells[i].clone()
        } else {
            let tx = &self.txs[t - 1];
            (OutPoint::new(tx.hash(), i as u32), cap_of(tx, i))
        }
    }

    fn main_chain_hash_below_tip(&self, depth: u64) -> Byte32 {
        let snap = self.main.shared.snapshot();
        let n = snap.tip_number().saturating_sub(depth);
        snap.get_block_hash(n).expect("main chain hash")
    }
}

// ------------------------------------------------------------------------------------------------
// template oracle
// ------------------------------------------------------------------------------------------------

/// true iff some entry's maintained ancestors_{count,size,cycles,fee} differ from the recomputation
/// over the implementation's own calc_ancestors
fn pool_aggregates_stale(w: &World) -> bool {
    w.tpc()
        .verif_read(|pool| {
            let pm = pool.verif_pool_map();
            let d = pm.verif_dump();
            let by: HashMap<ProposalShortId, &ckb_tx_pool::verif::EntryDump> = d.entries.iter().map(|e| (e.id.clone(), e)).collect();
            d.entries.iter().any(|e| {
                let a = pm.verif_calc_ancestors(&e.id);
                let t = &e.entry;
                let sz: u64 = a.iter().filter_map(|x| by.get(x)).map(|x| x.entry.size as u64).sum();
                let cy: u64 = a.iter().filter_map(|x| by.get(x)).map(|x| x.entry.cycles).sum();
                let fe: u64 = a.iter().filter_map(|x| by.get(x)).map(|x| x.entry.fee.as_u64()).sum();
                t.ancestors_count != a.len() + 1 || t.ancestors_size as u64 != t.size as u64 + sz || t.ancestors_cycles != t.cycles + cy || t.ancestors_fee.as_u64() != t.fee.as_u64() + fe
            })
        })
        .unwrap_or(false)
}

/// failures that coincide with stale pool aggregates are the known consequence of C11's F3 (F8)
fn fail(stale: bool, out: &mut Out, class: &str, detail: &str) {
    if stale {
        out.oracle_fail(&format!("{class}-stale-aggregates"), detail);
    } else {
        out.oracle_fail(class, detail);
    }
}

fn check_template(w: &mut World, out: &mut Out, mine: bool) -> Option<BlockView> {
    check_template_args(w, out, mine, None)
}

/// `args` = get_block_template's (bytes_limit, proposals_limit, max_version); whatever the caller asks
/// for, what is handed out must be acceptable to the node itself
fn check_template_args(w: &mut World, out: &mut Out, mine: bool, args: Option<(u64, u64, u32)>) -> Option<BlockView> {
    let (a, b, c) = match args {
        Some((b, p, v)) => (Some(b), Some(p), Some(v)),
        None => (None, None, None),
    };
    if args.is_some() {
        out.count("template-with-arg-limits");
    }
    let tmpl = match w.tpc().get_block_template(a, b, c) {
        Ok(Ok(t)) => t,
        other => {
            out.count("template-error");
            let _ = other;
            return None;
        }
    };
    if pool_aggregates_stale(w) {
        w.stale_op = Some(w.op_no);
    }
    let stale = w.stale();
    let cycles: u64 = tmpl.transactions.iter().map(|t| t.cycles.map(|c| c.value()).unwrap_or(0)).sum();
    let block: packed::Block = tmpl.into();
    let block = block.into_view();
    let parent = block.parent_hash();
    out.count("template");
    if block.transactions().len() > 1 {
        out.count("template-with-txs");
    }
    if !block.uncles().hashes().is_empty() {
        out.count("template-with-uncles");
    }
    if !block.data().proposals().is_empty() {
        out.count("template-with-proposals");
    }
    if parent != w.main.tip_hash() {
        out.count("template-on-older-tip");
    }
    let detail = |b: &BlockView| format!("number={} txs={} proposals={} uncles={}", b.number(), b.transactions().len() - 1, b.data().proposals().len(), b.uncles().hashes().len());
    // --- structural checks on the template itself
    let cons = w.consensus.clone();
    let size = block.data().serialized_size_without_uncle_proposals() as u64;
    if size > cons.max_block_bytes {
        fail(stale, out, "template-size", &format!("{} size={} max={}", detail(&block), size, cons.max_block_bytes));
    }
    if size + 400 > cons.max_block_bytes {
        out.count("template-size-near-limit");
    }
    if size == cons.max_block_bytes {
        out.count("template-size-exactly-max");
    } else if size + 10 > cons.max_block_bytes && size <= cons.max_block_bytes {
        out.count("template-size-within-one-proposal-id");
    } else if size + 228 > cons.max_block_bytes && size <= cons.max_block_bytes {
        out.count("template-size-within-one-uncle");
    }
    if block.data().proposals().len() as u64 == cons.max_block_proposals_limit {
        out.count("template-proposals-at-limit");
    }
    if block.uncles().hashes().len() == cons.max_uncles_num && cons.max_uncles_num > 0 {
        out.count("template-uncles-at-limit");
    }
    {
        // the template is for the first / last block of an epoch
        let e = block.epoch();
        if e.index() == 0 && block.number() > 0 {
            out.count("template-first-block-of-epoch");
        }
        if e.index() + 1 == e.length() {
            out.count("template-last-block-of-epoch");
        }
    }
    if cycles > cons.max_block_cycles {
        fail(stale, out, "template-cycles", &format!("{} cycles={} max={}", detail(&block), cycles, cons.max_block_cycles));
    }
    if cycles + 600 > cons.max_block_cycles && cycles > 0 {
        out.count("template-cycles-near-limit");
    }
    if block.data().proposals().len() as u64 > cons.max_block_proposals_limit {
        out.oracle_fail("template-proposals", &detail(&block));
    }
    if block.uncles().hashes().len() > cons.max_uncles_num {
        out.oracle_fail("template-uncles", &detail(&block));
    }
    // parents first / every input live on the parent chain or created earlier in the template, spent once
    let ci = w.copy_at(&parent);
    {
        let mut created: HashMap<Byte32, usize> = HashMap::new();
        let mut spent: HashSet<OutPoint> = HashSet::new();
        let all: HashSet<Byte32> = block.transactions().iter().map(|t| t.hash()).collect();
        for (pos, tx) in block.transactions().iter().enumerate().skip(1) {
            for op in tx.input_pts_iter() {
                if !spent.insert(op.clone()) {
                    fail(stale, out, "template-unresolved", &format!("{} input spent twice", detail(&block)));
                }
                let h = op.tx_hash();
                if created.contains_key(&h) {
                    continue;
                }
                if all.contains(&h) {
                    fail(stale, out, "template-order", &format!("{} tx at {} spends an output of a later template tx", detail(&block), pos));
                    continue;
                }
                if let Some(i) = ci {
                    if !w.copies[i].node.store().have_cell(&op) {
                        let inpool = w.tid_by_hash.get(&h).map(|t| format!("tx{t}")).unwrap_or_else(|| "?".into());
                        fail(stale, out, "template-unresolved", &format!("{} tx at {} has an input ({}) that is not live on the parent chain and not in the template", detail(&block), pos, inpool));
                    }
                }
            }
            created.insert(tx.hash(), pos);
        }
    }
    // --- acceptance by a copy node that is exactly at the template's parent
    match ci {
        None => {
            out.count("template-no-copy-at-parent");
        }
        Some(i) => {
            let copy = &w.copies[i].node;
            let snap = copy.shared.snapshot();
            // cellbase = RewardCalculator for the parent
            let parent_header = snap.get_block_header(&parent).expect("parent header");
            let cb = block.transactions()[0].clone();
            if block.number() > cons.finalization_delay_length() {
                match RewardCalculator::new(&cons, snap.as_ref()).block_reward_to_finalize(&parent_header) {
                    Ok((lock, reward)) => {
                        let o = cb.outputs().get(0);
                        let ok = match o {
                            Some(o) => {
                                let c: Capacity = o.capacity().unpack();
                                c == reward.total && o.lock() == lock && cb.outputs().len() == 1
                            }
                            None => false,
                        };
                        if !ok {
                            out.oracle_fail("template-cellbase", &detail(&block));
                        }
                    }
                    Err(_) => out.count("reward-calc-error"),
                }
            } else if !cb.outputs().is_empty() {
                out.oracle_fail("template-cellbase", &format!("{} output before finalization delay", detail(&block)));
            }
            if let Err(e) = HeaderVerifier::new(snap.as_ref(), &cons).verify(&block.header()) {
                out.oracle_fail("template-header", &format!("{} {}", detail(&block), e));
            }
            let r = copy.process(&block);
            if r != Ok(true) {
                fail(stale, out, "template-rejected", &format!("{} -> {:?}", detail(&block), r));
            } else {
                out.count("template-accepted");
            }
            if copy.tip_hash() != block.hash() {
                fail(stale, out, "template-rejected", &format!("{} accepted but not the copy's tip", detail(&block)));
            }
        }
    }
    let _ = mine;
    Some(block)
}

// ------------------------------------------------------------------------------------------------
// selector view
// ------------------------------------------------------------------------------------------------

struct SelRes {
    dump: ckb_tx_pool::verif::PoolDump,
    anc: HashMap<ProposalShortId, HashSet<ProposalShortId>>,
    desc: HashMap<ProposalShortId, HashSet<ProposalShortId>>,
    sel: Vec<(ProposalShortId, usize, u64)>,
    size: usize,
    cycles: u64,
}

fn list(mut v: Vec<usize>) -> String {
    v.sort();
    if v.is_empty() { "-".into() } else { v.iter().map(|x| x.to_string()).collect::<Vec<_>>().join(",") }
}

fn do_select(w: &mut World, out: &mut Out, sl: u64, cl: u64) {
    let res = w.tpc().verif_read(move |pool| {
        let pm = pool.verif_pool_map();
        let dump = pm.verif_dump();
        let mut anc = HashMap::new();
        let mut desc = HashMap::new();
        for e in &dump.entries {
            anc.insert(e.id.clone(), pm.verif_calc_ancestors(&e.id));
            desc.insert(e.id.clone(), pm.verif_calc_descendants(&e.id));
        }
        let (ents, size, cycles) = TxSelector::new(pm).txs_to_commit(sl as usize, cl);
        let sel = ents.iter().map(|e| (e.proposal_short_id(), e.size, e.cycles)).collect();
        SelRes { dump, anc, desc, sel, size, cycles }
    });
    let r = match res {
        Ok(r) => r,
        Err(_) if pool_map_panicked() => {
            // the probe itself (dump / calc_ancestors / the real selector) hit the PoolMap panic
            report_pool_map_panic(w, out);
            out.count("select-hit-pool-map-invalid-key-panic");
            return;
        }
        Err(e) => panic!("verif_read failed: {e}"),
    };
    let pos: HashMap<ProposalShortId, usize> = r.sel.iter().enumerate().map(|(i, (id, _, _))| (id.clone(), i)).collect();
    let (links_ok, agg_ok, key_ok, n_prop) = emit_view(w, out, &r, &pos);
    let stale = w.stale();
    let ids: HashSet<ProposalShortId> = r.dump.entries.iter().map(|e| e.id.clone()).collect();
    let by_id: HashMap<ProposalShortId, &ckb_tx_pool::verif::EntryDump> = r.dump.entries.iter().map(|e| (e.id.clone(), e)).collect();
    do_select_tail(w, out, &r, sl, cl, links_ok, agg_ok, key_ok, n_prop, stale, &ids, &by_id);
}

/// the `pool` / `ent` / `closure` / `hyp` lines of a dumped pool; `pos` = tie ranks taken from the
/// implementation's own output. Returns (links_ok, agg_ok, key_ok, number of proposed entries).
fn emit_view(w: &mut World, out: &mut Out, r: &SelRes, pos: &HashMap<ProposalShortId, usize>) -> (bool, bool, bool, usize) {
    let tid = |id: &ProposalShortId| -> usize { *w.tid_by_short.get(id).expect("pool tx known to the harness") };
    out.op("pool", "ok");
    let links: HashMap<ProposalShortId, (Vec<ProposalShortId>, Vec<ProposalShortId>)> = r.dump.links.iter().map(|(id, p, c)| (id.clone(), (p.clone(), c.clone()))).collect();
    let by_id: HashMap<ProposalShortId, &ckb_tx_pool::verif::EntryDump> = r.dump.entries.iter().map(|e| (e.id.clone(), e)).collect();
    let mut n_prop = 0;
    for (slab_pos, e) in r.dump.entries.iter().enumerate() {
        let t = &e.entry;
        let (ps, cs) = links.get(&e.id).cloned().unwrap_or_default();
        let tie = pos.get(&e.id).cloned().unwrap_or(1_000_000 + slab_pos);
        if e.status == Status::Proposed {
            n_prop += 1;
        }
        out.op(
            &format!(
                "ent {} {} {} {} {} {} {} {} {} {} {} {} {} {} {} {}",
                tid(&e.id),
                (e.status == Status::Proposed) as u8,
                t.size,
                t.cycles,
                t.fee.as_u64(),
                t.ancestors_count,
                t.ancestors_size,
                t.ancestors_cycles,
                t.ancestors_fee.as_u64(),
                e.score.fee.as_u64(),
                e.score.weight,
                e.score.ancestors_fee.as_u64(),
                e.score.ancestors_weight,
                tie,
                list(ps.iter().map(&tid).collect()),
                list(cs.iter().map(&tid).collect()),
            ),
            "ok",
        );
    }
    // closures + hypotheses, computed from the implementation's own calc_ancestors/calc_descendants
    let ids: HashSet<ProposalShortId> = r.dump.entries.iter().map(|e| e.id.clone()).collect();
    let mut links_ok = true;
    let mut exact_ok = true;
    let mut agg_ok = true;
    let mut key_ok = true;
    for e in &r.dump.entries {
        let a = &r.anc[&e.id];
        let d = &r.desc[&e.id];
        out.op(&format!("closure {}", tid(&e.id)), &format!("anc={} desc={}", list(a.iter().map(&tid).collect()), list(d.iter().map(&tid).collect())));
        for x in a {
            if !ids.contains(x) {
                links_ok = false;
                continue;
            }
            if !r.anc[x].iter().all(|y| a.contains(y)) {
                links_ok = false;
            }
        }
        for x in d {
            if !ids.contains(x) || !r.anc[x].contains(&e.id) {
                links_ok = false;
            }
        }
        // LinksExact (hypothesis of selected_parents_first): acyclic, direct parents are ancestors,
        // calc_descendants is the exact inverse of calc_ancestors
        if a.contains(&e.id) {
            exact_ok = false;
        }
        if let Some((ps, _)) = links.get(&e.id) {
            if !ps.iter().all(|p| a.contains(p)) {
                exact_ok = false;
            }
        }
        for x in a {
            if !r.desc.get(x).map_or(false, |dx| dx.contains(&e.id)) {
                exact_ok = false;
            }
        }
        let t = &e.entry;
        let sum = |f: &dyn Fn(&ckb_tx_pool::verif::EntryDump) -> u64| -> u64 { a.iter().filter_map(|x| by_id.get(x)).map(|x| f(x)).sum() };
        if t.ancestors_count != a.len() + 1
            || t.ancestors_size as u64 != t.size as u64 + sum(&|x| x.entry.size as u64)
            || t.ancestors_cycles != t.cycles + sum(&|x| x.entry.cycles)
            || t.ancestors_fee.as_u64() != t.fee.as_u64() + sum(&|x| x.entry.fee.as_u64())
        {
            agg_ok = false;
        }
        if e.score != t.as_score_key() {
            key_ok = false;
        }
    }
    out.op("hyp", &format!("links={} exact={} agg={} key={}", links_ok as u8, exact_ok as u8, agg_ok as u8, key_ok as u8));
    if !exact_ok {
        out.count("view-links-not-exact");
    }
    if !agg_ok {
        out.count("view-aggregates-stale");
        w.stale_op = Some(w.op_no);
    }
    if !links_ok {
        out.count("view-links-inconsistent");
    }
    (links_ok, agg_ok, key_ok, n_prop)
}

#[allow(clippy::too_many_arguments)]
fn do_select_tail(
    w: &mut World,
    out: &mut Out,
    r: &SelRes,
    sl: u64,
    cl: u64,
    links_ok: bool,
    agg_ok: bool,
    key_ok: bool,
    n_prop: usize,
    stale: bool,
    ids: &HashSet<ProposalShortId>,
    by_id: &HashMap<ProposalShortId, &ckb_tx_pool::verif::EntryDump>,
) {
    let tid = |id: &ProposalShortId| -> usize { *w.tid_by_short.get(id).expect("pool tx known to the harness") };
    let sel_ids: Vec<usize> = r.sel.iter().map(|(id, _, _)| tid(id)).collect();
    let ans = format!("{} size={} cycles={}", if sel_ids.is_empty() { "-".to_string() } else { sel_ids.iter().map(|x| x.to_string()).collect::<Vec<_>>().join(",") }, r.size, r.cycles);
    // Exact comparison is meaningful only when the dumped pool satisfies the hypotheses of the
    // theorems (consistent links, maintained aggregates = recomputation, stored keys current): on a
    // stale pool (C11's F3) the real selector's result depends on HashSet iteration order (unstable
    // sort by a stale ancestors_count, slab slots of modified entries), so no deterministic model can
    // match it. Such probes are compared only as `stale`; the oracle below still judges them.
    if links_ok && agg_ok && key_ok {
        out.op(&format!("select {} {}", sl, cl), &ans);
        out.count("select");
    } else {
        out.op(&format!("select-stale {} {}", sl, cl), "stale");
        out.count("select-stale");
    }
    // --- oracle on the implementation's selection
    let d = format!("limits=({sl},{cl}) pool={} proposed={} selected={:?}", r.dump.entries.len(), n_prop, sel_ids);
    let mut seen: HashSet<ProposalShortId> = HashSet::new();
    let mut tsize = 0u64;
    let mut tcycles = 0u64;
    for (id, size, cycles) in &r.sel {
        if !seen.insert(id.clone()) {
            out.oracle_fail("selector-dup", &d);
        }
        tsize += *size as u64;
        tcycles += *cycles;
        match by_id.get(id) {
            Some(e) if e.status == Status::Proposed => {}
            _ => fail(stale, out, "selector-ancestors", &format!("{d}: tx{} is not a proposed pool entry", tid(id))),
        }
        for a in &r.anc[id] {
            if !seen.contains(a) {
                fail(stale, out, "selector-ancestors", &format!("{d}: tx{} appears without/before its in-pool ancestor tx{}", tid(id), tid(a)));
            }
        }
        // direct parents by the transactions' own inputs
        let tx = &w.txs[tid(id) - 1];
        for op in tx.input_pts_iter() {
            let pid = ProposalShortId::from_tx_hash(&op.tx_hash());
            if ids.contains(&pid) && !seen.contains(&pid) {
                fail(stale, out, "selector-order", &format!("{d}: tx{} before its parent tx{}", tid(id), tid(&pid)));
            }
        }
    }
    if tsize > sl || tcycles > cl {
        fail(stale, out, "selector-limits", &format!("{d}: total size {tsize} cycles {tcycles} hyp(agg)={}", agg_ok as u8));
    }
    if tsize != r.size as u64 || tcycles != r.cycles {
        out.oracle_fail("selector-sums", &d);
    }
    if r.sel.len() >= 2 {
        out.count("select-nontrivial");
    }
    if (r.sel.len() as usize) < n_prop {
        out.count("select-limit-binds");
    }
}

// ------------------------------------------------------------------------------------------------
// TemplateSize bookkeeping (Model/Template.lean's invariant on the real assembler state)
// ------------------------------------------------------------------------------------------------

fn emit_tsize(w: &mut World, out: &mut Out) {
    let r = match w.tpc().verif_assembler_size() {
        Ok(Some(r)) => r,
        _ => return,
    };
    let [s_txs, s_props, s_unc, s_total, n_unc, n_props, txs_actual, basic] = r.map(|x| x as u64);
    let u = ckb_types::core::UncleBlockView::serialized_size_in_block() as u64;
    let p = ProposalShortId::serialized_size() as u64;
    let max = w.consensus.max_block_bytes;
    let base = basic - u * n_unc - p * n_props;
    let actual = basic + txs_actual;
    let total_ok = s_total == actual;
    let parts_ok = s_txs == txs_actual && s_props == p * n_props && s_unc == u * n_unc;
    let le_ok = actual <= max;
    let b = |x: bool| x as u8;
    out.op(
        &format!("tsize {} {} {} {} {} {} {} {} {} {}", max, u, base, n_unc, n_props, txs_actual, s_txs, s_props, s_unc, s_total),
        &format!("total={} parts={} le={} inv={}", b(total_ok), b(parts_ok), b(le_ok), b(total_ok && parts_ok && le_ok)),
    );
    out.count("tsize");
    if !(total_ok && parts_ok) {
        out.oracle_fail("template-size-bookkeeping", &format!("size={{txs:{s_txs},proposals:{s_props},uncles:{s_unc},total:{s_total}}} but template has uncles={n_unc} proposals={n_props} txs_bytes={txs_actual} basic={basic} (real total {actual})"));
    }
    if !le_ok {
        if pool_aggregates_stale(w) {
            w.stale_op = Some(w.op_no);
        }
        fail(w.stale(), out, "template-size", &format!("assembler state: real total {actual} > max {max} (uncles={n_unc} proposals={n_props} txs_bytes={txs_actual})"));
    }
    if actual + 300 > max {
        out.count("tsize-within-300-of-limit");
    }
}


// ------------------------------------------------------------------------------------------------
// one real update path of the block assembler, compared with `AssemblerSvc.gstep` (Lean)
// ------------------------------------------------------------------------------------------------

/// wait until the assembler's background loop is idle (work_id stable over two reads)
fn settle_assembler(w: &World) {
    // interval >= 1000 ms = "manual" cases: the background loop only queues Pending / Proposed / Uncle
    // messages (its next tick is far away), the explicit `step` ops are the only incremental updates
    let iv = if w.cfg.interval_ms >= 1000 { 0 } else { w.cfg.interval_ms };
    std::thread::sleep(Duration::from_millis(if iv > 0 { iv + 4 } else { 3 }));
    let mut last = None;
    let mut same = 0;
    for _ in 0..30 {
        let id = w.tpc().get_block_template(None, None, None).ok().and_then(|r| r.ok()).map(|t| t.work_id.value());
        if id.is_some() && id == last {
            same += 1;
            if same >= 2 {
                break;
            }
        } else {
            same = 0;
        }
        last = id;
        std::thread::sleep(Duration::from_millis(if iv > 0 { iv + 2 } else { 2 }));
    }
}

fn dots(v: &[usize]) -> String {
    if v.is_empty() { "_".into() } else { v.iter().map(|x| x.to_string()).collect::<Vec<_>>().join(".") }
}

fn commas(v: &[usize]) -> String {
    if v.is_empty() { "-".into() } else { v.iter().map(|x| x.to_string()).collect::<Vec<_>>().join(",") }
}

/// `step <kind> <back>`: kind 0 `update_blank(snapshot)` (back = 0: the main node's current snapshot,
/// k > 0: the snapshot of the k-th previous tip), 1 `update_full`, 2 `update_uncles`,
/// 3 `update_proposals`, 4 `update_transactions`, each run inside the service exactly as
/// `block_assembler::process` runs it (hook `verif_assembler_step`). Emits the derived lines
/// (`pool`/`ent`/`closure`/`hyp` for kinds 1 and 4, then)
///   astep <kind> <same_tip> <U> <tip_number> <epoch_number> <epoch_target> <base>
///         <size.txs> <size.proposals> <size.uncles> <size.total> <template uncles> <template proposals>
///         <template txs> <candidates in values() order, with the snapshot's answers> <pending ids in
///         get_proposals order> <ids whose resolve check passes (computed here from the chain)>
///     -> uncles=<ids in order> props=<sorted> txs=<ids in order> size=<txs>,<proposals>,<uncles>,<total>
///        cands=<sorted ids left in the container>
fn do_astep(w: &mut World, out: &mut Out, kind: u8, back: usize) {
    // the pool has processed the main node's tip (an unsynchronised `mine 0` / `fork .. 0` may precede)
    w.sync_pool(out);
    settle_assembler(w);
    let snap_arg = if kind == 0 {
        let cur = Arc::clone(&w.main.shared.snapshot());
        if back == 0 || w.snaps.len() <= back {
            Some(cur)
        } else {
            let s = Arc::clone(&w.snaps[w.snaps.len() - 1 - back]);
            out.count("astep-blank-on-older-tip");
            Some(s)
        }
    } else {
        None
    };
    // the pool as the step will read it (nothing else talks to the service meanwhile)
    let pre = if kind == 1 || kind == 4 {
        let res = w.tpc().verif_read(move |pool| {
            let pm = pool.verif_pool_map();
            let dump = pm.verif_dump();
            let mut anc = HashMap::new();
            let mut desc = HashMap::new();
            for e in &dump.entries {
                anc.insert(e.id.clone(), pm.verif_calc_ancestors(&e.id));
                desc.insert(e.id.clone(), pm.verif_calc_descendants(&e.id));
            }
            SelRes { dump, anc, desc, sel: vec![], size: 0, cycles: 0 }
        });
        match res {
            Ok(r) => Some(r),
            Err(_) if pool_map_panicked() => {
                report_pool_map_panic(w, out);
                out.count("step-hit-pool-map-invalid-key-panic");
                return;
            }
            Err(e) => panic!("verif_read failed: {e}"),
        }
    } else {
        None
    };
    let snap_for_cb = snap_arg.clone();
    let r = match w.tpc().verif_assembler_step(kind, snap_arg) {
        Ok(Some(r)) => r,
        _ => {
            if pool_map_panicked() {
                report_pool_map_panic(w, out);
            }
            out.count("astep-error");
            return;
        }
    };
    if pool_map_panicked() {
        // the update path (or the hook's own selector re-run) panicked inside PoolMap: nothing to compare
        report_pool_map_panic(w, out);
        out.count("step-hit-pool-map-invalid-key-panic");
        return;
    }
    out.count(&format!("astep-kind-{kind}"));
    if r.after.work_id > r.before.work_id + 1 {
        // another update ran in between (never seen after settling); nothing to compare
        out.count("astep-raced");
        return;
    }
    let u_size = ckb_types::core::UncleBlockView::serialized_size_in_block();
    let p_size = ProposalShortId::serialized_size();
    let same_tip = r.pool_tip == r.before.tip_hash;
    // --- implementation-only oracle: the header fields of the template follow its own snapshot / epoch
    {
        let a = &r.after;
        if a.number != a.tip_number + 1 || a.parent_hash != a.tip_hash || a.compact_target != a.epoch_target {
            out.oracle_fail("template-header-fields", &format!("after step {kind}: number={} tip_number={} compact_target={} epoch_target={} parent==tip:{}", a.number, a.tip_number, a.compact_target, a.epoch_target, a.parent_hash == a.tip_hash));
        }
        if a.size[3] != a.basic + a.txs.iter().map(|t| t.1).sum::<usize>() {
            out.oracle_fail("template-size-bookkeeping", &format!("after step {kind}: size.total={} but basic={} + txs", a.size[3], a.basic));
        }
        if r.fresh != [true, true, true] {
            if pool_aggregates_stale(w) {
                w.stale_op = Some(w.op_no);
            }
            if w.stale() {
                // consequence of F8 (stale pool aggregates): counted, judged by the template oracle's own classes
                out.count("astep-not-fresh-stale-aggregates");
            } else {
                out.oracle_fail("template-part-not-fresh", &format!("after step {kind}: cellbase/extension/dao fresh = {:?}", r.fresh));
            }
        }
    }
    // --- implementation-only oracle: while the pool's snapshot is on another tip than the assembler's, no
    // pool-reading path (update_full / update_proposals / update_transactions) may install proposals or
    // transactions: they would be selected for another chain (other proposal window, other live cells).
    // (Only these three paths write proposals / transactions on an unchanged tip, and all three are guarded,
    // so a background update cannot cause this on correct code; update_uncles changes uncles only.)
    if matches!(kind, 1 | 3 | 4) && r.pool_tip != r.before.tip_hash && r.after.tip_hash == r.before.tip_hash {
        let (b, a) = (&r.before, &r.after);
        let bp: HashSet<&ProposalShortId> = b.proposals.iter().collect();
        let ap: HashSet<&ProposalShortId> = a.proposals.iter().collect();
        let txs_changed = a.txs.iter().map(|t| &t.0).collect::<Vec<_>>() != b.txs.iter().map(|t| &t.0).collect::<Vec<_>>();
        if bp != ap || txs_changed {
            out.oracle_fail(
                "template-updated-from-pool-on-other-tip",
                &format!(
                    "step {kind}: assembler on tip number {} but the pool's snapshot is on another tip; template proposals {} -> {}, txs {} -> {} (work_id {} -> {})",
                    b.tip_number,
                    b.proposals.len(),
                    a.proposals.len(),
                    b.txs.len(),
                    a.txs.len(),
                    b.work_id,
                    a.work_id
                ),
            );
        }
    }
    let mut view_ok = true;
    if let Some(pre) = &pre {
        let mut pos: HashMap<ProposalShortId, usize> = HashMap::new();
        for (i, id) in r.selected_again.iter().enumerate() {
            pos.insert(id.clone(), 500_000 + i);
        }
        for (i, (id, _, _)) in r.after.txs.iter().enumerate() {
            pos.insert(id.clone(), i);
        }
        let (links_ok, agg_ok, key_ok, _n) = emit_view(w, out, pre, &pos);
        view_ok = links_ok && agg_ok && key_ok;
    }
    if !view_ok {
        out.op(&format!("astep-stale {kind}"), "stale");
        out.count("astep-stale");
        return;
    }
    let tid = |id: &ProposalShortId| -> usize { *w.tid_by_short.get(id).expect("tx known to the harness") };
    let mut bid_map = std::mem::take(&mut w.bid);
    let mut bid = |h: &Byte32| -> usize {
        let n = bid_map.len() + 1;
        *bid_map.entry(h.clone()).or_insert(n)
    };
    let (tipst, base) = if kind == 0 {
        let a = &r.after;
        (a, a.basic - u_size * a.uncles.len() - p_size * a.proposals.len())
    } else {
        let b = &r.before;
        (b, b.basic - u_size * b.uncles.len() - p_size * b.proposals.len())
    };
    let b = &r.before;
    let t_uncles = if b.uncles.is_empty() {
        "-".to_string()
    } else {
        b.uncles.iter().map(|(h, ps)| format!("{}:0:0:0:0:0:{}", bid(h), dots(&ps.iter().map(&tid).collect::<Vec<_>>()))).collect::<Vec<_>>().join(";")
    };
    let t_props = commas(&b.proposals.iter().map(&tid).collect::<Vec<_>>());
    let t_txs = if b.txs.is_empty() { "-".to_string() } else { b.txs.iter().map(|(id, sz, cy)| format!("{}:{}:{}", tid(id), sz, cy)).collect::<Vec<_>>().join(",") };
    let cands = if r.cands_before.is_empty() {
        "-".to_string()
    } else {
        r.cands_before
            .iter()
            .map(|c| {
                let fl = (c.is_main as u8) * 8 + (c.is_uncle as u8) * 4 + (c.parent_is_main as u8) * 2 + c.parent_is_uncle as u8;
                format!("{}:{}:{}:{}:{}:{}:{}", bid(&c.hash), bid(&c.parent_hash), c.number, c.epoch_number, c.compact_target, fl, dots(&c.proposals.iter().map(&tid).collect::<Vec<_>>()))
            })
            .collect::<Vec<_>>()
            .join(";")
    };
    let pending = commas(&r.pending.iter().map(&tid).collect::<Vec<_>>());
    // resolve check of the selected transactions, from the chain and the transactions themselves
    let keep: Vec<usize> = {
        let snap = w.main.shared.snapshot();
        let usable = snap.tip_hash() == r.after.tip_hash;
        let mut made: HashSet<Byte32> = HashSet::new();
        let mut used: HashSet<OutPoint> = HashSet::new();
        let mut k = vec![];
        for id in &r.selected_again {
            let t = tid(id);
            let tx = &w.txs[t - 1];
            let ok = !usable || tx.input_pts_iter().all(|op| !used.contains(&op) && (made.contains(&op.tx_hash()) || snap.have_cell(&op)));
            if ok {
                for op in tx.input_pts_iter() {
                    used.insert(op);
                }
                made.insert(tx.hash());
                k.push(t);
            } else {
                out.count("astep-resolve-check-drops");
            }
        }
        k
    };
    let a = &r.after;
    let mut left: Vec<usize> = r.cands_after.iter().map(|h| bid(h)).collect();
    left.sort();
    let mut props_after: Vec<usize> = a.proposals.iter().map(&tid).collect();
    props_after.sort();
    let line = format!(
        "astep {} {} {} {} {} {} {} {} {} {} {} {} {} {} {} {} {}",
        kind, same_tip as u8, u_size, tipst.tip_number, tipst.epoch_number, tipst.epoch_target, base, b.size[0], b.size[1], b.size[2], b.size[3], t_uncles, t_props, t_txs, cands, pending, commas(&keep)
    );
    let ans = format!(
        "uncles={} props={} txs={} size={},{},{},{} cands={}",
        commas(&a.uncles.iter().map(|(h, _)| bid(h)).collect::<Vec<_>>()),
        commas(&props_after),
        commas(&a.txs.iter().map(|(id, _, _)| tid(id)).collect::<Vec<_>>()),
        a.size[0],
        a.size[1],
        a.size[2],
        a.size[3],
        commas(&left)
    );
    out.op(&line, &ans);
    // update_blank: the cellbase `build_cellbase` made, against the model's decision
    //   cellbase <finalization_delay_length> <tip_number> <block_reward.total> <occupied capacity of the output> -> outputs=<n>
    if let Some(snap) = &snap_for_cb {
        let cons = snap.consensus();
        let tip = snap.tip_header();
        if let Ok((lock, reward)) = RewardCalculator::new(cons, snap.as_ref()).block_reward_to_finalize(tip) {
            let output = packed::CellOutput::new_builder().capacity(reward.total).lock(lock).build();
            if let Ok(occ) = output.occupied_capacity(Capacity::zero()) {
                out.op(
                    &format!("cellbase {} {} {} {}", cons.finalization_delay_length(), tip.number(), reward.total.as_u64(), occ.as_u64()),
                    &format!("outputs={}", r.after.cellbase_outputs),
                );
                out.count(if r.after.cellbase_outputs == 0 { "astep-cellbase-without-output" } else { "astep-cellbase-with-output" });
            }
        }
    }
    // what the step reached
    if !same_tip {
        out.count("astep-pool-on-other-tip");
        if matches!(kind, 1 | 3 | 4) && a.work_id == b.work_id {
            out.count("astep-guarded-no-op");
        }
    }
    if a.work_id != b.work_id {
        out.count(&format!("astep-kind-{kind}-changed-template"));
    } else if kind != 0 {
        out.count(&format!("astep-kind-{kind}-left-template"));
    }
    if r.cands_after.len() < r.cands_before.len() {
        out.count("astep-candidates-removed");
    }
    if !a.uncles.is_empty() {
        out.count("astep-with-uncles");
    }
    if a.uncles.len() == w.consensus.max_uncles_num && !a.uncles.is_empty() && r.cands_before.len() > a.uncles.len() {
        out.count("astep-uncles-cut-at-max");
    }
    if matches!(kind, 1 | 4) && same_tip && a.txs.len() < r.selected_again.len() {
        out.count("astep-fewer-txs-than-selector");
    }
    let max = w.consensus.max_block_bytes as usize;
    if a.size[3] + 10 > max {
        out.count("astep-total-within-proposal-id-of-max");
    } else if a.size[3] + 228 > max {
        out.count("astep-total-within-uncle-of-max");
    }
    drop(bid);
    w.bid = bid_map;
}

// ------------------------------------------------------------------------------------------------
// the candidate-uncle container driven directly (`CandidateUncles` is public)
// ------------------------------------------------------------------------------------------------

thread_local! {
    static CU: std::cell::RefCell<ckb_tx_pool::block_assembler::CandidateUncles> = std::cell::RefCell::new(ckb_tx_pool::block_assembler::CandidateUncles::new());
}

fn cu_uncle(id: u64, number: u64) -> ckb_types::core::UncleBlockView {
    let header = ckb_types::core::HeaderBuilder::default().number(number).epoch(ckb_types::core::EpochNumberWithFraction::new(1, 0, 10)).nonce(id as u128).build();
    ckb_types::core::BlockBuilder::default().header(header).build().as_uncle()
}

fn exec_cu(out: &mut Out, line: &str, ts: &[&str]) {
    CU.with(|c| {
        let mut c = c.borrow_mut();
        match ts[0] {
            "cu-new" => {
                *c = ckb_tx_pool::block_assembler::CandidateUncles::new();
                out.op(line, "ok");
            }
            "cu-ins" => {
                let n = nums(&ts[1..]);
                let before = c.len();
                let r = c.insert(cu_uncle(n[0], n[1]));
                out.op(line, &format!("{} len={}", r as u8, c.len()));
                out.count(if r { if c.len() <= before { "cu-insert-evicting" } else { "cu-insert" } } else if c.len() < before { "cu-insert-refused-after-evicting" } else { "cu-insert-refused" });
                if c.len() > 128 {
                    out.oracle_fail("candidate-uncles-overfull", &format!("len={}", c.len()));
                }
            }
            "cu-rm" => {
                let n = nums(&ts[1..]);
                let r = c.remove_by_number(&cu_uncle(n[0], n[1]));
                out.op(line, &format!("{} len={}", r as u8, c.len()));
                out.count(if r { "cu-remove" } else { "cu-remove-absent" });
            }
            "cu-has" => {
                let n = nums(&ts[1..]);
                out.op(line, &format!("{}", c.contains(&cu_uncle(n[0], n[1])) as u8));
            }
            "cu-vals" => {
                let mut by: std::collections::BTreeMap<u64, Vec<u128>> = Default::default();
                let mut last = 0u64;
                let mut total = 0usize;
                for u in c.values() {
                    if u.number() < last {
                        out.oracle_fail("candidate-uncles-order", "values() not in ascending height order");
                    }
                    last = u.number();
                    total += 1;
                    by.entry(u.number()).or_default().push(u.header().nonce());
                }
                if total != c.len() {
                    out.oracle_fail("candidate-uncles-count", &format!("len()={} but values() yields {}", c.len(), total));
                }
                let s = if by.is_empty() {
                    "-".to_string()
                } else {
                    by.iter_mut()
                        .map(|(k, v)| {
                            v.sort();
                            format!("{}:{}", k, v.iter().map(|x| x.to_string()).collect::<Vec<_>>().join("."))
                        })
                        .collect::<Vec<_>>()
                        .join(";")
                };
                out.op(line, &s);
            }
            other => panic!("bad op {other}"),
        }
    });
}

/// directly driven container: heights in a sliding window, per-height overflow, duplicates, fills up to
/// the global limit, then inserts below / at / above the lowest height
fn gen_cu_case(out: &mut Out, base: &Path, rng: &mut Rng, n_ops: u64) {
    out.begin_case("candidate-uncles");
    let mut w: Option<World> = None;
    exec(&mut w, out, base, "cu-new");
    let mut next_id = 1u64;
    let mut known: Vec<(u64, u64)> = vec![];
    let lo = rng.range(5, 50);
    let mut hi = lo + rng.range(3, 14);
    let mut fp = String::from("cu");
    for i in 0..n_ops {
        let r = rng.below(100);
        let line = if r < 62 {
            // new uncle: mostly inside the window, sometimes just below / at the lowest height, sometimes above
            let number = match rng.below(12) {
                0 => lo.saturating_sub(rng.range(1, 3)),
                1 => lo,
                2 => {
                    hi += 1;
                    hi
                }
                3 => known.iter().map(|k| k.1).min().unwrap_or(lo),
                4 => known.iter().map(|k| k.1).min().unwrap_or(lo) + 1,
                _ => rng.range(lo, hi),
            };
            let id = next_id;
            next_id += 1;
            known.push((id, number));
            format!("cu-ins {} {}", id, number)
        } else if r < 72 && !known.is_empty() {
            let k = *rng.pick(&known);
            format!("cu-ins {} {}", k.0, k.1)
        } else if r < 84 && !known.is_empty() {
            let k = *rng.pick(&known);
            format!("cu-rm {} {}", k.0, k.1)
        } else if r < 92 && !known.is_empty() {
            let k = *rng.pick(&known);
            format!("cu-has {} {}", k.0, k.1)
        } else if r < 94 {
            format!("cu-rm {} {}", next_id + 1000, rng.range(lo, hi))
        } else {
            "cu-vals".to_string()
        };
        if i % 64 == 0 {
            fp.push(line.as_bytes()[3] as char);
        }
        exec(&mut w, out, base, &line);
        if known.len() > 400 {
            known.drain(0..100);
        }
    }
    exec(&mut w, out, base, "cu-vals");
    out.nontrivial(format!("{fp}{lo}-{hi}"));
}

// ------------------------------------------------------------------------------------------------
// executing ops
// ------------------------------------------------------------------------------------------------

fn nums(ts: &[&str]) -> Vec<u64> {
    ts.iter().map(|t| t.parse::<u64>().unwrap_or_else(|_| panic!("bad number {t}"))).collect()
}

fn exec(w: &mut Option<World>, out: &mut Out, base: &Path, line: &str) {
    let ts: Vec<&str> = line.split(' ').collect();
    match ts[0] {
        "cfg" => {
            let n = nums(&ts[1..]);
            assert!(n.len() == 9, "cfg arity");
            if let Some(old) = w.take() {
                old.finish();
            }
            let cfg = Cfg { epoch_len: n[0], w_close: n[1], w_far: n[2], max_bytes: n[3], max_cycles: n[4], max_proposals: n[5], max_uncles: n[6], interval_ms: n[7], max_ancestors: n[8] };
            *w = Some(World::new(base, out.case, cfg));
            out.op(line, "ok");
        }
        "pool" | "ent" | "closure" | "hyp" | "tsize" | "astep" | "astep-stale" | "cellbase" => { /* derived lines, regenerated */ }
        "cu-new" | "cu-ins" | "cu-rm" | "cu-has" | "cu-vals" => exec_cu(out, line, &ts),
        "weight" => {
            let n = nums(&ts[1..]);
            out.op(line, &get_transaction_weight(n[0] as usize, n[1]).to_string());
        }
        _ => {
            let w = w.as_mut().expect("cfg first");
            if pool_map_panicked() {
                // the real PoolMap is corrupted and the service (partly) dead: the panic is the reported event
                // (once per case), the remaining ops of the case are counted and not executed
                report_pool_map_panic(w, out);
                out.count("op-after-pool-map-invalid-key-panic-not-judged");
                if ts[0] != "select" && ts[0] != "select-stale" {
                    out.op(line, "ok");
                }
                return;
            }
            // `step` ops do not age the stale-aggregates window (it is counted in scenario events)
            if ts[0] != "step" {
                w.op_no += 1;
            }
            match ts[0] {
                "submit" => {
                    let tid: usize = ts[1].parse().unwrap();
                    assert_eq!(tid, w.txs.len() + 1, "tids are consecutive");
                    let inputs: Vec<(OutPoint, u64)> = ts[2]
                        .split(',')
                        .map(|p| {
                            let (a, b) = p.split_once('.').expect("t.i");
                            let (t, i): (usize, usize) = (a.parse().unwrap(), b.parse().unwrap());
                            assert!(t <= w.txs.len());
                            w.out_point(t, i)
                        })
                        .collect();
                    let n_out: usize = ts[3].parse().unwrap();
                    let fee: u64 = ts[4].parse().unwrap();
                    let tx = spend_tx(&inputs, n_out, fee, tid as u64);
                    w.tid_by_short.insert(tx.proposal_short_id(), tid);
                    w.tid_by_hash.insert(tx.hash(), tid);
                    w.txs.push(tx.clone());
                    match w.tpc().submit_local_tx(tx) {
                        Ok(Ok(())) => out.count("submit-accepted"),
                        Ok(Err(_)) => out.count("submit-rejected"),
                        Err(_) => out.count("submit-error"),
                    }
                    out.op(line, "ok");
                }
                "make" => {
                    let tid: usize = ts[1].parse().unwrap();
                    assert_eq!(tid, w.txs.len() + 1, "tids are consecutive");
                    let inputs: Vec<(OutPoint, u64)> = ts[2]
                        .split(',')
                        .map(|p| {
                            let (a, b) = p.split_once('.').expect("t.i");
                            let (t, i): (usize, usize) = (a.parse().unwrap(), b.parse().unwrap());
                            assert!(t <= w.txs.len());
                            w.out_point(t, i)
                        })
                        .collect();
                    let mut tx = spend_tx(&inputs, ts[3].parse().unwrap(), ts[4].parse().unwrap(), tid as u64);
                    if ts.len() > 5 {
                        // optional <pad>: that many extra bytes in the first output's data (size + pad)
                        let pad: usize = ts[5].parse().unwrap();
                        let mut data: Vec<packed::Bytes> = tx.outputs_data().into_iter().collect();
                        let mut d0: Vec<u8> = data[0].raw_data().to_vec();
                        d0.extend(std::iter::repeat(0u8).take(pad));
                        data[0] = d0.pack();
                        tx = tx.as_advanced_builder().set_outputs_data(data).build();
                    }
                    w.tid_by_short.insert(tx.proposal_short_id(), tid);
                    w.tid_by_hash.insert(tx.hash(), tid);
                    w.txs.push(tx);
                    out.op(line, "ok");
                }
                "send" => {
                    let tid: usize = ts[1].parse().unwrap();
                    let tx = w.txs[tid - 1].clone();
                    let proposed_now = w.main.shared.snapshot().proposals().contains_proposed(&tx.proposal_short_id());
                    match w.tpc().submit_local_tx(tx) {
                        Ok(Ok(())) => out.count(if proposed_now { "send-accepted-as-proposed" } else { "send-accepted" }),
                        Ok(Err(e)) => {
                            if std::env::var("C13_DEBUG").is_ok() {
                                eprintln!("send {tid} rejected: {e}");
                            }
                            out.count("send-rejected")
                        }
                        Err(_) => out.count("submit-error"),
                    }
                    out.op(line, "ok");
                }
                "propose" => {
                    let ids: Vec<ProposalShortId> = ts[1].split(',').map(|t| w.txs[t.parse::<usize>().unwrap() - 1].proposal_short_id()).collect();
                    w.salt += 1;
                    let tip = w.main.tip_hash();
                    let spec = BlockSpec { proposals: ids, salt: w.salt, ..Default::default() };
                    let b = w.builder.build(&tip, &spec);
                    let r = w.main_process(&b);
                    if r == Ok(true) {
                        out.count("propose-block");
                    } else {
                        out.count("propose-block-rejected");
                    }
                    w.sync_pool(out);
                    out.op(line, "ok");
                }
                "wait" => {
                    std::thread::sleep(Duration::from_millis(ts[1].parse().unwrap()));
                    out.op(line, "ok");
                }
                "template" => {
                    if ts.len() == 4 {
                        let n = nums(&ts[1..]);
                        check_template_args(w, out, false, Some((n[0], n[1], n[2] as u32)));
                    } else {
                        check_template(w, out, false);
                    }
                    out.op(line, "ok");
                }
                "mine" => {
                    let sync = ts[1] == "1";
                    if let Some(b) = check_template(w, out, true) {
                        if b.parent_hash() == w.main.tip_hash() {
                            let r = w.main_process(&b);
                            if r != Ok(true) {
                                fail(w.stale(), out, "template-rejected", &format!("main node: number={} -> {:?}", b.number(), r));
                            }
                            out.count("mined");
                        } else {
                            out.count("mine-skipped-stale-template");
                        }
                    }
                    if sync {
                        w.sync_pool(out);
                    }
                    out.op(line, "ok");
                }
                "fork" => {
                    let n = nums(&ts[1..]);
                    let (back, extra, nprop, ncommit, sync) = (n[0], n[1], n[2] as usize, n[3] as usize, n[4] == 1);
                    do_fork(w, out, back, extra, nprop, ncommit);
                    if sync {
                        w.sync_pool(out);
                    }
                    if pool_aggregates_stale(w) {
                        w.stale_op = Some(w.op_no);
                        out.count("stale-aggregates-after-fork");
                    }
                    out.op(line, "ok");
                }
                "uncle" => {
                    let n = nums(&ts[1..]);
                    let sib = w.main_chain_hash_below_tip(n[0]);
                    let sib_block = w.builder.blocks.get(&sib).cloned();
                    if let Some(sb) = sib_block {
                        if sb.number() > 0 {
                            w.salt += 1;
                            let proposals: Vec<ProposalShortId> = w.txs.iter().rev().take(n[1] as usize).map(|t| t.proposal_short_id()).collect();
                            let spec = BlockSpec { proposals, salt: w.salt, ..Default::default() };
                            let u = w.builder.build(&sb.parent_hash(), &spec);
                            let r = w.main_process(&u);
                            if r.is_ok() {
                                out.count("uncle-delivered");
                            } else {
                                out.count("uncle-rejected");
                            }
                            std::thread::sleep(Duration::from_millis(2));
                        }
                    }
                    out.op(line, "ok");
                }
                "select" | "select-stale" => {
                    let n = nums(&ts[1..]);
                    do_select(w, out, n[0], n[1]);
                }
                "step" => {
                    let n = nums(&ts[1..]);
                    out.op(line, "ok");
                    do_astep(w, out, n[0] as u8, n[1] as usize);
                }
                other => panic!("bad op {other}"),
            }
            if pool_map_panicked() {
                report_pool_map_panic(w, out);
                return;
            }
            emit_tsize(w, out);
        }
    }
}

fn do_fork(w: &mut World, out: &mut Out, back: u64, extra: u64, nprop: usize, ncommit: usize) {
    let snap = w.main.shared.snapshot();
    let tipn = snap.tip_number();
    let back = back.min(tipn);
    let fork_point = snap.get_block_hash(tipn - back).expect("fork point");
    drop(snap);
    let len = back + extra.max(1);
    let proposals: Vec<ProposalShortId> = w.txs.iter().take(nprop.min(w.cfg.max_proposals as usize)).map(|t| t.proposal_short_id()).collect();
    let proposed: HashSet<ProposalShortId> = proposals.iter().cloned().collect();
    // commit candidates: resolvable on that branch at the fork point (or from earlier candidates)
    let mut commits: Vec<TransactionView> = vec![];
    {
        let store = w.builder.replay_store(&fork_point);
        let mut made: HashSet<Byte32> = HashSet::new();
        let mut used: HashSet<OutPoint> = HashSet::new();
        for tx in w.txs.iter() {
            if commits.len() >= ncommit {
                break;
            }
            if !proposed.contains(&tx.proposal_short_id()) || store.get_transaction_info(&tx.hash()).is_some() {
                continue;
            }
            let ok = tx.input_pts_iter().all(|op| !used.contains(&op) && (made.contains(&op.tx_hash()) || store.have_cell(&op)));
            if ok {
                for op in tx.input_pts_iter() {
                    used.insert(op);
                }
                made.insert(tx.hash());
                commits.push(tx.clone());
            }
        }
    }
    let mut parent = fork_point;
    let mut ci = 0;
    for j in 1..=len {
        w.salt += 1;
        let mut spec = BlockSpec { salt: w.salt, ..Default::default() };
        if j == 1 {
            spec.proposals = proposals.clone();
        }
        if j >= 1 + w.cfg.w_close && j <= 1 + w.cfg.w_far {
            let mut size_budget = w.cfg.max_bytes.saturating_sub(900);
            while ci < commits.len() && spec.txs.len() < 2 {
                let sz = commits[ci].data().serialized_size_in_block() as u64;
                if sz > size_budget {
                    break;
                }
                size_budget -= sz;
                spec.txs.push(commits[ci].clone());
                ci += 1;
            }
        }
        let ncom = spec.txs.len();
        let b = w.builder.build(&parent, &spec);
        let r = w.main_process(&b);
        if r.is_err() {
            out.count("fork-block-rejected");
            break;
        }
        if ncom > 0 {
            out.count("fork-committed-txs");
        }
        parent = b.hash();
    }
    if w.main.tip_hash() == parent {
        out.count("fork-reorg");
    } else {
        out.count("fork-no-reorg");
    }
}

// ------------------------------------------------------------------------------------------------
// generator
// ------------------------------------------------------------------------------------------------

struct Gen {
    free: Vec<(usize, usize, u64)>,
    spent: Vec<(usize, usize, u64)>,
    next_tid: usize,
    sizes: Vec<u64>,
}

const CKB: u64 = 100_000_000;

fn gen_submit(g: &mut Gen, rng: &mut Rng) -> Option<String> {
    if g.free.is_empty() {
        return None;
    }
    let mode = rng.below(100);
    let mut picks: Vec<(usize, usize, u64)> = vec![];
    let take = |g: &mut Gen, idx: usize| -> (usize, usize, u64) {
        let x = g.free.remove(idx);
        g.spent.push(x);
        x
    };
    if mode < 45 {
        // deepen a chain: the most recently created output
        let idx = g.free.len() - 1;
        picks.push(take(g, idx));
    } else if mode < 65 {
        // fan-out / wide: any free output of a non-genesis tx
        let cands: Vec<usize> = (0..g.free.len()).filter(|i| g.free[*i].0 != 0).collect();
        let idx = if cands.is_empty() { rng.below(g.free.len() as u64) as usize } else { *rng.pick(&cands) };
        picks.push(take(g, idx));
    } else if mode < 80 {
        // join (diamond): two outputs
        let idx = rng.below(g.free.len() as u64) as usize;
        picks.push(take(g, idx));
        if !g.free.is_empty() {
            let idx = g.free.len() - 1 - rng.below((g.free.len() as u64).min(4)) as usize;
            picks.push(take(g, idx));
        }
    } else if mode < 94 {
        // fresh root
        let cands: Vec<usize> = (0..g.free.len()).filter(|i| g.free[*i].0 == 0).collect();
        let idx = if cands.is_empty() { rng.below(g.free.len() as u64) as usize } else { *rng.pick(&cands) };
        picks.push(take(g, idx));
    } else {
        // conflict: re-spend something already spent
        if g.spent.is_empty() {
            return None;
        }
        picks.push(*rng.pick(&g.spent));
    }
    let total: u64 = picks.iter().map(|p| p.2).sum();
    let fee = *rng.pick(&[500u64, 1000, 1000, 2000, 2000, 5000, 10_000, 100_000, 1_000_000]);
    let mut n_out = 1 + rng.below(3) as usize;
    while n_out > 1 && total < n_out as u64 * 150 * CKB + fee {
        n_out -= 1;
    }
    if total < 150 * CKB + fee {
        return None;
    }
    let tid = g.next_tid;
    g.next_tid += 1;
    let each = (total - fee) / n_out as u64;
    for i in 0..n_out {
        g.free.push((tid, i, each));
    }
    let ins = picks.iter().map(|p| format!("{}.{}", p.0, p.1)).collect::<Vec<_>>().join(",");
    Some(format!("submit {} {} {} {}", tid, ins, n_out, fee))
}

fn gen_case(out: &mut Out, base: &Path, rng: &mut Rng, steps: u64) {
    // limits that bind: a block holds ~2..8 always-success txs
    let tight = rng.chance(3, 4);
    let max_bytes = if tight { rng.range(1400, 3600) } else { 597_000 };
    let max_cycles = if tight && rng.chance(1, 2) { 537 * rng.range(2, 8) + rng.below(3) * 100 } else { 3_500_000_000 };
    let w_close = rng.range(1, 2);
    let w_far = w_close + rng.range(1, 4);
    let cfgl = format!(
        "cfg {} {} {} {} {} {} {} {} {}",
        rng.range(4, 9),
        w_close,
        w_far,
        max_bytes,
        max_cycles,
        *rng.pick(&[2u64, 4, 8, 1500]),
        rng.range(0, 2),
        *rng.pick(&[0u64, 0, 5, 20, 3_600_000]),
        *rng.pick(&[3u64, 6, 25, 25])
    );
    out.begin_case(&format!("bytes={max_bytes} cycles={max_cycles}"));
    let mut w: Option<World> = None;
    exec(&mut w, out, base, &cfgl);
    let mut g = Gen { free: (0..24).map(|i| (0usize, i, 50_000 * CKB)).collect(), spent: vec![], next_tid: 1, sizes: vec![] };
    let interval = w.as_ref().unwrap().cfg.interval_ms;
    let mut fp = String::new();
    for _ in 0..steps {
        let r = rng.below(100);
        let line = if r < 40 {
            match gen_submit(&mut g, rng) {
                Some(l) => l,
                None => continue,
            }
        } else if r < 58 {
            format!("mine {}", if rng.chance(4, 5) { 1 } else { 0 })
        } else if r < 66 {
            "template".to_string()
        } else if r < 72 {
            format!("wait {}", if interval > 0 && interval < 1000 { interval + 3 } else { 2 })
        } else if r < 79 {
            format!("uncle {} {}", rng.below(2), rng.below(3))
        } else if r < 84 {
            let back = rng.range(1, 4);
            format!("fork {} {} {} {} {}", back, rng.range(1, 2), rng.below(12), rng.below(5), if rng.chance(4, 5) { 1 } else { 0 })
        } else if r < 90 {
            // one real update path now: mostly on the current tip, sometimes update_blank on an older tip
            let kind = if interval >= 1000 { *rng.pick(&[0u64, 1, 2, 2, 3, 3, 3, 4, 4, 4]) } else { *rng.pick(&[0u64, 1, 1, 2, 2, 3, 3, 4, 4]) };
            format!("step {} {}", kind, if kind == 0 && rng.chance(1, 3) { rng.range(1, 2) } else { 0 })
        } else {
            // limits for the selector probe: boundaries of what is in the pool
            let sl = match rng.below(6) {
                0 => 1_000_000,
                1 => *g.sizes.last().unwrap_or(&300),
                2 => g.sizes.iter().rev().take(2).sum::<u64>(),
                3 => g.sizes.iter().rev().take(3).sum::<u64>().saturating_sub(1),
                4 => g.sizes.iter().rev().take(5).sum::<u64>(),
                _ => rng.range(100, 2500),
            };
            let cl = match rng.below(4) {
                0 => 537 * rng.range(1, 6),
                1 => 537 * rng.range(1, 6) - 1,
                _ => 3_500_000_000,
            };
            format!("select {} {}", sl, cl)
        };
        fp.push(line.as_bytes()[0] as char);
        exec(&mut w, out, base, &line);
        if line.starts_with("submit") {
            if let Some(world) = w.as_ref() {
                if let Some(tx) = world.txs.last() {
                    g.sizes.push(tx.data().serialized_size_in_block() as u64);
                }
            }
        }
    }
    // always end with a probe and a template
    exec(&mut w, out, base, "select 1000000 3500000000");
    exec(&mut w, out, base, "mine 1");
    out.nontrivial(fp);
    if let Some(world) = w.take() {
        world.finish();
    }
}

/// Scenarios on ONE tip: transactions whose ids are already inside the proposal window are submitted
/// one by one (they enter as Proposed, so the template grows through the incremental
/// `update_transactions` path) until the block is within a few bytes of `max_block_bytes`; candidate
/// uncles and fresh pending transactions (new proposals) arrive before / between / after that, and the
/// template is fetched and verified. `variant`: 0 = txs, then uncles + proposals; 1 = uncles, txs,
/// proposals; 2 = proposals, txs, uncles.
fn gen_fill_case(out: &mut Out, base: &Path, rng: &mut Rng, variant: u64) {
    let w_close = rng.range(1, 2);
    let w_far = w_close + 3;
    let max_bytes = rng.range(2200, 4200);
    let interval = *rng.pick(&[0u64, 0, 5]);
    let cfgl = format!("cfg 40 {} {} {} 3500000000 1500 2 {} 25", w_close, w_far, max_bytes, interval);
    out.begin_case(&format!("fill variant={variant} bytes={max_bytes}"));
    let mut w: Option<World> = None;
    exec(&mut w, out, base, &cfgl);
    let settle = format!("wait {}", if interval > 0 { interval + 4 } else { 3 });
    let mut fp = format!("fill{variant}");
    let mut run = |w: &mut Option<World>, out: &mut Out, l: &str| {
        fp.push(l.as_bytes()[0] as char);
        exec(w, out, base, l);
    };
    for _ in 0..rng.range(1, w_far + 2) {
        run(&mut w, out, "mine 1");
    }
    // a surplus of transactions of different sizes, proposed but not yet submitted
    let outs = [1u64, 1, 1, 2, 2, 2, 3, 3, 4, 4, 5, 6];
    for (k, n_out) in outs.iter().enumerate() {
        let fee = *rng.pick(&[1000u64, 2000, 5000, 100_000]);
        run(&mut w, out, &format!("make {} 0.{} {} {}", k + 1, k, n_out, fee));
    }
    run(&mut w, out, "propose 1,2,3,4,5,6,7,8,9,10,11,12");
    for _ in 0..(w_close - 1 + rng.below(2)) {
        run(&mut w, out, "mine 1");
    }
    run(&mut w, out, &settle);
    let mut next_tid = 13usize;
    let mut next_cell = 12usize;
    let mut fresh = |w: &mut Option<World>, out: &mut Out, rng: &mut Rng, n: u64, run: &mut dyn FnMut(&mut Option<World>, &mut Out, &str)| {
        for _ in 0..n {
            if next_cell >= 40 {
                break;
            }
            run(w, out, &format!("submit {} 0.{} 1 {}", next_tid, next_cell, *rng.pick(&[1000u64, 5000])));
            next_tid += 1;
            next_cell += 1;
        }
    };
    let uncles = |w: &mut Option<World>, out: &mut Out, rng: &mut Rng, run: &mut dyn FnMut(&mut Option<World>, &mut Out, &str)| {
        for _ in 0..rng.range(1, 2) {
            run(w, out, "uncle 0 0");
        }
    };
    // the transactions that fill the block: chosen now, when the room on this tip is known
    let fill = |w: &mut Option<World>, out: &mut Out, rng: &mut Rng, run: &mut dyn FnMut(&mut Option<World>, &mut Out, &str)| {
        let world = w.as_ref().unwrap();
        let room = match world.tpc().verif_assembler_size() {
            Ok(Some(r)) => world.consensus.max_block_bytes.saturating_sub((r[7] + r[6]) as u64),
            _ => 0,
        };
        let sizes: Vec<u64> = (0..12).map(|k| world.txs[k].data().serialized_size_in_block() as u64).collect();
        let slack = *rng.pick(&[0u64, 0, 0, 9, 60, 130, 227, 229, 290]);
        let target = room.saturating_sub(slack);
        let mut best = (0u64, 0u32);
        for m in 1u32..4096 {
            let sum: u64 = (0..12).filter(|k| m >> k & 1 == 1).map(|k| sizes[k as usize]).sum();
            if sum <= target && sum > best.0 {
                best = (sum, m);
            }
        }
        let mut order: Vec<usize> = (0..12).filter(|k| best.1 >> k & 1 == 1).collect();
        rng.shuffle(&mut order);
        for (i, k) in order.iter().enumerate() {
            run(w, out, &format!("send {}", k + 1));
            if i % 3 == 2 && rng.chance(1, 2) {
                run(w, out, "wait 2");
            }
        }
        if room.saturating_sub(best.0) < 228 {
            out.count("fill-left-less-than-an-uncle");
        }
    };
    match variant {
        0 => {
            fill(&mut w, out, rng, &mut run);
            run(&mut w, out, &settle);
            if rng.chance(1, 2) {
                uncles(&mut w, out, rng, &mut run);
                run(&mut w, out, &settle);
                run(&mut w, out, "template");
                { let n = rng.range(3, 12); fresh(&mut w, out, rng, n, &mut run); }
            } else {
                { let n = rng.range(3, 12); fresh(&mut w, out, rng, n, &mut run); }
                run(&mut w, out, &settle);
                run(&mut w, out, "template");
                uncles(&mut w, out, rng, &mut run);
            }
        }
        1 => {
            uncles(&mut w, out, rng, &mut run);
            run(&mut w, out, &settle);
            fill(&mut w, out, rng, &mut run);
            run(&mut w, out, &settle);
            run(&mut w, out, "template");
            { let n = rng.range(3, 12); fresh(&mut w, out, rng, n, &mut run); }
            if rng.chance(1, 2) {
                run(&mut w, out, &settle);
                uncles(&mut w, out, rng, &mut run);
            }
        }
        _ => {
            { let n = rng.range(3, 12); fresh(&mut w, out, rng, n, &mut run); }
            run(&mut w, out, &settle);
            fill(&mut w, out, rng, &mut run);
            run(&mut w, out, &settle);
            run(&mut w, out, "template");
            uncles(&mut w, out, rng, &mut run);
            if rng.chance(1, 2) {
                run(&mut w, out, &settle);
                { let n = rng.range(2, 6); fresh(&mut w, out, rng, n, &mut run); }
            }
        }
    }
    run(&mut w, out, &settle);
    run(&mut w, out, "template");
    run(&mut w, out, "select 1000000 3500000000");
    run(&mut w, out, "mine 1");
    run(&mut w, out, "mine 1");
    drop(run);
    out.nontrivial(fp);
    if let Some(world) = w.take() {
        world.finish();
    }
}

/// All orders of the three incremental update paths on ONE tip. `k % 6` selects the order of
/// P (Proposed transactions arrive one by one -> `update_transactions`), U (candidate uncles ->
/// `update_uncles`) and N (new pending transactions -> `update_proposals`); `(k / 6) % 4` the way the
/// block is filled by P: 0 = exactly `max_block_bytes`, 1 = less than one proposal id (10 bytes) left,
/// 2 = less than one uncle (228 bytes) left, 3 = the cycles limit binds instead of bytes. The premade
/// 16 transactions have 1..3 inputs and 1..6 outputs so that subset sums are dense (exact fills exist); a
/// CPFP pair (large low-fee parent, high-fee child) is sent when the block is nearly full; in half of
/// the cases the tip is the LAST block of its epoch (the template is the first block of the next
/// epoch and siblings of the tip are candidates of the old epoch); `max_block_proposals_limit` is small
/// in half of the cases so that proposals sit at the limit; templates are also requested with
/// `get_block_template` argument limits below the consensus values; the case ends with a tip change
/// (blank + full update) followed by an old-epoch and a new-epoch uncle.
fn gen_order_case(out: &mut Out, base: &Path, rng: &mut Rng, k: u64) {
    const PERMS: [[char; 3]; 6] = [['P', 'U', 'N'], ['P', 'N', 'U'], ['U', 'P', 'N'], ['U', 'N', 'P'], ['N', 'P', 'U'], ['N', 'U', 'P']];
    let perm = PERMS[(k % 6) as usize];
    let mode = (k / 6) % 4;
    let w_close = rng.range(1, 2);
    let w_far = w_close + 5;
    let epoch_len = rng.range(7, 10);
    let max_bytes = if mode == 3 { 597_000 } else { rng.range(2600, 4400) };
    let max_cycles = if mode == 3 { 537 * rng.range(3, 7) + rng.below(2) * 100 } else { 3_500_000_000 };
    let max_props = *rng.pick(&[6u64, 8, 9, 1500]);
    // 3_600_000: "manual" case — the assembler's background loop never gets to the queued Pending /
    // Proposed / Uncle messages, every incremental update is an explicit `step` compared with the model
    let interval = *rng.pick(&[0u64, 0, 5, 3_600_000, 3_600_000]);
    let manual = interval >= 1000;
    let epoch_end = rng.chance(1, 2);
    let cfgl = format!("cfg {} {} {} {} {} {} 2 {} 25", epoch_len, w_close, w_far, max_bytes, max_cycles, max_props, interval);
    out.begin_case(&format!("order {}{}{} mode={mode} bytes={max_bytes} cycles={max_cycles} props={max_props} epoch_end={}", perm[0], perm[1], perm[2], epoch_end as u8));
    let mut w: Option<World> = None;
    exec(&mut w, out, base, &cfgl);
    let settle = format!("wait {}", if interval > 0 && !manual { interval + 4 } else { 3 });
    let mut fp = format!("order{}{}{}m{mode}e{}{}", perm[0], perm[1], perm[2], epoch_end as u8, if manual { "M" } else { "" });
    let mut run = |w: &mut Option<World>, out: &mut Out, l: &str| {
        fp.push(l.as_bytes()[0] as char);
        exec(w, out, base, l);
    };
    // premade fillers (1..3 inputs, 1..6 outputs), then the CPFP parent (6 outputs, low fee) and its child
    let mut shape: Vec<(usize, u64)> = vec![(1, 1), (1, 1), (2, 1), (1, 2), (2, 2), (3, 2), (1, 3), (2, 3), (1, 4), (3, 4), (2, 5), (1, 6)];
    for _ in 0..2 {
        shape.push((rng.range(1, 2) as usize, rng.range(1, 5)));
    }
    // fillers 1..=np; adjusters np+1..=np+8: eight variants of ONE transaction (same input, 1..8 bytes of
    // padding) of which at most one is ever sent, so that an exact fill exists for almost every room;
    // CPFP parent np+9, child np+10
    let np = shape.len();
    const NADJ: usize = 8;
    let cp = np + NADJ + 1;
    let n_all = (np + NADJ + 2) as u64;
    let n_chunks = (n_all + max_props.min(n_all) - 1) / max_props.min(n_all);
    // blocks still to come before the tip the scenario plays on
    let after = n_chunks + (w_close - 1);
    for _ in 0..rng.range(1, 3) {
        run(&mut w, out, "mine 1");
    }
    if epoch_end {
        // align: after `after` more blocks the tip is the last block of its epoch
        loop {
            let (tipn, start, len) = {
                let world = w.as_ref().unwrap();
                let snap = world.main.shared.snapshot();
                let e = snap.epoch_ext();
                (snap.tip_number(), e.start_number(), e.length())
            };
            if (tipn - start + after) % len == len - 1 {
                break;
            }
            run(&mut w, out, "mine 1");
        }
    }
    let mut cell = 0usize;
    for (k, (n_in, n_out)) in shape.iter().enumerate() {
        let ins = (0..*n_in).map(|j| format!("0.{}", cell + j)).collect::<Vec<_>>().join(",");
        cell += n_in;
        let fee = *rng.pick(&[1000u64, 5000, 100_000, 100_000]);
        run(&mut w, out, &format!("make {} {} {} {}", k + 1, ins, n_out, fee));
    }
    for j in 0..NADJ {
        run(&mut w, out, &format!("make {} 0.{} 1 2000 {}", np + 1 + j, cell, j + 1));
    }
    cell += 1;
    run(&mut w, out, &format!("make {} 0.{} 6 1000", cp, cell));
    cell += 1;
    run(&mut w, out, &format!("make {} {}.0 1 {}", cp + 1, cp, *rng.pick(&[200_000u64, 1_000_000])));
    let ids: Vec<usize> = (1..=cp + 1).collect();
    for ch in ids.chunks(max_props.min(n_all) as usize) {
        run(&mut w, out, &format!("propose {}", ch.iter().map(|x| x.to_string()).collect::<Vec<_>>().join(",")));
    }
    for _ in 0..(w_close - 1) {
        run(&mut w, out, "mine 1");
    }
    run(&mut w, out, &settle);
    {
        let world = w.as_ref().unwrap();
        let snap = world.main.shared.snapshot();
        let e = snap.epoch_ext();
        if snap.tip_number() == e.start_number() + e.length() - 1 {
            out.count("order-tip-is-last-block-of-epoch");
        }
    }
    let mut next_tid = cp + 2;
    let mut next_cell = cell;
    let mut tmpl_no = 0u64;
    for ph in perm.iter() {
        match ph {
            'P' => {
                let world = w.as_ref().unwrap();
                let room = match world.tpc().verif_assembler_size() {
                    Ok(Some(r)) => world.consensus.max_block_bytes.saturating_sub((r[7] + r[6]) as u64),
                    _ => 0,
                };
                let sizes: Vec<u64> = (0..np + NADJ).map(|k| world.txs[k].data().serialized_size_in_block() as u64).collect();
                let mut order: Vec<usize> = if mode == 3 {
                    (0..np).collect()
                } else {
                    let slack = match mode {
                        0 => 0,
                        1 => rng.range(1, 9),
                        // update_uncles' guard `remain_size > one uncle`: exactly one uncle's size left (refused,
                        // the container is not even read) and one byte more (an uncle is taken)
                        // (always exactly one uncle's size when candidates of the OLD epoch will arrive after
                        // this fill — tip = last block of its epoch, U after P: only there does reading the
                        // container at the boundary show, as pruned candidates)
                        _ if epoch_end && perm.iter().position(|c| *c == 'P') < perm.iter().position(|c| *c == 'U') => 228,
                        _ => match rng.below(5) {
                            0 | 1 => 228,
                            2 => 229,
                            _ => rng.range(10, 227),
                        },
                    };
                    // fillers (+ at most one adjuster variant) whose sum is closest to room - slack from below
                    let target = room.saturating_sub(slack);
                    let mut best = (0u64, 0u32, None::<usize>);
                    'search: for adj in std::iter::once(None).chain((0..NADJ).map(Some)) {
                        let extra = adj.map_or(0, |j| sizes[np + j]);
                        for m in 0u32..(1u32 << np) {
                            let mut sum = extra;
                            let mut mm = m;
                            while mm != 0 {
                                sum += sizes[mm.trailing_zeros() as usize];
                                mm &= mm - 1;
                            }
                            if sum <= target && sum > best.0 {
                                best = (sum, m, adj);
                                if sum == target {
                                    break 'search;
                                }
                            }
                        }
                    }
                    let left = room.saturating_sub(best.0);
                    out.count(if left == 0 { "order-fill-exact" } else if left < 10 { "order-fill-left-lt-proposal-id" } else if left < 228 { "order-fill-left-lt-uncle" } else if left == 228 { "order-fill-left-eq-uncle" } else if left == 229 { "order-fill-left-uncle-plus-1" } else { "order-fill-loose" });
                    let mut o: Vec<usize> = (0..np).filter(|k| best.1 >> k & 1 == 1).collect();
                    if let Some(j) = best.2 {
                        o.push(np + j);
                    }
                    o
                };
                rng.shuffle(&mut order);
                for (i, k) in order.iter().enumerate() {
                    run(&mut w, out, &format!("send {}", k + 1));
                    if manual && (i + 1 == order.len() || rng.chance(2, 3)) {
                        run(&mut w, out, "step 4 0");
                    }
                    if i % 3 == 2 && rng.chance(1, 2) {
                        run(&mut w, out, "wait 2");
                    }
                }
                run(&mut w, out, &settle);
                run(&mut w, out, "template");
                // CPFP near the limit: child first (orphan until the parent arrives) or parent first
                if rng.chance(1, 2) {
                    run(&mut w, out, &format!("send {}", cp));
                    run(&mut w, out, &format!("send {}", cp + 1));
                } else {
                    run(&mut w, out, &format!("send {}", cp + 1));
                    run(&mut w, out, &format!("send {}", cp));
                    run(&mut w, out, &format!("send {}", cp + 1));
                }
                if manual {
                    run(&mut w, out, "step 4 0");
                }
            }
            'U' => {
                for _ in 0..rng.range(1, 3) {
                    // siblings of the tip, some of them carrying proposals (excluded from package_proposals)
                    run(&mut w, out, &format!("uncle 0 {}", rng.below(3)));
                    if manual {
                        run(&mut w, out, "step 2 0");
                    }
                }
                if rng.chance(1, 3) {
                    run(&mut w, out, "uncle 1 0");
                    if manual {
                        run(&mut w, out, "step 2 0");
                    }
                }
            }
            _ => {
                let n = if max_props <= 9 { max_props + rng.below(3) } else { rng.range(3, 10) };
                for _ in 0..n {
                    if next_cell >= 40 {
                        break;
                    }
                    run(&mut w, out, &format!("submit {} 0.{} 1 {}", next_tid, next_cell, *rng.pick(&[1000u64, 5000])));
                    next_tid += 1;
                    next_cell += 1;
                    if manual && rng.chance(1, 2) {
                        run(&mut w, out, "step 3 0");
                    }
                }
                if manual {
                    run(&mut w, out, "step 3 0");
                }
            }
        }
        run(&mut w, out, &settle);
        tmpl_no += 1;
        if tmpl_no % 2 == 0 {
            run(&mut w, out, "template");
        } else {
            // argument limits below the consensus values
            run(&mut w, out, &format!("template {} {} 0", rng.range(300, max_bytes.min(5000)), rng.below(max_props.min(10) + 1)));
        }
        // each real update path once more, explicitly, compared line by line with the model (the state
        // they meet is the one the incremental paths just produced: block full / nearly full)
        let rot = (k + tmpl_no) % 4;
        for j in 0..4 {
            run(&mut w, out, &format!("step {} 0", [2u64, 3, 4, 1][((rot + j) % 4) as usize]));
        }
        run(&mut w, out, "template");
    }
    run(&mut w, out, "select 1000000 3500000000");
    run(&mut w, out, &format!("select {} {}", rng.range(300, 1500), max_cycles));
    // the tip-change race: the assembler is reset to the PREVIOUS tip while the pool stays on the current
    // one (as between update_blank and the pool's own reorg handling): the three pool-reading paths must
    // leave the template alone, update_uncles may still act; the template stays valid on its own parent
    run(&mut w, out, "step 0 1");
    for kd in [3u64, 4, 1, 2] {
        run(&mut w, out, &format!("step {} 0", kd));
    }
    run(&mut w, out, "template");
    run(&mut w, out, "step 0 0");
    run(&mut w, out, "step 1 0");
    run(&mut w, out, "template");
    // tip change: blank + full update; then candidates of the old and of the new epoch
    run(&mut w, out, "mine 1");
    run(&mut w, out, "uncle 1 0");
    run(&mut w, out, "uncle 0 1");
    run(&mut w, out, &settle);
    run(&mut w, out, "template");
    run(&mut w, out, "step 0 0");
    run(&mut w, out, "step 2 0");
    if next_cell < 40 {
        run(&mut w, out, &format!("submit {} 0.{} 1 1000", next_tid, next_cell));
        run(&mut w, out, &settle);
        run(&mut w, out, "template 1000 1 0");
    }
    run(&mut w, out, "mine 1");
    run(&mut w, out, "mine 1");
    drop(run);
    out.nontrivial(fp);
    if let Some(world) = w.take() {
        world.finish();
    }
}

pub fn run(opts: &Opts) {
    let base = scratch_dir(&opts.out, "c13");
    let mut out = Out::new(&opts.out);
    let mut rng = Rng::new(opts.seed ^ 0xC13);
    install_panic_watch();
    if let Some(p) = &opts.replay {
        let ops = read_replay_ops(p);
        let mut w: Option<World> = None;
        for l in ops {
            if l.starts_with("case ") {
                out.begin_case(l.splitn(3, ' ').nth(2).unwrap_or("replay"));
                continue;
            }
            if out.case == 0 {
                out.begin_case("replay");
            }
            exec(&mut w, &mut out, &base, &l);
        }
        if let Some(world) = w.take() {
            world.finish();
        }
    } else {
        // pure function: get_transaction_weight on boundary-ish values
        out.begin_case("weight");
        for _ in 0..400 {
            let size = match rng.below(3) { 0 => rng.below(2000), 1 => rng.below(600_000), _ => 0 };
            let cycles = match rng.below(5) {
                0 => rng.below(10_000_000),
                1 => rng.below(70_000_000_000),
                2 => 5863 * rng.below(1000) + rng.below(3),
                3 => u64::MAX - rng.below(1000),
                _ => rng.next(),
            };
            let l = format!("weight {} {}", size, cycles);
            exec(&mut None, &mut out, &base, &l);
        }
        for _ in 0..(if opts.thorough() { 12 } else { 3 } * opts.scale) {
            gen_cu_case(&mut out, &base, &mut rng, if opts.thorough() { 6000 } else { 2500 });
        }
        let cases = if opts.thorough() { 90 } else { 7 } * opts.scale;
        let fills = if opts.thorough() { 60 } else { 4 } * opts.scale;
        // 24 = every order (6) x every fill mode (4). Thorough runs all of them three times; quick runs 16 of
        // the 24 combinations, walking them with stride 7 (coprime to 24: distinct combinations, every order at
        // least twice and every fill mode at least three times in each run); the seed rotates the start
        let orders = if opts.thorough() { 72 } else { 16 } * opts.scale;
        let rot = opts.seed % 24;
        let stride = if opts.thorough() { 1 } else { 7 };
        for i in 0..cases.max(fills).max(orders) {
            if i < cases {
                let steps = rng.range(40, 90);
                gen_case(&mut out, &base, &mut rng, steps);
            }
            if i < fills {
                gen_fill_case(&mut out, &base, &mut rng, i % 3);
            }
            if i < orders {
                gen_order_case(&mut out, &base, &mut rng, (i * stride + rot) % 24);
            }
        }
    }
    let _ = std::fs::remove_dir_all(&base);
    out.finish("a case is non-trivial by its op-kind sequence (distinct sequences of submit/mine/template/wait/uncle/fork/select)");
    // tx-pool / network services of finished cases keep background threads alive
    std::process::exit(0);
}
