//! `vh-c06 C06 --seed N --tier quick|thorough --out DIR [--replay FILE] [--scale K] <arith|chain>`
//! Correspondence harness for property C06 (own crate so that work-in-progress on other
//! properties cannot break this build). Shares `common.rs` and the harness source
//! `hnode/src/c06.rs` by path.
#![allow(dead_code)]
#[path = "../../hcore/src/common.rs"]
mod common;
#[path = "../../hnode/src/c06.rs"]
mod c06;

fn main() {
    let args: Vec<String> = std::env::args().skip(1).collect();
    if args.is_empty() {
        eprintln!("usage: vh-c06 C06 --seed N --tier T --out DIR <arith|chain>");
        std::process::exit(2);
    }
    let opts = common::Opts::parse(&args[1..]);
    c06::run(&opts)
}
