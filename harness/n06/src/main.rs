//! `vh-c06 C06 --seed N --tier quick|thorough --out DIR [--replay FILE] [--scale K] <arith|chain|node>`
//! Correspondence harness for property C06 (own crate so that work-in-progress on other
//! properties cannot break this build). Shares `common.rs`, `hnode/src/node.rs` and the harness
//! source `hnode/src/c06.rs` (streams `arith`, `chain`) by path; the `node` stream is
//! `src/node_stream.rs`.
#![allow(dead_code)]
#[path = "../../hcore/src/common.rs"]
mod common;
#[path = "../../hnode/src/c06.rs"]
mod c06;
#[path = "../../hnode/src/node.rs"]
pub mod node;
mod node_stream;

/// Every corpus file is offered to every stream. A file belongs to the stream named by a comment
/// line `# stream: <name>` (or bin/check's `# property C06 stream <name> ...` header), else by its
/// file name prefix `arith-` / `chain-` / `node-`; a file that names no stream runs everywhere.
fn declared_stream(path: &std::path::Path) -> Option<String> {
    let txt = std::fs::read_to_string(path).expect("read replay");
    let by_marker = txt.lines().find_map(|l| {
        let l = l.trim();
        l.strip_prefix("# stream: ").map(|s| s.trim().to_string()).or_else(|| {
            l.strip_prefix("# property C06 stream ").map(|s| s.split_whitespace().next().unwrap_or("").to_string())
        })
    });
    by_marker.or_else(|| {
        let name = path.file_name().map(|n| n.to_string_lossy().to_string()).unwrap_or_default();
        ["arith", "chain", "node"].iter().find(|s| name.starts_with(&format!("{}-", s))).map(|s| s.to_string())
    })
}

fn main() {
    let args: Vec<String> = std::env::args().skip(1).collect();
    if args.is_empty() {
        eprintln!("usage: vh-c06 C06 --seed N --tier T --out DIR <arith|chain|node>");
        std::process::exit(2);
    }
    let opts = common::Opts::parse(&args[1..]);
    let stream = match opts.extra.first().map(|s| s.as_str()) {
        Some("chain") => "chain",
        Some("node") => "node",
        _ => "arith",
    };
    if let Some(rp) = &opts.replay {
        if let Some(d) = declared_stream(rp) {
            if d != stream {
                common::Out::new(&opts.out).finish("(corpus file of another stream: skipped)");
                return;
            }
        }
    }
    if stream == "node" { node_stream::run(&opts) } else { c06::run(&opts) }
}
