//! C06, stream `node`: `RewardVerifier` / `DaoHeaderVerifier` driven END TO END through a real node,
//! with the consensus values inside the blocks computed by the LEAN MODEL.
//!
//! The harness talks to `ckbmodel_c06 node-serve` (a child process, one answer per line, flushed)
//! while it builds the chain, and writes the very same op lines plus the IMPLEMENTATION's answers to
//! ops.txt / impl.txt, so that bin/check's offline run of `ckbmodel_c06 node < ops.txt` reproduces the
//! model side and diffs it with impl.txt.
//!
//! ## scenario lines (what to build; the model answers `ok`; `--replay` executes exactly these)
//! ```text
//! node <close> <far> <numer> <denom> <ser> <epoch_len> <genesis_cells>
//!        new consensus (proposal window, proposer ratio, secondary epoch reward, epoch length), a
//!        fresh real node (chain service, full verification) and a fresh ChainBuilder
//! tx <label> <inputs> <n_out> <fee>
//!        always-success transaction `spend_tx(inputs, n_out, fee, salt = label)`;
//!        input = g<i> genesis cell i | t<label>.<k> output k of tx <label> | c<blk> cellbase output of block <blk>
//! ub <label> <of> <dt> <props>
//!        uncle candidate: sibling of block <of> (same parent/number/body, timestamp + dt, proposals = props)
//! nb <label> <parent> <salt> <txs> <props> <uncles>
//!        next block on <parent> (block labels; 0 = genesis) committing <txs>, proposing <props>, embedding <uncles>
//! restart
//!        stop the chain service, drop the node, open the same directory again (ext rows / cells persist)
//! ```
//! ## model lines emitted while executing one `nb` (all ops of the `arith`/`chain` streams + 2 new)
//! ```text
//! trunc <n> / blk …            bring the model's abstract chain to the parent's branch      -> ok
//! reward <parent number>       model: block_reward_to_finalize on the abstract chain; impl: the
//!                              repo's RewardCalculator on the node's store (tip) / the builder's
//!                              branch store (fork parents)
//! occupied 0:<lock args>:n:0   lockOcc of RewardVerifier's `is_lack_of_capacity(0)`
//! verify <p> <total> <lockOcc> <outs>   model: RewardVerifier's three-way case; impl: the NODE's
//!                              verdict on the block carrying that cellbase (ok | err-amount | err-target)
//! fee <tx>                     model: transaction_fee; impl: get_block_ext(hash).txs_fees[i] of the node
//! dao …                        model: dao_field_with_current_epoch; impl: the repo's DaoCalculator
//!                              (what ChainBuilder put into its block)
//! daoverify <hex>              model: header.dao == last dao answer; impl: the NODE's verdict on the
//!                              block carrying that dao (ok | err-dao)
//! blk <n> …                    the accepted block joins the abstract chain (fees, dao: the model's) -> ok
//! ```
//! The submitted block is ChainBuilder's block (epoch, target, chain-root extension, tx roots) with
//! the cellbase output capacity / presence and the 32 dao bytes REPLACED by the model's answers and
//! rebuilt through `BlockBuilder` (roots recomputed).  Variants (cellbase ±1 shannon, wrong lock,
//! output missing / present against the rule, single dao bit flips) are submitted BEFORE the
//! model-valued block (a sibling of the tip is stored without contextual verification).
//!
//! `--replay FILE` executes the scenario lines of the file literally (model lines of a recorded case
//! are regenerated; the choice of variants is seeded by the scenario lines, so a recorded case
//! replays to the same blocks, the same op lines and the same answers).
//!
//! Oracles (independent of the model, u128 arithmetic on what the node stores): the model-valued
//! block is accepted and becomes the tip; every variant is rejected; `txs_fees[i]` = inputs − outputs;
//! cellbase capacity = primary + floor(g2*U/C of the target's parent) + committer shares of the target's
//! fees + proposer shares ("earliest proposer in the window"; class `block1-proposer-share-unpaid` for
//! the recorded block-1 exception only); the cellbase lock is the target's; C' = C + g + g2,
//! AR' = AR + floor(AR*g2/C), S' = S + g2 − floor(g2*U/C), U' = U + added − freed against the stored parent
//! header; U(tip) = sum of occupied capacity over the node's COLUMN_CELL
//! (`u-not-occupied-capacity-of-live-set`; holds with equality from genesis on).
use crate::common::*;
use crate::node::*;
use ckb_chain_spec::consensus::Consensus;
use ckb_dao_utils::{extract_dao_data, pack_dao_data};
use ckb_db_schema::COLUMN_CELL;
use ckb_reward_calculator::RewardCalculator;
use ckb_store::{ChainDB, ChainStore};
use ckb_types::core::{BlockView, Capacity, EpochExt, Ratio, TransactionView};
use ckb_types::packed::{self, Byte32, CellOutput, OutPoint, ProposalShortId, Script};
use ckb_types::prelude::*;
use std::collections::{HashMap, HashSet};
use std::io::{BufRead, BufReader, Write};
use std::path::PathBuf;
use std::process::{Child, ChildStdin, ChildStdout, Command, Stdio};

// ------------------------------------------------------------------------------------ model process

struct Model {
    child: Child,
    stdin: ChildStdin,
    stdout: BufReader<ChildStdout>,
    asked: u64,
}

impl Model {
    fn spawn() -> Model {
        let exe = std::env::var("VERIF_MODEL_C06").unwrap_or_else(|_| "/verif/lean/.lake/build/bin/ckbmodel_c06".to_string());
        let mut child = Command::new(&exe)
            .arg("node-serve")
            .stdin(Stdio::piped())
            .stdout(Stdio::piped())
            .stderr(Stdio::inherit())
            .spawn()
            .unwrap_or_else(|e| panic!("cannot start the model executable {exe}: {e} (run `lake build ckbmodel_c06`)"));
        let stdin = child.stdin.take().unwrap();
        let stdout = BufReader::new(child.stdout.take().unwrap());
        Model { child, stdin, stdout, asked: 0 }
    }
    fn ask(&mut self, line: &str) -> String {
        self.asked += 1;
        writeln!(self.stdin, "{}", line).expect("write to model");
        self.stdin.flush().expect("flush to model");
        let mut a = String::new();
        let n = self.stdout.read_line(&mut a).expect("read from model");
        assert!(n > 0, "model process closed its output after: {line}");
        a.trim_end_matches('\n').to_string()
    }
    fn stop(mut self) {
        drop(self.stdin);
        let _ = self.child.wait();
    }
}

// ------------------------------------------------------------------------------------------ records

#[derive(Clone, Debug, PartialEq, Eq, Hash)]
enum CellRef {
    G(usize),
    T(u64, u32),
    C(u64),
}

fn parse_cellref(s: &str) -> CellRef {
    if let Some(r) = s.strip_prefix('g') {
        CellRef::G(r.parse().expect("genesis cell index"))
    } else if let Some(r) = s.strip_prefix('t') {
        let (a, b) = r.split_once('.').expect("t<label>.<k>");
        CellRef::T(a.parse().expect("tx label"), b.parse().expect("output index"))
    } else if let Some(r) = s.strip_prefix('c') {
        CellRef::C(r.parse().expect("block label"))
    } else {
        panic!("malformed cell reference {s}")
    }
}

fn fmt_cellref(c: &CellRef) -> String {
    match c {
        CellRef::G(i) => format!("g{}", i),
        CellRef::T(l, k) => format!("t{}.{}", l, k),
        CellRef::C(b) => format!("c{}", b),
    }
}

struct TxRec {
    tx: TransactionView,
    in_caps: Vec<u64>,
    in_cells: Vec<(CellOutput, u64)>,
}

struct BlkRec {
    label: u64,
    parent: u64,
    number: u64,
    block: BlockView,
    /// own proposals / the uncles' proposals / committed ids, as tx labels
    props: Vec<u64>,
    uprops: Vec<u64>,
    ids: Vec<u64>,
    /// the `blk` line of the model's abstract chain (fees and dao are the model's answers)
    blk_line: String,
    /// indices into the case's line buffer whose implementation answer is the node's verdict on
    /// this block / its ext row, still to be filled when the block was only stored (side branch)
    pend_verdict: Vec<usize>,
    pend_fee: Vec<usize>,
    compared: bool,
}

struct Line {
    op: String,
    model: String,
    imp: Option<String>,
}

fn nums(s: &str) -> Vec<u64> {
    if s == "-" { vec![] } else { s.split(',').map(|x| x.parse().expect("number")).collect() }
}

fn fmt_nums(xs: &[u64]) -> String {
    if xs.is_empty() { "-".into() } else { xs.iter().map(|x| x.to_string()).collect::<Vec<_>>().join(",") }
}

fn cell_str(o: &CellOutput, data_len: u64) -> String {
    let cap: Capacity = o.capacity().unpack();
    let ta = o.type_().to_opt().map(|t| t.args().raw_data().len().to_string()).unwrap_or_else(|| "n".into());
    format!("{}:{}:{}:{}", cap.as_u64(), o.lock().args().raw_data().len(), ta, data_len)
}

fn occ128(o: &CellOutput, data_len: u64) -> u128 {
    const BS: u128 = 100_000_000;
    let t = o.type_().to_opt().map(|t| (t.args().raw_data().len() as u128 + 33) * BS).unwrap_or(0);
    (8 + data_len as u128) * BS + (o.lock().args().raw_data().len() as u128 + 33) * BS + t
}

fn cap_of(o: &CellOutput) -> u64 {
    let c: Capacity = o.capacity().unpack();
    c.as_u64()
}

fn verdict(r: &Result<bool, String>) -> String {
    match r {
        Ok(true) => "ok".into(),
        Ok(false) => "known".into(),
        Err(e) if e.contains("InvalidRewardAmount") => "err-amount".into(),
        Err(e) if e.contains("InvalidRewardTarget") => "err-target".into(),
        Err(e) if e.contains("InvalidDAO") => "err-dao".into(),
        Err(_) => "err-other".into(),
    }
}

fn dao_tuple(d: &Byte32) -> (u64, u64, u64, u64) {
    let (ar, c, s, u) = extract_dao_data(d.clone());
    (ar, c.as_u64(), s.as_u64(), u.as_u64())
}

fn epoch_tuple(e: &EpochExt) -> (u64, u64, u64, u64) {
    (e.start_number(), e.length(), e.base_block_reward().as_u64(), e.remainder_reward().as_u64())
}

/// spec reading of an epoch's per-block primary reward / secondary issuance (oracle only)
fn spec_g((start, _len, base, rem): (u64, u64, u64, u64), n: u64) -> u128 {
    base as u128 + if n >= start && (n as u128) < start as u128 + rem as u128 { 1 } else { 0 }
}
fn spec_g2((start, len, _b, _r): (u64, u64, u64, u64), ser: u64, n: u64) -> u128 {
    let r = (ser % len) as u128;
    (ser / len) as u128 + if n >= start && (n as u128) < start as u128 + r { 1 } else { 0 }
}

#[derive(Clone, Debug)]
struct ScnCfg {
    close: u64,
    far: u64,
    numer: u64,
    denom: u64,
    ser: u64,
    epoch_len: u64,
    genesis_cells: u64,
}

// ----------------------------------------------------------------------------------------- scenario

struct Scn {
    cfg: ScnCfg,
    consensus: Consensus,
    node: Option<Node>,
    builder: ChainBuilder,
    base: PathBuf,
    gcells: Vec<(OutPoint, u64)>,
    /// out point -> (output, data length) of every cell the scenario may spend
    cells: HashMap<OutPoint, (CellOutput, u64)>,
    txs: HashMap<u64, TxRec>,
    short: HashMap<ProposalShortId, u64>,
    blocks: HashMap<u64, BlkRec>,
    uncles: HashMap<u64, (BlockView, Vec<u64>)>,
    /// labels of the blocks in the model's abstract chain (index = number)
    model_chain: Vec<u64>,
    lines: Vec<Line>,
    flips: u64,
    cellbase_spends: u64,
    all_bits_done: bool,
    dead: bool,
}

struct Ctx<'a> {
    out: &'a mut Out,
    model: &'a mut Model,
    rng: Rng,
    thorough: bool,
}

impl Scn {
    fn start(cfg: ScnCfg, opts_out: &std::path::Path, ctx: &mut Ctx, node_line: &str) -> Scn {
        let base = scratch_dir(opts_out, "c06node");
        let ncfg = NodeCfg { epoch_len: cfg.epoch_len, window: (cfg.close, cfg.far), genesis_cells: cfg.genesis_cells, maturity_epochs: 0, with_pool: false, tx_pool: None };
        let mut consensus = make_consensus(&ncfg);
        consensus.proposer_reward_ratio = Ratio::new(cfg.numer, cfg.denom);
        consensus.secondary_epoch_reward = Capacity::shannons(cfg.ser);
        let node = Node::start(&base.join("node"), consensus.clone(), &ncfg);
        let builder = ChainBuilder::new(consensus.clone(), &base.join("builder"));
        let gcells = genesis_cells(&consensus);
        let mut cells = HashMap::new();
        let g = consensus.genesis_block().clone();
        for tx in g.transactions().iter() {
            for (i, (o, d)) in tx.outputs_with_data_iter().enumerate() {
                cells.insert(OutPoint::new(tx.hash(), i as u32), (o, d.len() as u64));
            }
        }
        let mut s = Scn {
            cfg,
            consensus,
            node: Some(node),
            builder,
            base,
            gcells,
            cells,
            txs: HashMap::new(),
            short: HashMap::new(),
            blocks: HashMap::new(),
            uncles: HashMap::new(),
            model_chain: vec![],
            lines: vec![],
            flips: 0,
            cellbase_spends: 0,
            all_bits_done: false,
            dead: false,
        };
        s.say(ctx, node_line, Some("ok".into()));
        // genesis joins the abstract chain
        let ge = epoch_tuple(s.consensus.genesis_epoch_ext());
        let gd = dao_tuple(&g.header().dao());
        let blk_line = format!("blk 0 - - - - {} {} {} {} {} {} {} {}", ge.0, ge.1, ge.2, ge.3, gd.0, gd.1, gd.2, gd.3);
        s.say(ctx, &blk_line, Some("ok".into()));
        s.model_chain.push(0);
        s.blocks.insert(0, BlkRec { label: 0, parent: 0, number: 0, block: g.clone(), props: vec![], uprops: vec![], ids: vec![], blk_line, pend_verdict: vec![], pend_fee: vec![], compared: true });
        // the statement that holds at genesis: U(genesis) = occupied capacity of the genesis live set
        let live = s.live_occupied();
        if live != gd.3 as u128 {
            ctx.out.oracle_fail("u-not-occupied-capacity-of-live-set", &format!("genesis U={} live-set={}", gd.3, live));
        }
        s
    }

    fn node(&self) -> &Node {
        self.node.as_ref().expect("node running")
    }

    /// `restart`: stop the chain service, drop the node, open the same directory again
    fn exec_restart(&mut self, ctx: &mut Ctx) {
        let tip = self.node().tip_hash();
        let dir = self.node().dir.clone();
        let ncfg = NodeCfg { epoch_len: self.cfg.epoch_len, window: (self.cfg.close, self.cfg.far), genesis_cells: self.cfg.genesis_cells, maturity_epochs: 0, with_pool: false, tx_pool: None };
        self.node.take().unwrap().stop();
        self.node = Some(Node::start(&dir, self.consensus.clone(), &ncfg));
        assert!(self.node().tip_hash() == tip, "tip changed over a restart");
        ctx.out.count("node-restarts");
    }

    /// one line to the model; returns the index in the line buffer
    fn say(&mut self, ctx: &mut Ctx, op: &str, imp: Option<String>) -> usize {
        let a = ctx.model.ask(op);
        self.lines.push(Line { op: op.to_string(), model: a, imp });
        self.lines.len() - 1
    }

    fn model_of(&self, i: usize) -> &str {
        &self.lines[i].model
    }

    /// Σ occupied capacity over the node's COLUMN_CELL (the live-cell set of the main chain)
    fn live_occupied(&self) -> u128 {
        let mut sum: u128 = 0;
        let store: &ChainDB = self.node().store();
        store
            .db()
            .full_traverse(COLUMN_CELL, &mut |_k: &[u8], v: &[u8]| {
                let e = packed::CellEntryReader::from_slice_should_be_ok(v);
                let output = e.output().to_entity();
                let data_size: u64 = e.data_size().to_entity().unpack();
                let occ = Capacity::bytes(data_size as usize).and_then(|c| output.occupied_capacity(c)).expect("occupied capacity of a live cell");
                sum += occ.as_u64() as u128;
                Ok(())
            })
            .expect("traverse COLUMN_CELL");
        sum
    }

    fn path_labels(&self, label: u64) -> Vec<u64> {
        let mut v = vec![];
        let mut l = label;
        loop {
            v.push(l);
            if l == 0 {
                break;
            }
            l = self.blocks.get(&l).expect("known block label").parent;
        }
        v.reverse();
        v
    }

    fn exec_tx(&mut self, ts: &[&str]) {
        assert!(ts.len() == 5, "malformed tx line");
        let label: u64 = ts[1].parse().expect("tx label");
        assert!(!self.txs.contains_key(&label), "malformed: duplicate tx label");
        let refs: Vec<CellRef> = ts[2].split(',').map(parse_cellref).collect();
        let n_out: usize = ts[3].parse().expect("n_out");
        let fee: u64 = ts[4].parse().expect("fee");
        assert!(n_out >= 1, "malformed: n_out");
        let mut inputs = vec![];
        for r in &refs {
            let op = match r {
                CellRef::G(i) => self.gcells.get(*i).expect("malformed: genesis cell index").0.clone(),
                CellRef::T(l, k) => OutPoint::new(self.txs.get(l).expect("malformed: unknown tx label").tx.hash(), *k),
                CellRef::C(b) => {
                    self.cellbase_spends += 1;
                    let blk = &self.blocks.get(b).expect("malformed: unknown block label").block;
                    OutPoint::new(blk.transactions()[0].hash(), 0)
                }
            };
            let (o, _) = self.cells.get(&op).expect("malformed: input cell does not exist");
            inputs.push((op, cap_of(o)));
        }
        let total: u128 = inputs.iter().map(|x| x.1 as u128).sum();
        assert!(total >= fee as u128 + 49 * 100_000_000 * n_out as u128, "malformed: fee/outputs exceed the inputs");
        let tx = spend_tx(&inputs, n_out, fee, label);
        for (i, (o, d)) in tx.outputs_with_data_iter().enumerate() {
            self.cells.insert(OutPoint::new(tx.hash(), i as u32), (o, d.len() as u64));
        }
        let in_cells = inputs.iter().map(|(op, _)| self.cells.get(op).unwrap().clone()).collect();
        self.short.insert(tx.proposal_short_id(), label);
        self.txs.insert(label, TxRec { tx, in_caps: inputs.iter().map(|x| x.1).collect(), in_cells });
    }

    fn exec_ub(&mut self, ts: &[&str]) {
        assert!(ts.len() == 5, "malformed ub line");
        let label: u64 = ts[1].parse().expect("label");
        let of: u64 = ts[2].parse().expect("label");
        let dt: u64 = ts[3].parse().expect("dt");
        let props = nums(ts[4]);
        let b = &self.blocks.get(&of).expect("malformed: unknown block label").block;
        assert!(b.number() >= 1 && dt >= 1, "malformed uncle");
        let pids: Vec<ProposalShortId> = props.iter().map(|l| self.txs.get(l).expect("malformed: unknown tx label").tx.proposal_short_id()).collect();
        let u = b.as_advanced_builder().timestamp(b.timestamp() + dt).set_proposals(pids).set_uncles(vec![]).build();
        self.uncles.insert(label, (u, props));
    }

    fn tx_str(&self, label: u64) -> String {
        let t = &self.txs[&label];
        let ins: Vec<String> = t.in_cells.iter().map(|(o, d)| format!("p:{}", cell_str(o, *d))).collect();
        let outs: Vec<String> = t.tx.outputs_with_data_iter().map(|(o, d)| cell_str(&o, d.len() as u64)).collect();
        format!("{}|{}", ins.join(","), outs.join(","))
    }

    fn exec_nb(&mut self, ts: &[&str], ctx: &mut Ctx) {
        assert!(ts.len() == 7, "malformed nb line");
        let label: u64 = ts[1].parse().expect("label");
        let parent: u64 = ts[2].parse().expect("label");
        let salt: u64 = ts[3].parse().expect("salt");
        let tx_labels = nums(ts[4]);
        let props = nums(ts[5]);
        let uncle_labels = nums(ts[6]);
        assert!(!self.blocks.contains_key(&label) && label != 0, "malformed: duplicate block label");
        let (p_hash, p_number, p_header) = {
            let p = self.blocks.get(&parent).expect("malformed: unknown parent label");
            (p.block.hash(), p.number, p.block.header())
        };
        let number = p_number + 1;
        let far = self.cfg.far;
        let delay = far + 1;
        let mut uprops: Vec<u64> = vec![];
        let mut uncle_views = vec![];
        for ul in &uncle_labels {
            let (u, ps) = self.uncles.get(ul).expect("malformed: unknown uncle label");
            uprops.extend(ps.iter().copied());
            uncle_views.push(u.as_uncle());
        }
        let spec = BlockSpec {
            txs: tx_labels.iter().map(|l| self.txs.get(l).expect("malformed: unknown tx label").tx.clone()).collect(),
            proposals: props.iter().map(|l| self.txs.get(l).expect("malformed: unknown tx label").tx.proposal_short_id()).collect(),
            uncles: uncle_views,
            salt,
            ..Default::default()
        };
        let on_tip = self.node().tip_hash() == p_hash;
        let heavier = number > self.node().tip().number();

        // ---- implementation side, before the builder's store moves on: epoch of the new block and the
        //      repo's RewardCalculator
        let consensus = self.consensus.clone();
        let (epoch, impl_reward) = {
            let bstore = self.builder.replay_store(&p_hash);
            let epoch = consensus.next_epoch_ext(&p_header, &bstore.borrow_as_data_loader()).expect("epoch of the new block").epoch();
            let store: &ChainDB = if on_tip { self.node.as_ref().unwrap().store() } else { bstore };
            let r = RewardCalculator::new(&consensus, store).block_reward_to_finalize(&p_header);
            let s = match r {
                Ok((_lock, br)) => format!(
                    "ok target={} total={} primary={} secondary={} txfee={} proposal={}",
                    number.saturating_sub(delay),
                    br.total.as_u64(),
                    br.primary.as_u64(),
                    br.secondary.as_u64(),
                    br.tx_fee.as_u64(),
                    br.proposal_reward.as_u64()
                ),
                Err(_) => "err-overflow".to_string(),
            };
            (epoch_tuple(&epoch), s)
        };
        let built = self.builder.build(&p_hash, &spec);

        // ---- the model's abstract chain follows the parent's branch
        let path = self.path_labels(parent);
        let mut common = 0;
        while common < path.len() && common < self.model_chain.len() && path[common] == self.model_chain[common] {
            common += 1;
        }
        if common < self.model_chain.len() {
            self.say(ctx, &format!("trunc {}", common), Some("ok".into()));
            self.model_chain.truncate(common);
            ctx.out.count("model-chain-switches-branch");
        }
        for l in path[common..].to_vec() {
            let line = self.blocks[&l].blk_line.clone();
            self.say(ctx, &line, Some("ok".into()));
            self.model_chain.push(l);
        }

        // ---- reward of the block to finalise: the model's answer decides the cellbase
        let ri = self.say(ctx, &format!("reward {}", p_number), Some(impl_reward));
        let ranswer = self.model_of(ri).to_string();
        let field = |k: &str| -> Option<u64> {
            ranswer.split(' ').find_map(|t| t.strip_prefix(&format!("{}=", k)).and_then(|v| v.parse().ok()))
        };
        let (Some(m_target), Some(m_total)) = (field("target"), field("total")) else {
            eprintln!("C06 node: the model has no reward for parent {}: {}", p_number, ranswer);
            self.dead = true;
            return;
        };
        // the lock to pay: the cellbase witness lock of the block with the model's target number on this branch
        let target_lock: Script = {
            let tl = *path.get(m_target as usize).expect("model's target is on the path");
            let tb = &self.blocks[&tl].block;
            packed::CellbaseWitness::from_slice(&tb.transactions()[0].witnesses().get(0).unwrap().raw_data()).expect("cellbase witness").lock()
        };
        let lock_args = target_lock.args().raw_data().len();
        let impl_occ = CellOutput::new_builder().lock(target_lock.clone()).build().occupied_capacity(Capacity::zero()).expect("occupied").as_u64();
        let oi = self.say(ctx, &format!("occupied 0:{}:n:0", lock_args), Some(format!("ok {}", impl_occ)));
        let lock_occ: u64 = self.model_of(oi).strip_prefix("ok ").and_then(|v| v.parse().ok()).expect("model occupied");

        // which cellbase form does the model accept? (RewardVerifier's three-way case)
        let v_none = self.say(ctx, &format!("verify {} {} {} -", p_number, m_total, lock_occ), None);
        let v_exact = self.say(ctx, &format!("verify {} {} {} {}:1", p_number, m_total, lock_occ, m_total), None);
        let with_output = match (self.model_of(v_none), self.model_of(v_exact)) {
            ("ok", _) => false,
            (_, "ok") => true,
            (a, b) => {
                eprintln!("C06 node: the model accepts no cellbase form: {} / {}", a, b);
                self.dead = true;
                return;
            }
        };
        let cb0 = built.transactions()[0].clone();
        let mk_cellbase = |out: Option<(u64, Script)>| -> TransactionView {
            let b = cb0.as_advanced_builder().set_outputs(vec![]).set_outputs_data(vec![]);
            match out {
                Some((cap, lock)) => b.output(CellOutput::new_builder().capacity(Capacity::shannons(cap)).lock(lock).build()).output_data(ckb_types::bytes::Bytes::new()).build(),
                None => b.build(),
            }
        };
        let cellbase = mk_cellbase(if with_output { Some((m_total, target_lock.clone())) } else { None });

        // ---- per-transaction fees and the dao field: the model's answers
        let mut fee_idx = vec![];
        let mut m_fees = vec![];
        for l in &tx_labels {
            let i = self.say(ctx, &format!("fee {}", self.tx_str(*l)), None);
            let f: u64 = self.model_of(i).strip_prefix("ok ").and_then(|v| v.parse().ok()).unwrap_or_else(|| panic!("malformed scenario: the model has no fee for tx {}: {}", l, self.model_of(i)));
            fee_idx.push(i);
            m_fees.push(f);
        }
        let pd = dao_tuple(&p_header.dao());
        let cb_str = {
            let outs: Vec<String> = cellbase.outputs_with_data_iter().map(|(o, d)| cell_str(&o, d.len() as u64)).collect();
            format!("-|{}", if outs.is_empty() { "-".to_string() } else { outs.join(",") })
        };
        let mut txs_str = vec![cb_str];
        txs_str.extend(tx_labels.iter().map(|l| self.tx_str(*l)));
        let bd = dao_tuple(&built.header().dao());
        let impl_dao = format!("ok {} {} {} {} {}", hex(built.header().dao().as_slice()), bd.0, bd.1, bd.2, bd.3);
        let di = self.say(
            ctx,
            &format!("dao {} {} {} {} {} {} {} {} {} {} {}", self.cfg.ser, epoch.0, epoch.1, epoch.2, epoch.3, p_number, pd.0, pd.1, pd.2, pd.3, txs_str.join(";")),
            Some(impl_dao),
        );
        let danswer = self.model_of(di).to_string();
        let dparts: Vec<&str> = danswer.split(' ').collect();
        if dparts.len() != 6 || dparts[0] != "ok" {
            eprintln!("C06 node: the model has no dao field: {}", danswer);
            self.dead = true;
            return;
        }
        let m_dao_hex = dparts[1].to_string();
        let m_dao_bytes: Vec<u8> = (0..32).map(|i| u8::from_str_radix(&m_dao_hex[2 * i..2 * i + 2], 16).expect("hex")).collect();
        let m_dao = Byte32::from_slice(&m_dao_bytes).unwrap();
        let m_dao_t: (u64, u64, u64, u64) = (dparts[2].parse().unwrap(), dparts[3].parse().unwrap(), dparts[4].parse().unwrap(), dparts[5].parse().unwrap());

        // ---- the model-valued block
        let mk_block = |cb: &TransactionView, dao: &Byte32| -> BlockView {
            let mut txs = vec![cb.clone()];
            txs.extend(spec.txs.iter().cloned());
            built.as_advanced_builder().set_transactions(txs).dao(dao.clone()).build()
        };
        let mblock = mk_block(&cellbase, &m_dao);
        let same = mblock.hash() == built.hash();
        ctx.out.count(if same { "model-valued-block-equals-calculators-block" } else { "model-valued-block-differs-from-calculators-block" });
        let main_verdict_idx = if with_output { v_exact } else { v_none };
        let other_idx = if with_output { v_none } else { v_exact };
        let mdv = self.say(ctx, &format!("daoverify {}", m_dao_hex), None);
        let mut pend_verdict = vec![main_verdict_idx, mdv];

        // ---- variants first (only a block heavier than the tip is verified contextually)
        if heavier {
            if !on_tip {
                ctx.out.count("variants-submitted-at-a-reorg-trigger-block");
            }
            // the other cellbase form: output present against the rule / missing against the rule;
            // U moves by the output's occupied capacity, so the dao is adjusted (a pure re-encoding)
            {
                let (cb, dao) = if with_output {
                    (mk_cellbase(None), pack_dao_data(m_dao_t.0, Capacity::shannons(m_dao_t.1), Capacity::shannons(m_dao_t.2), Capacity::shannons(m_dao_t.3 - lock_occ)))
                } else {
                    (
                        mk_cellbase(Some((m_total, target_lock.clone()))),
                        pack_dao_data(m_dao_t.0, Capacity::shannons(m_dao_t.1), Capacity::shannons(m_dao_t.2), Capacity::shannons(m_dao_t.3 + lock_occ)),
                    )
                };
                let r = self.node().process(&mk_block(&cb, &dao));
                self.variant_result(ctx, other_idx, &r, if with_output { "cellbase-output-missing" } else { "cellbase-output-without-target" }, number);
            }
            if with_output && !self.dead {
                let mut caps = vec![m_total + 1, m_total - 1];
                if ctx.rng.chance(1, 6) {
                    caps.push(m_total + 1 + ctx.rng.below(1_000_000));
                    caps.push(m_total - 1 - ctx.rng.below(1_000_000.min(m_total - lock_occ)));
                }
                for cap in caps {
                    if self.dead {
                        break;
                    }
                    let i = self.say(ctx, &format!("verify {} {} {} {}:1", p_number, m_total, lock_occ, cap), None);
                    let r = self.node().process(&mk_block(&mk_cellbase(Some((cap, target_lock.clone()))), &m_dao));
                    self.variant_result(ctx, i, &r, if cap > m_total { "cellbase-capacity-above" } else { "cellbase-capacity-below" }, number);
                }
                if !self.dead && ctx.rng.chance(1, 3) {
                    // the right amount to another lock of the same size (so that U is unchanged)
                    let mut ch = target_lock.code_hash().raw_data().to_vec();
                    ch[ctx.rng.below(32) as usize] ^= 1 << ctx.rng.below(8);
                    let wrong = target_lock.clone().as_builder().code_hash(Byte32::from_slice(&ch).unwrap()).build();
                    let i = self.say(ctx, &format!("verify {} {} {} {}:0", p_number, m_total, lock_occ, m_total), None);
                    let r = self.node().process(&mk_block(&mk_cellbase(Some((m_total, wrong))), &m_dao));
                    self.variant_result(ctx, i, &r, "cellbase-wrong-lock", number);
                }
            }
            // dao bit flips: one bit in each of the four u64 fields (+ extras)
            let mut bits: Vec<usize> = (0..4).map(|f| f * 64 + ctx.rng.below(64) as usize).collect();
            if ctx.thorough {
                for _ in 0..4 {
                    bits.push(ctx.rng.below(256) as usize);
                }
            }
            if !self.all_bits_done && number > delay + 1 && (ctx.thorough || ctx.rng.chance(1, 4)) {
                bits = (0..256).collect();
                self.all_bits_done = true;
                ctx.out.count("block-with-all-256-dao-bit-flips");
            }
            bits.sort();
            bits.dedup();
            for bit in bits {
                if self.dead {
                    break;
                }
                let mut raw = m_dao_bytes.clone();
                raw[bit / 8] ^= 1 << (bit % 8);
                let i = self.say(ctx, &format!("daoverify {}", hex(&raw)), None);
                let r = self.node().process(&mk_block(&cellbase, &Byte32::from_slice(&raw).unwrap()));
                self.variant_result(ctx, i, &r, ["dao-bitflip-C", "dao-bitflip-AR", "dao-bitflip-S", "dao-bitflip-U"][bit / 64], number);
                self.flips += 1;
            }
        } else {
            // not verified at this position: the other form is not submitted
            self.lines[other_idx].imp = Some(self.lines[other_idx].model.clone());
            ctx.out.count("side-branch-block-stored-unverified");
        }
        if self.dead {
            return;
        }

        // ---- the model-valued block itself
        let r = self.node().process(&mblock);
        let v = verdict(&r);
        let blk_line = format!(
            "blk {} {} {} {} {} {} {} {} {} {} {} {} {}",
            number,
            fmt_nums(&props),
            fmt_nums(&uprops),
            fmt_nums(&tx_labels),
            fmt_nums(&m_fees),
            epoch.0,
            epoch.1,
            epoch.2,
            epoch.3,
            m_dao_t.0,
            m_dao_t.1,
            m_dao_t.2,
            m_dao_t.3
        );
        if v != "ok" {
            for i in pend_verdict.drain(..) {
                self.lines[i].imp = Some(v.clone());
            }
            for i in fee_idx {
                self.lines[i].imp = Some("rejected".into());
            }
            match v.as_str() {
                "err-amount" | "err-target" | "err-dao" => {
                    ctx.out.oracle_fail(
                        "model-valued-block-rejected",
                        &format!("block {} (label {}) carrying the model's cellbase/dao was rejected by the node: {:?}; equals the calculators' block: {}", number, label, r, same),
                    );
                    self.dead = true;
                    return;
                }
                _ => {
                    eprintln!("C06 node: malformed scenario: block {} (label {}) rejected for another rule: {:?}", number, label, r);
                    self.cleanup();
                    std::process::exit(3);
                }
            }
        }
        if !same {
            // accepted although the repo's calculators (ChainBuilder) disagree with the model: the
            // builder cannot continue on this block
            ctx.out.oracle_fail("calculators-disagree-with-verifiers", &format!("block {} (label {}): node accepted the model-valued block, ChainBuilder's calculators built another one", number, label));
            for i in pend_verdict.drain(..) {
                self.lines[i].imp = Some("ok".into());
            }
            self.dead = true;
            return;
        }
        ctx.out.count("model-valued-block-accepted");
        if with_output {
            ctx.out.count("model-valued-block-accepted:with-reward-output");
        }
        // cells for later spending
        for (i, (o, d)) in cellbase.outputs_with_data_iter().enumerate() {
            self.cells.insert(OutPoint::new(cellbase.hash(), i as u32), (o, d.len() as u64));
        }
        self.blocks.insert(
            label,
            BlkRec { label, parent, number, block: mblock.clone(), props, uprops, ids: tx_labels, blk_line: blk_line.clone(), pend_verdict: std::mem::take(&mut pend_verdict), pend_fee: fee_idx, compared: false },
        );
        self.say(ctx, &blk_line, Some("ok".into()));
        self.model_chain.push(label);

        // ---- after acceptance: everything that is on the node's main chain now and not yet compared
        if self.node().tip_hash() == mblock.hash() {
            let path = self.path_labels(label);
            let fresh = path.iter().skip(1).filter(|l| !self.blocks[*l].compared).count();
            if fresh > 1 {
                ctx.out.count("reorgs-to-a-model-valued-branch");
                *ctx.out.hist.entry("blocks-attached-by-reorg".into()).or_insert(0) += fresh as u64;
            }
            for l in path.iter().skip(1) {
                if !self.blocks[l].compared {
                    self.compare_attached(ctx, *l, &path);
                }
            }
            let u = dao_tuple(&self.node().tip().dao()).3;
            let live = self.live_occupied();
            ctx.out.count("live-set-scans");
            if live != u as u128 {
                ctx.out.oracle_fail("u-not-occupied-capacity-of-live-set", &format!("tip {} U={} live-set={}", number, u, live));
            }
        } else if heavier {
            ctx.out.oracle_fail("accepted-block-not-tip", &format!("block {} (label {})", number, label));
        }
    }

    fn variant_result(&mut self, ctx: &mut Ctx, idx: usize, r: &Result<bool, String>, kind: &str, number: u64) {
        let v = verdict(r);
        self.lines[idx].imp = Some(v.clone());
        if r.is_ok() {
            ctx.out.oracle_fail(&format!("variant-accepted:{}", kind), &format!("block {}: the node accepted a block whose {} differs from the rule ({})", number, kind, self.lines[idx].op));
            self.dead = true;
        } else {
            ctx.out.count(&format!("variant-rejected:{}:{}", kind, v));
        }
    }

    /// block `label` is on the node's main chain: fill the node's answers and evaluate the property
    fn compare_attached(&mut self, ctx: &mut Ctx, label: u64, path: &[u64]) {
        let (hash, number, parent_label) = {
            let b = &self.blocks[&label];
            (b.block.hash(), b.number, b.parent)
        };
        let store = self.node.as_ref().expect("node running").store();
        let ext = store.get_block_ext(&hash).expect("ext of an attached block");
        let stored = store.get_block(&hash).expect("attached block");
        let on_main = store.get_block_hash(number) == Some(hash.clone());
        if ext.verified != Some(true) || !on_main {
            ctx.out.oracle_fail("attached-block-not-verified", &format!("block {} verified={:?} main={}", number, ext.verified, on_main));
        }
        // the node's verdict on the model-valued block: it is attached, RewardVerifier and DaoHeaderVerifier passed
        let pend: Vec<usize> = self.blocks.get_mut(&label).unwrap().pend_verdict.drain(..).collect();
        for i in pend {
            self.lines[i].imp = Some("ok".into());
        }
        let fee_idx: Vec<usize> = self.blocks.get_mut(&label).unwrap().pend_fee.drain(..).collect();
        let ids = self.blocks[&label].ids.clone();
        if ext.txs_fees.len() != ids.len() {
            ctx.out.oracle_fail("txs-fees-length", &format!("block {} txs_fees={} txs={}", number, ext.txs_fees.len(), ids.len()));
        }
        for (k, i) in fee_idx.iter().enumerate() {
            self.lines[*i].imp = Some(ext.txs_fees.get(k).map(|f| format!("ok {}", f.as_u64())).unwrap_or_else(|| "missing".into()));
        }
        // oracle: txs_fees[i] = Σ inputs − Σ outputs
        for (k, l) in ids.iter().enumerate() {
            let t = &self.txs[l];
            let ins: u128 = t.in_caps.iter().map(|c| *c as u128).sum();
            let outs: u128 = t.tx.outputs().into_iter().map(|o| cap_of(&o) as u128).sum();
            let got = ext.txs_fees.get(k).map(|f| f.as_u64() as u128);
            if ins < outs || got != Some(ins - outs) {
                ctx.out.oracle_fail("txs-fees-not-inputs-minus-outputs", &format!("block {} tx {} fee={:?} inputs={} outputs={}", number, l, got, ins, outs));
            }
        }
        // oracle: the dao rule against the parent's header as the node stores it
        let parent_hash = self.blocks[&parent_label].block.hash();
        let ph = store.get_block_header(&parent_hash).expect("parent header");
        let (par, pc, ps, pu) = dao_tuple(&ph.dao());
        let (ar, c, s, u) = dao_tuple(&stored.header().dao());
        let epoch = store.get_block_epoch_index(&hash).and_then(|i| store.get_epoch_ext(&i)).map(|e| epoch_tuple(&e)).expect("epoch of an attached block");
        let g = spec_g(epoch, number);
        let g2 = spec_g2(epoch, self.cfg.ser, number);
        let mut added: u128 = 0;
        let mut freed: u128 = 0;
        for (o, d) in stored.transactions()[0].outputs_with_data_iter() {
            added += occ128(&o, d.len() as u64);
        }
        for l in &ids {
            let t = &self.txs[l];
            for (o, d) in t.tx.outputs_with_data_iter() {
                added += occ128(&o, d.len() as u64);
            }
            for (o, d) in &t.in_cells {
                freed += occ128(o, *d);
            }
        }
        let miner = g2 * pu as u128 / pc as u128;
        let mut bad = vec![];
        if c as u128 != pc as u128 + g + g2 {
            bad.push("C");
        }
        if u as u128 + freed != pu as u128 + added {
            bad.push("U");
        }
        if s as u128 != ps as u128 + (g2 - miner) {
            bad.push("S");
        }
        if ar as u128 != par as u128 + par as u128 * g2 / pc as u128 {
            bad.push("AR");
        }
        if !bad.is_empty() {
            ctx.out.oracle_fail("dao-rule", &format!("block {} fields={} parent=({},{},{},{}) got=({},{},{},{}) g={} g2={} added={} freed={}", number, bad.join(","), par, pc, ps, pu, ar, c, s, u, g, g2, added, freed));
        }
        if epoch.3 > 0 && number >= epoch.0 && number < epoch.0 + epoch.3 {
            ctx.out.count("attached-block-in-primary-remainder-zone");
        }
        if number == epoch.0 && number > 0 {
            ctx.out.count("attached-block-opens-epoch");
        }
        if number >= epoch.0 && number < epoch.0 + self.cfg.ser % epoch.1 {
            ctx.out.count("attached-block-in-secondary-remainder-zone");
        }
        // oracle: cellbase = reward of the finalised block, to its lock
        let delay = self.cfg.far + 1;
        let outputs: Vec<CellOutput> = stored.transactions()[0].outputs().into_iter().collect();
        if number <= delay {
            if !outputs.is_empty() {
                ctx.out.oracle_fail("cellbase-output-without-target", &format!("block {}", number));
            }
        } else {
            let t = number - delay;
            let by_number = |n: u64| -> &BlkRec { &self.blocks[&path[n as usize]] };
            let tb = by_number(t);
            let t_hash = tb.block.hash();
            let t_ext = store.get_block_ext(&t_hash).expect("target ext");
            let t_epoch = store.get_block_epoch_index(&t_hash).and_then(|i| store.get_epoch_ext(&i)).map(|e| epoch_tuple(&e)).expect("target epoch");
            let (_, tpc, _, tpu) = dao_tuple(&store.get_block_header(&by_number(t - 1).block.hash()).expect("header").dao());
            let share = |fee: u64| fee as u128 * self.cfg.numer as u128 / self.cfg.denom as u128;
            let primary = spec_g(t_epoch, t);
            let secondary = spec_g2(t_epoch, self.cfg.ser, t) * tpu as u128 / tpc as u128;
            let committer: u128 = t_ext.txs_fees.iter().map(|f| f.as_u64() as u128 - share(f.as_u64())).sum();
            let (cl, far) = (self.cfg.close, self.cfg.far);
            let mut proposer: u128 = 0;
            let t_props: HashSet<u64> = tb.props.iter().chain(tb.uprops.iter()).copied().collect();
            for cnum in (t + cl)..=(t + far) {
                let cb = by_number(cnum);
                let c_ext = store.get_block_ext(&cb.block.hash()).expect("ext");
                for (id, fee) in cb.ids.iter().zip(c_ext.txs_fees.iter()) {
                    if !t_props.contains(id) {
                        continue;
                    }
                    let lo = cnum.saturating_sub(far).max(1);
                    let hi = cnum - cl;
                    let earliest = (lo..=hi).find(|q| {
                        let qb = by_number(*q);
                        qb.props.contains(id) || qb.uprops.contains(id)
                    });
                    if earliest == Some(t) {
                        proposer += share(fee.as_u64());
                        ctx.out.count(&format!("proposer-share-due:commit-offset-{}", cnum - t));
                        if tb.uprops.contains(id) && !tb.props.contains(id) {
                            ctx.out.count("proposer-share-due:proposed-in-uncle-only");
                        }
                        if (1..lo).any(|q| by_number(q).props.contains(id) || by_number(q).uprops.contains(id)) {
                            ctx.out.count("proposer-share-due:re-proposal-after-an-expired-earlier-proposal");
                        }
                        if ((t + 1)..=hi).any(|q| by_number(q).props.contains(id) || by_number(q).uprops.contains(id)) {
                            ctx.out.count("proposer-share-due:re-proposed-later-inside-the-window");
                        }
                    } else {
                        ctx.out.count("target-proposal-with-earlier-proposer-in-window");
                    }
                }
            }
            let spec_total = primary + secondary + committer + proposer;
            let got: u128 = outputs.iter().map(|o| cap_of(o) as u128).sum();
            if outputs.len() != 1 {
                ctx.out.oracle_fail("cellbase-output-count", &format!("block {} outputs={}", number, outputs.len()));
            } else {
                let want_lock = packed::CellbaseWitness::from_slice(&tb.block.transactions()[0].witnesses().get(0).unwrap().raw_data()).expect("witness").lock();
                if outputs[0].lock() != want_lock {
                    ctx.out.oracle_fail("cellbase-lock-not-targets", &format!("block {} target {}", number, t));
                }
            }
            if got != spec_total {
                let class = if t == 1 && got < spec_total && got + proposer >= spec_total { "block1-proposer-share-unpaid" } else { "cellbase-capacity-not-reward" };
                ctx.out.oracle_fail(class, &format!("block {} target {} cellbase={} spec={} (primary={} secondary={} committer={} proposer={})", number, t, got, spec_total, primary, secondary, committer, proposer));
            }
            ctx.out.count("attached-block-with-finalisation-target");
            if proposer > 0 {
                ctx.out.count("attached-block-pays-proposer-share");
            }
            if committer > 0 {
                ctx.out.count("attached-block-pays-committer-share");
            }
            if secondary > 0 {
                ctx.out.count("attached-block-pays-secondary");
            }
        }
        ctx.out.count("attached-block-compared");
        self.blocks.get_mut(&label).unwrap().compared = true;
    }

    fn cleanup(&mut self) {
        self.builder.cleanup();
        let _ = std::fs::remove_dir_all(&self.base);
    }

    /// write the buffered lines (ops + the implementation's answers) and stop the node
    fn finish(mut self, ctx: &mut Ctx) {
        let mut fp: u64 = 0xcbf29ce484222325;
        let mut accepted = 0;
        for l in self.lines.drain(..) {
            // the node never verified this block (a side branch that was not continued: only in
            // cut-down replays): there is no verdict / ext row to compare, the line is left out
            let Some(imp) = l.imp else {
                ctx.out.count("lines-of-never-verified-side-blocks-left-out");
                continue;
            };
            for b in imp.bytes() {
                fp = (fp ^ b as u64).wrapping_mul(0x100000001b3);
            }
            if l.op.starts_with("blk ") {
                accepted += 1;
            }
            let kind = l.op.split(' ').next().unwrap_or("").to_string();
            ctx.out.count(&format!("{}:{}", kind, imp.split(' ').next().unwrap_or("")));
            ctx.out.op(&l.op, &imp);
        }
        if accepted > 2 {
            ctx.out.nontrivial(format!("{:016x}", fp));
        }
        let Scn { node, mut builder, base, .. } = self;
        if let Some(n) = node {
            n.stop();
        }
        builder.cleanup();
        drop(builder);
        let _ = std::fs::remove_dir_all(&base);
    }
}

// ---------------------------------------------------------------------------------------- generator

#[derive(Clone, Debug)]
struct GTx {
    label: u64,
    parents: Vec<u64>,
    proposed_at: Vec<u64>,
    committed: bool,
}

#[derive(Clone, Debug)]
struct GCell {
    r: CellRef,
    lb: u64,
    parent_tx: Option<u64>,
}

#[derive(Clone, Debug)]
struct GState {
    tip: u64,
    number: u64,
    /// block label by number on this branch
    path: Vec<u64>,
    avail: Vec<GCell>,
    pending: Vec<GTx>,
    committed: HashSet<u64>,
    used_uncle_slots: HashSet<(u64, u64)>,
}

fn gen_fee(rng: &mut Rng, max: u64) -> u64 {
    let f = match rng.below(14) {
        0 => 0,
        1 => 1,
        2 => 2,
        3 => 3,
        4 => 9,
        5 => 10,
        6 => 11,
        7 => 99 + rng.below(3),
        8 => rng.below(10_000),
        9 => rng.below(1_000_000_000),
        10 => max,
        11 => rng.below(max.max(1)),
        _ => rng.below(100_000),
    };
    f.min(max)
}

/// the scenario lines of one case
fn gen_scenario(rng: &mut Rng, thorough: bool) -> Vec<String> {
    let close = rng.range(1, 3);
    let far = close + rng.range(0, 4);
    let (numer, denom) = match rng.below(8) {
        0 => (1, 3),
        1 => (10, 10),
        2 => (0, 5),
        3 => (3, 7),
        _ => (4, 10),
    };
    let epoch_len = *rng.pick(&[3u64, 4, 5, 6, 7, 9, 11, 13]);
    let ser = match rng.below(8) {
        0 => 0,
        1 => 1,
        2 => epoch_len - 1,
        3 => epoch_len + 1,
        4 => rng.below(100_000_000_000_000),
        _ => 61_369_863_013_698,
    };
    let genesis_cells = 12 + rng.below(10);
    let mut lines = vec![format!("node {} {} {} {} {} {} {}", close, far, numer, denom, ser, epoch_len, genesis_cells)];
    let delay = far + 1;
    let len = delay + far + 3 + rng.below(if thorough { 3 * far + 12 } else { 2 * far + 8 });
    let mut st = GState {
        tip: 0,
        number: 0,
        path: vec![0],
        avail: (0..genesis_cells as usize).map(|i| GCell { r: CellRef::G(i), lb: 5_000_000_000_000, parent_tx: None }).collect(),
        pending: vec![],
        committed: HashSet::new(),
        used_uncle_slots: HashSet::new(),
    };
    let mut snaps: HashMap<u64, GState> = HashMap::new();
    snaps.insert(0, st.clone());
    let mut next_tx = 1u64;
    let mut next_blk = 1u64;
    let mut forks_left = if rng.chance(1, 2) { 1 + rng.below(2) } else { 0 };
    let mut produced = 0;
    // blocks still to build on a fork before it overtakes the old branch
    let mut fork_todo = 0u64;
    while produced < len || fork_todo > 0 {
        // fork: go back k blocks, build k+1 blocks there
        if fork_todo == 0 && forks_left > 0 && st.number >= 3 && rng.chance(1, 8) {
            let k = rng.range(1, 3.min(st.number - 1));
            let anc = st.path[(st.number - k) as usize];
            st = snaps[&anc].clone();
            fork_todo = k + 1;
            forks_left -= 1;
        }
        let n = st.number + 1;
        // new transactions
        for _ in 0..rng.below(4) {
            if st.avail.is_empty() {
                break;
            }
            let n_in = 1 + rng.below(2).min(st.avail.len() as u64 - 1);
            let mut ins = vec![];
            for _ in 0..n_in {
                let i = rng.below(st.avail.len() as u64) as usize;
                ins.push(st.avail.swap_remove(i));
            }
            let total: u64 = ins.iter().map(|c| c.lb).sum();
            let max_out = (total / 4_900_000_000).min(3);
            if max_out == 0 {
                // dust: leave these cells alone for good
                continue;
            }
            let n_out = rng.range(1, max_out);
            let room = total - n_out * 4_900_000_000;
            let fee = gen_fee(rng, room.min(2_000_000_000_000));
            let label = next_tx;
            next_tx += 1;
            lines.push(format!("tx {} {} {} {}", label, ins.iter().map(|c| fmt_cellref(&c.r)).collect::<Vec<_>>().join(","), n_out, fee));
            let each = (total - fee) / n_out;
            for k in 0..n_out {
                st.avail.push(GCell { r: CellRef::T(label, k as u32), lb: each, parent_tx: Some(label) });
            }
            st.pending.push(GTx { label, parents: ins.iter().filter_map(|c| c.parent_tx).collect(), proposed_at: vec![], committed: false });
        }
        // proposals (block and uncles)
        let mut props = vec![];
        let mut uprops: Vec<Vec<u64>> = vec![vec![], vec![]];
        // uncle candidates: main-chain blocks m in the same epoch as n, 1 <= m < n
        let epoch_start = (n / epoch_len) * epoch_len;
        let lo = epoch_start.max(1);
        let can_uncle = n >= 2 && lo < n;
        for t in st.pending.iter_mut() {
            if t.committed {
                continue;
            }
            let fresh = t.proposed_at.is_empty();
            let go = if fresh { rng.chance(3, 4) } else { rng.chance(1, 4) };
            if !go {
                continue;
            }
            if can_uncle && rng.chance(1, 3) {
                uprops[rng.below(2) as usize].push(t.label);
                if rng.chance(1, 6) {
                    props.push(t.label);
                }
            } else {
                props.push(t.label);
            }
            t.proposed_at.push(n);
        }
        let mut uncle_labels = vec![];
        for up in uprops.iter() {
            if up.is_empty() && !(can_uncle && rng.chance(1, 10)) {
                continue;
            }
            // a free (number, dt) slot
            let m = rng.range(lo, n - 1);
            let mut dt = 1 + rng.below(5);
            while st.used_uncle_slots.contains(&(st.path[m as usize], dt)) {
                dt += 1;
            }
            st.used_uncle_slots.insert((st.path[m as usize], dt));
            let ul = next_blk;
            next_blk += 1;
            lines.push(format!("ub {} {} {} {}", ul, st.path[m as usize], dt, fmt_nums(up)));
            uncle_labels.push(ul);
        }
        // commits: in window, parents committed
        let mut commits = vec![];
        let mut now: HashSet<u64> = HashSet::new();
        for t in st.pending.iter_mut() {
            if t.committed {
                continue;
            }
            let in_window = t.proposed_at.iter().any(|p| *p + close <= n && n <= *p + far);
            if !in_window || !t.parents.iter().all(|p| st.committed.contains(p) || now.contains(p)) {
                continue;
            }
            let last_chance = t.proposed_at.iter().all(|p| *p + far <= n);
            if rng.chance(if last_chance { 3 } else { 2 }, 4) {
                commits.push(t.label);
                now.insert(t.label);
                t.committed = true;
            }
        }
        for l in &now {
            st.committed.insert(*l);
        }
        // outputs of uncommitted txs can be spent by new txs (chained), of committed ones too: nothing to move
        let label = next_blk;
        next_blk += 1;
        lines.push(format!("nb {} {} {} {} {} {}", label, st.tip, label, fmt_nums(&commits), fmt_nums(&props), fmt_nums(&uncle_labels)));
        st.tip = label;
        st.number = n;
        st.path.push(label);
        if n > delay && rng.chance(1, 3) {
            st.avail.push(GCell { r: CellRef::C(label), lb: 10_000_000_000_000, parent_tx: None });
        }
        st.pending.retain(|t| !t.committed);
        snaps.insert(label, st.clone());
        produced += 1;
        if rng.chance(1, 60) {
            lines.push("restart".to_string());
        }
        if fork_todo > 0 {
            fork_todo -= 1;
        }
    }
    lines
}

// ---------------------------------------------------------------------------------------------- run

fn run_scenario(lines: &[String], label: &str, opts: &Opts, ctx: &mut Ctx) {
    ctx.out.begin_case(label);
    let case_line = format!("case {} {}", ctx.out.case, label);
    let echo = ctx.model.ask(&case_line);
    assert_eq!(echo, case_line, "model must echo the case line");
    let mut scn: Option<Scn> = None;
    // the variant choices (which bits, which extra capacities) depend on the scenario lines only,
    // so a recorded case replays to the same blocks and answers
    let mut h: u64 = 0xcbf29ce484222325;
    for l in lines {
        if matches!(l.split(' ').next(), Some("node" | "tx" | "ub" | "nb" | "restart")) {
            for b in l.bytes() {
                h = (h ^ b as u64).wrapping_mul(0x100000001b3);
            }
        }
    }
    ctx.rng = Rng::new(h);
    for l in lines {
        let ts: Vec<&str> = l.split(' ').collect();
        match ts[0] {
            "node" => {
                assert!(scn.is_none(), "malformed: one `node` line per case");
                assert!(ts.len() == 8, "malformed node line");
                let v: Vec<u64> = ts[1..].iter().map(|x| x.parse().expect("number")).collect();
                assert!(v[0] >= 1 && v[0] <= v[1] && v[3] > 0 && v[2] <= v[3] && v[5] >= 2 && v[6] >= 1, "malformed node parameters");
                let cfg = ScnCfg { close: v[0], far: v[1], numer: v[2], denom: v[3], ser: v[4], epoch_len: v[5], genesis_cells: v[6] };
                scn = Some(Scn::start(cfg, &opts.out, ctx, l));
            }
            "tx" | "ub" | "nb" | "restart" => {
                let s = scn.as_mut().expect("malformed: `node` line first");
                if s.dead {
                    continue;
                }
                s.say(ctx, l, Some("ok".into()));
                let r = std::panic::catch_unwind(std::panic::AssertUnwindSafe(|| match ts[0] {
                    "tx" => s.exec_tx(&ts),
                    "ub" => s.exec_ub(&ts),
                    "restart" => s.exec_restart(ctx),
                    _ => s.exec_nb(&ts, ctx),
                }));
                if let Err(e) = r {
                    let msg = e.downcast_ref::<String>().cloned().or_else(|| e.downcast_ref::<&str>().map(|s| s.to_string())).unwrap_or_default();
                    eprintln!("C06 node: malformed scenario or harness failure on `{}`: {}", l, msg);
                    s.cleanup();
                    std::process::exit(3);
                }
            }
            // model lines of a recorded case are regenerated, not replayed
            "trunc" | "blk" | "reward" | "occupied" | "verify" | "fee" | "dao" | "daoverify" => {}
            other => {
                eprintln!("C06 node: malformed op {other}");
                std::process::exit(3);
            }
        }
    }
    if let Some(s) = scn {
        let (flips, cbs) = (s.flips, s.cellbase_spends);
        s.finish(ctx);
        *ctx.out.hist.entry("dao-bit-flips-submitted".into()).or_insert(0) += flips;
        *ctx.out.hist.entry("tx-inputs-spending-a-cellbase-output".into()).or_insert(0) += cbs;
    }
}

pub fn run(opts: &Opts) {
    let mut out = Out::new(&opts.out);
    let mut model = Model::spawn();
    {
        let mut ctx = Ctx { out: &mut out, model: &mut model, rng: Rng::new(opts.seed ^ 0x6e6f6465), thorough: opts.thorough() };
        if let Some(path) = &opts.replay {
            let lines: Vec<String> = read_replay_ops(path).into_iter().filter(|l| !l.starts_with("case ")).collect();
            // a file may hold several scenarios: each starts with its `node` line
            let mut cur: Vec<String> = vec![];
            let mut k = 0;
            for l in lines {
                if l.starts_with("node ") && !cur.is_empty() {
                    k += 1;
                    run_scenario(&cur, &format!("replay-{}", k), opts, &mut ctx);
                    cur.clear();
                }
                cur.push(l);
            }
            if !cur.is_empty() {
                k += 1;
                run_scenario(&cur, &format!("replay-{}", k), opts, &mut ctx);
            }
        } else {
            let mut rng = Rng::new(opts.seed);
            let cases = (if opts.thorough() { 700 } else { 90 }) * opts.scale.max(1);
            for _ in 0..cases {
                let lines = gen_scenario(&mut rng, opts.thorough());
                run_scenario(&lines, "node", opts, &mut ctx);
            }
        }
    }
    out.extra.insert("model_answers_used_interactively".into(), model.asked.into());
    model.stop();
    out.finish("a case (one node scenario) is non-trivial when more than two model-valued blocks were accepted by the real node; distinctness is by the hash of the implementation's answer sequence");
}
