//! C06, stream `node`: `RewardVerifier` / `DaoHeaderVerifier` driven END TO END through a real node,
//! with the consensus values inside the blocks computed by the LEAN MODEL.
//!
//! The harness talks to `ckbmodel_c06 node-serve` (a child process, one answer per line, flushed)
//! while it builds the chain, and writes the very same op lines plus the IMPLEMENTATION's answers to
//! ops.txt / impl.txt, so that bin/check's offline run of `ckbmodel_c06 node < ops.txt` reproduces the
//! model side and diffs it with impl.txt.
//!
//! ## scenario lines (what to build; the model answers `ok`; `--replay` executes exactly these)
//! ```text
//! node <close> <far> <numer> <denom> <ser> <epoch_len> <genesis_cells>
//!        new consensus (proposal window, proposer ratio, secondary epoch reward, epoch length), a
//!        fresh real node (chain service, full verification) and a fresh ChainBuilder
//! tx <label> <inputs> <n_out> <fee>
//!        always-success transaction `spend_tx(inputs, n_out, fee, salt = label)`;
//!        input = g<i> genesis cell i | t<label>.<k> output k of tx <label> | c<blk> cellbase output of block <blk>
//! ub <label> <of> <dt> <props>
//!        uncle candidate: sibling of block <of> (same parent/number/body, timestamp + dt, proposals = props)
//! nb <label> <parent> <salt> <txs> <props> <uncles>
//!        next block on <parent> (block labels; 0 = genesis) committing <txs>, proposing <props>, embedding <uncles>
//! restart
//!        stop the chain service, drop the node, open the same directory again (ext rows / cells persist)
//!
//! LINEAR scenarios (every block extends the node's tip; no ChainBuilder: epoch, compact target and
//! chain root come from the node's own store, the cellbase and the dao bytes from the model):
//! node <close> <far> <numer> <denom> <ser> <epoch_len> <genesis_cells> <primary epoch reward> [dao]
//!        own consensus with that `initial_primary_epoch_reward` (tiny values put finalised rewards
//!        below / at / above the occupied capacity of the reward cell: RewardVerifier's "insufficient
//!        reward to create a cell" case); `dao`: the genesis also carries the bundled NervosDAO
//!        binary (ckb-system-scripts, `Resource::bundled("specs/cells/dao")`) as a type-script code
//!        cell and `consensus.dao_type_hash` is that type script's hash
//! nb <label> <parent> <salt> <txs> <props> <uncles> <lock>
//!        <lock> = <kind><args len>.<id>: the miner lock in the cellbase WITNESS of this block
//!        (kind a = always-success code hash, x = a code hash of its own; args derived from the id)
//! dtx <label> dep <input> <capacity> <fee> | dtx <label> prep <dep tx> <fee input> <fee> | dtx <label> wd <prep tx> <fee>
//!        NervosDAO deposit / phase 1 / phase 2 (see `exec_dtx`); the phase-2 output is the MODEL's
//!        maximum withdraw − fee; a sibling paying 1 shannon more is proposed along and submitted
//!        in a variant block, which must be rejected
//! ```
//! Model lines of a linear `nb`: `reward`, then
//! ```text
//! cellbase <parent number>     model: the cellbase the block must carry: `none` | `out <capacity> <lock id>`
//!                              (reward of the target, the target's witness lock from the model's lock
//!                              table, occupied capacity, expectedCellbase); impl: the repo's
//!                              RewardCalculator (amount, lock) + `is_lack_of_capacity`
//! cbverify <p> <total> <lockOcc> <outs>   model: CellbaseVerifier's output count + RewardVerifier; impl:
//!                              the NODE's verdict on a variant block (ok | err-quantity | err-amount | err-target)
//! lock <n> <lock id> <args len>  the witness lock of block n joins the model's lock table          -> ok
//! withdraw <cell> <dn> <dar> <wn> <war>   (dtx wd) model: calculate_maximum_withdraw; impl: the repo's
//! ```
//! ## model lines emitted while executing one `nb` (all ops of the `arith`/`chain` streams + 2 new)
//! ```text
//! trunc <n> / blk …            bring the model's abstract chain to the parent's branch      -> ok
//! reward <parent number>       model: block_reward_to_finalize on the abstract chain; impl: the
//!                              repo's RewardCalculator on the node's store (tip) / the builder's
//!                              branch store (fork parents)
//! occupied 0:<lock args>:n:0   lockOcc of RewardVerifier's `is_lack_of_capacity(0)`
//! verify <p> <total> <lockOcc> <outs>   model: RewardVerifier's three-way case; impl: the NODE's
//!                              verdict on the block carrying that cellbase (ok | err-amount | err-target)
//! fee <tx>                     model: transaction_fee; impl: get_block_ext(hash).txs_fees[i] of the node
//! dao …                        model: dao_field_with_current_epoch; impl: the repo's DaoCalculator
//!                              (what ChainBuilder put into its block)
//! daoverify <hex>              model: header.dao == last dao answer; impl: the NODE's verdict on the
//!                              block carrying that dao (ok | err-dao)
//! blk <n> …                    the accepted block joins the abstract chain (fees, dao: the model's) -> ok
//! ```
//! The submitted block is ChainBuilder's block (epoch, target, chain-root extension, tx roots) with
//! the cellbase output capacity / presence and the 32 dao bytes REPLACED by the model's answers and
//! rebuilt through `BlockBuilder` (roots recomputed).  Variants (cellbase ±1 shannon, wrong lock,
//! output missing / present against the rule, single dao bit flips) are submitted BEFORE the
//! model-valued block (a sibling of the tip is stored without contextual verification).
//!
//! `--replay FILE` executes the scenario lines of the file literally (model lines of a recorded case
//! are regenerated; the choice of variants is seeded by the scenario lines, so a recorded case
//! replays to the same blocks, the same op lines and the same answers).
//!
//! Oracles (independent of the model, u128 arithmetic on what the node stores): the model-valued
//! block is accepted and becomes the tip; every variant is rejected; `txs_fees[i]` = inputs − outputs;
//! cellbase capacity = primary + floor(g2*U/C of the target's parent) + committer shares of the target's
//! fees + proposer shares ("earliest proposer in the window"; class `block1-proposer-share-unpaid` for
//! the recorded block-1 exception only); the cellbase lock is the target's; C' = C + g + g2,
//! AR' = AR + floor(AR*g2/C), S' = S + g2 − floor(g2*U/C), U' = U + added − freed against the stored parent
//! header; U(tip) = sum of occupied capacity over the node's COLUMN_CELL
//! (`u-not-occupied-capacity-of-live-set`; holds with equality from genesis on).
use crate::common::*;
use crate::node::*;
use ckb_chain_spec::consensus::{Consensus, ConsensusBuilder, ProposalWindow, build_genesis_epoch_ext};
use ckb_dao::DaoCalculator;
use ckb_dao_utils::{extract_dao_data, genesis_dao_data, pack_dao_data};
use ckb_db_schema::COLUMN_CELL;
use ckb_merkle_mountain_range::leaf_index_to_mmr_size;
use ckb_reward_calculator::RewardCalculator;
use ckb_store::{ChainDB, ChainStore};
use ckb_test_chain_utils::{always_success_cell, create_always_success_tx};
use ckb_types::core::cell::{BlockCellProvider, OverlayCellProvider, ResolvedTransaction, resolve_transaction};
use ckb_types::core::{
    BlockBuilder, BlockView, Capacity, DepType, EpochExt, EpochNumberWithFraction, HeaderView, Ratio, ScriptHashType,
    TransactionBuilder, TransactionView, capacity_bytes,
};
use ckb_types::packed::{self, Byte32, CellDep, CellInput, CellOutput, OutPoint, ProposalShortId, Script};
use ckb_types::prelude::*;
use ckb_types::utilities::DIFF_TWO;
use ckb_types::utilities::merkle_mountain_range::ChainRootMMR;
use std::collections::{HashMap, HashSet};
use std::sync::Arc;
use std::io::{BufRead, BufReader, Write};
use std::path::PathBuf;
use std::process::{Child, ChildStdin, ChildStdout, Command, Stdio};

// ------------------------------------------------------------------------------------ model process

struct Model {
    child: Child,
    stdin: ChildStdin,
    stdout: BufReader<ChildStdout>,
    asked: u64,
}

impl Model {
    fn spawn() -> Model {
        let exe = std::env::var("VERIF_MODEL_C06").unwrap_or_else(|_| "/verif/lean/.lake/build/bin/ckbmodel_c06".to_string());
        let mut child = Command::new(&exe)
            .arg("node-serve")
            .stdin(Stdio::piped())
            .stdout(Stdio::piped())
            .stderr(Stdio::inherit())
            .spawn()
            .unwrap_or_else(|e| panic!("cannot start the model executable {exe}: {e} (run `lake build ckbmodel_c06`)"));
        let stdin = child.stdin.take().unwrap();
        let stdout = BufReader::new(child.stdout.take().unwrap());
        Model { child, stdin, stdout, asked: 0 }
    }
    fn ask(&mut self, line: &str) -> String {
        self.asked += 1;
        writeln!(self.stdin, "{}", line).expect("write to model");
        self.stdin.flush().expect("flush to model");
        let mut a = String::new();
        let n = self.stdout.read_line(&mut a).expect("read from model");
        assert!(n > 0, "model process closed its output after: {line}");
        a.trim_end_matches('\n').to_string()
    }
    fn stop(mut self) {
        drop(self.stdin);
        let _ = self.child.wait();
    }
}

// ------------------------------------------------------------------------------------------ records

#[derive(Clone, Debug, PartialEq, Eq, Hash)]
enum CellRef {
    G(usize),
    T(u64, u32),
    C(u64),
}

fn parse_cellref(s: &str) -> CellRef {
    if let Some(r) = s.strip_prefix('g') {
        CellRef::G(r.parse().expect("genesis cell index"))
    } else if let Some(r) = s.strip_prefix('t') {
        let (a, b) = r.split_once('.').expect("t<label>.<k>");
        CellRef::T(a.parse().expect("tx label"), b.parse().expect("output index"))
    } else if let Some(r) = s.strip_prefix('c') {
        CellRef::C(r.parse().expect("block label"))
    } else {
        panic!("malformed cell reference {s}")
    }
}

fn fmt_cellref(c: &CellRef) -> String {
    match c {
        CellRef::G(i) => format!("g{}", i),
        CellRef::T(l, k) => format!("t{}.{}", l, k),
        CellRef::C(b) => format!("c{}", b),
    }
}

struct TxRec {
    tx: TransactionView,
    in_caps: Vec<u64>,
    in_cells: Vec<(CellOutput, u64)>,
    /// NervosDAO phase-2 inputs: input index -> (deposit block label, withdrawing block label)
    dao_in: HashMap<usize, (u64, u64)>,
    /// `+1 shannon` sibling of a NervosDAO phase-2 transaction (same inputs; must be rejected)
    sibling: Option<TransactionView>,
    /// malformed variants of a NervosDAO phase-2 transaction (same input; witness / header deps off):
    /// (kind, the model's `rfee` op line for it, the transaction). A block carrying one is rejected by
    /// `DaoHeaderVerifier` with the `DaoError` class the model answers for that line.
    malformed: Vec<(String, String, TransactionView)>,
}

struct BlkRec {
    label: u64,
    parent: u64,
    number: u64,
    block: BlockView,
    /// own proposals / the uncles' proposals / committed ids, as tx labels
    props: Vec<u64>,
    uprops: Vec<u64>,
    ids: Vec<u64>,
    /// the `blk` line of the model's abstract chain (fees and dao are the model's answers)
    blk_line: String,
    /// the `lock` line that follows it (linear scenarios: the cellbase witness lock of this block)
    lock_line: Option<String>,
    /// indices into the case's line buffer whose implementation answer is the node's verdict on
    /// this block / its ext row, still to be filled when the block was only stored (side branch)
    pend_verdict: Vec<usize>,
    pend_fee: Vec<usize>,
    compared: bool,
}

struct Line {
    op: String,
    model: String,
    imp: Option<String>,
}

fn nums(s: &str) -> Vec<u64> {
    if s == "-" { vec![] } else { s.split(',').map(|x| x.parse().expect("number")).collect() }
}

fn fmt_nums(xs: &[u64]) -> String {
    if xs.is_empty() { "-".into() } else { xs.iter().map(|x| x.to_string()).collect::<Vec<_>>().join(",") }
}

fn cell_str(o: &CellOutput, data_len: u64) -> String {
    let cap: Capacity = o.capacity().unpack();
    let ta = o.type_().to_opt().map(|t| t.args().raw_data().len().to_string()).unwrap_or_else(|| "n".into());
    format!("{}:{}:{}:{}", cap.as_u64(), o.lock().args().raw_data().len(), ta, data_len)
}

fn occ128(o: &CellOutput, data_len: u64) -> u128 {
    const BS: u128 = 100_000_000;
    let t = o.type_().to_opt().map(|t| (t.args().raw_data().len() as u128 + 33) * BS).unwrap_or(0);
    (8 + data_len as u128) * BS + (o.lock().args().raw_data().len() as u128 + 33) * BS + t
}

fn cap_of(o: &CellOutput) -> u64 {
    let c: Capacity = o.capacity().unpack();
    c.as_u64()
}

fn witness_lock(b: &BlockView) -> Script {
    packed::CellbaseWitness::from_slice(&b.transactions()[0].witnesses().get(0).unwrap().raw_data()).expect("cellbase witness").lock()
}

fn verdict(r: &Result<bool, String>) -> String {
    match r {
        Ok(true) => "ok".into(),
        Ok(false) => "known".into(),
        Err(e) if e.contains("InvalidRewardAmount") => "err-amount".into(),
        Err(e) if e.contains("InvalidRewardTarget") => "err-target".into(),
        Err(e) if e.contains("InvalidDAO") => "err-dao".into(),
        Err(e) if e.contains("InvalidOutputQuantity") => "err-quantity".into(),
        Err(_) => "err-other".into(),
    }
}

fn dao_tuple(d: &Byte32) -> (u64, u64, u64, u64) {
    let (ar, c, s, u) = extract_dao_data(d.clone());
    (ar, c.as_u64(), s.as_u64(), u.as_u64())
}

fn epoch_tuple(e: &EpochExt) -> (u64, u64, u64, u64) {
    (e.start_number(), e.length(), e.base_block_reward().as_u64(), e.remainder_reward().as_u64())
}

/// spec reading of an epoch's per-block primary reward / secondary issuance (oracle only)
fn spec_g((start, _len, base, rem): (u64, u64, u64, u64), n: u64) -> u128 {
    base as u128 + if n >= start && (n as u128) < start as u128 + rem as u128 { 1 } else { 0 }
}
fn spec_g2((start, len, _b, _r): (u64, u64, u64, u64), ser: u64, n: u64) -> u128 {
    let r = (ser % len) as u128;
    (ser / len) as u128 + if n >= start && (n as u128) < start as u128 + r { 1 } else { 0 }
}

/// HeaderChecker over the node's main chain
struct TipHeaders<'a> {
    db: &'a ChainDB,
}

impl ckb_types::core::cell::HeaderChecker for TipHeaders<'_> {
    fn check_valid(&self, block_hash: &Byte32) -> Result<(), ckb_types::core::error::OutPointError> {
        match self.db.get_block_number(block_hash) {
            Some(n) if self.db.get_block_hash(n).as_ref() == Some(block_hash) => Ok(()),
            _ => Err(ckb_types::core::error::OutPointError::InvalidHeader(block_hash.clone())),
        }
    }
}

#[derive(Clone, Debug)]
struct ScnCfg {
    close: u64,
    far: u64,
    numer: u64,
    denom: u64,
    ser: u64,
    epoch_len: u64,
    genesis_cells: u64,
    /// `Some(primary epoch reward)`: a LINEAR scenario (own consensus, no ChainBuilder, per-block
    /// miner locks, every block extends the node's tip)
    per: Option<u64>,
    /// linear scenario whose genesis carries the bundled NervosDAO script as a type-script code cell
    dao: bool,
}

// ----------------------------------------------------------------------------------------- scenario

struct Scn {
    cfg: ScnCfg,
    consensus: Consensus,
    node: Option<Node>,
    builder: ChainBuilder,
    base: PathBuf,
    gcells: Vec<(OutPoint, u64)>,
    /// out point -> (output, data length) of every cell the scenario may spend
    cells: HashMap<OutPoint, (CellOutput, u64)>,
    txs: HashMap<u64, TxRec>,
    short: HashMap<ProposalShortId, u64>,
    blocks: HashMap<u64, BlkRec>,
    uncles: HashMap<u64, (BlockView, Vec<u64>)>,
    /// labels of the blocks in the model's abstract chain (index = number)
    model_chain: Vec<u64>,
    lines: Vec<Line>,
    flips: u64,
    cellbase_spends: u64,
    all_bits_done: bool,
    dead: bool,
    /// linear scenarios: the distinct cellbase witness locks, lock id = index (0 = the
    /// always-success lock without args, which is also the genesis witness lock)
    lock_scripts: Vec<Script>,
    /// tx label -> label of the block that committed it
    committed_in: HashMap<u64, u64>,
    /// NervosDAO: cell dep of the code cell and the type script of NervosDAO cells
    dao_dep: Option<CellDep>,
    dao_type: Option<Script>,
}

/// The consensus of a linear scenario: `make_consensus` (hnode/src/node.rs) with a chosen primary
/// epoch reward and, optionally, one more genesis transaction carrying the bundled NervosDAO
/// binary (`ckb_resource`: `specs/cells/dao`, from ckb-system-scripts) as a code cell with a type
/// script; `dao_type_hash` is that type script's hash (as `ConsensusBuilder::build` derives it
/// from output 2 of the genesis cellbase on the public chains).
fn make_linear_consensus(cfg: &ScnCfg) -> (Consensus, Option<(CellDep, Script)>) {
    let (_, _, always_success_script) = always_success_cell();
    let tx = create_always_success_tx();
    let mut transactions: Vec<TransactionView> = (0..cfg.genesis_cells)
        .map(|i| {
            let data = ckb_types::bytes::Bytes::from(i.to_le_bytes().to_vec());
            TransactionBuilder::default()
                .input(CellInput::new(OutPoint::null(), 0))
                .output(CellOutput::new_builder().capacity(capacity_bytes!(50_000)).lock(always_success_script.clone()).build())
                .output_data(data)
                .build()
        })
        .collect();
    let mut dao = None;
    if cfg.dao {
        let bin = ckb_resource::Resource::bundled("specs/cells/dao".to_string()).get().expect("bundled NervosDAO binary (ckb-system-scripts)");
        let data = ckb_types::bytes::Bytes::from(bin.into_owned());
        let code_type = Script::new_builder()
            .code_hash(ckb_chain_spec::consensus::TYPE_ID_CODE_HASH.pack())
            .hash_type(ScriptHashType::Type)
            .args(ckb_types::bytes::Bytes::from(b"verif-c06-nervos-dao-code-cell!!".to_vec()).pack())
            .build();
        let out = CellOutput::new_builder().lock(always_success_script.clone()).type_(Some(code_type.clone()).pack()).build();
        let cap = out.occupied_capacity(Capacity::bytes(data.len()).unwrap()).unwrap();
        let code_tx = TransactionBuilder::default()
            .input(CellInput::new(OutPoint::null(), 0))
            .output(out.as_builder().capacity(cap).build())
            .output_data(data)
            .build();
        let dep = CellDep::new_builder().out_point(OutPoint::new(code_tx.hash(), 0)).dep_type(DepType::Code).build();
        let dao_type = Script::new_builder().code_hash(code_type.calc_script_hash()).hash_type(ScriptHashType::Type).build();
        transactions.push(code_tx);
        dao = Some((dep, dao_type));
    }
    let mut all: Vec<&TransactionView> = vec![&tx];
    all.extend(transactions.iter());
    let gdao = genesis_dao_data(all).unwrap();
    let genesis_block = BlockBuilder::default()
        .dao(gdao)
        .compact_target(DIFF_TWO)
        .epoch(EpochNumberWithFraction::new_unchecked(0, 0, 0))
        .transaction(tx)
        .transactions(transactions)
        .build();
    let epoch_reward = Capacity::shannons(cfg.per.expect("linear scenario"));
    let duration_target = 8 * cfg.epoch_len;
    let genesis_epoch_ext = build_genesis_epoch_ext(epoch_reward, DIFF_TWO, cfg.epoch_len, duration_target, (1, 40));
    let mut consensus = ConsensusBuilder::new(genesis_block, genesis_epoch_ext)
        .initial_primary_epoch_reward(epoch_reward)
        .epoch_duration_target(duration_target)
        .permanent_difficulty_in_dummy(true)
        .tx_proposal_window(ProposalWindow(cfg.close, cfg.far))
        .cellbase_maturity(EpochNumberWithFraction::new(0, 0, 1))
        .build();
    if let Some((_, t)) = &dao {
        consensus.dao_type_hash = t.code_hash();
    }
    (consensus, dao)
}

/// `<kind><args length>.<id>`: kind `a` = the always-success code hash (spendable), `x` = another
/// code hash derived from the id (never spent); the args are `<args length>` bytes derived from the id
fn lock_from_spec(spec: &str) -> Script {
    let (kind, rest) = spec.split_at(1);
    let (l, id) = rest.split_once('.').expect("malformed lock spec: <kind><len>.<id>");
    let l: usize = l.parse().expect("malformed lock spec: args length");
    let id: u64 = id.parse().expect("malformed lock spec: id");
    let mut x = id.wrapping_mul(0x9e3779b97f4a7c15) ^ 0xc06c06c06;
    let mut next = || {
        x ^= x << 13;
        x ^= x >> 7;
        x ^= x << 17;
        (x >> 24) as u8
    };
    let (_, _, always_success_script) = always_success_cell();
    match kind {
        "a" => {
            let args: Vec<u8> = (0..l).map(|_| next()).collect();
            always_success_script.clone().as_builder().args(ckb_types::bytes::Bytes::from(args).pack()).build()
        }
        "x" => {
            let ch: Vec<u8> = (0..32).map(|_| next()).collect();
            let args: Vec<u8> = (0..l).map(|_| next()).collect();
            Script::new_builder().code_hash(Byte32::from_slice(&ch).unwrap()).hash_type(ScriptHashType::Data).args(ckb_types::bytes::Bytes::from(args).pack()).build()
        }
        _ => panic!("malformed lock spec kind {kind}"),
    }
}

struct Ctx<'a> {
    out: &'a mut Out,
    model: &'a mut Model,
    rng: Rng,
    thorough: bool,
}

impl Scn {
    fn start(cfg: ScnCfg, opts_out: &std::path::Path, ctx: &mut Ctx, node_line: &str) -> Scn {
        let base = scratch_dir(opts_out, "c06node");
        let ncfg = NodeCfg { epoch_len: cfg.epoch_len, window: (cfg.close, cfg.far), genesis_cells: cfg.genesis_cells, maturity_epochs: 0, with_pool: false, tx_pool: None };
        let (mut consensus, dao) = if cfg.per.is_some() { make_linear_consensus(&cfg) } else { (make_consensus(&ncfg), None) };
        consensus.proposer_reward_ratio = Ratio::new(cfg.numer, cfg.denom);
        consensus.secondary_epoch_reward = Capacity::shannons(cfg.ser);
        let node = Node::start(&base.join("node"), consensus.clone(), &ncfg);
        let builder = ChainBuilder::new(consensus.clone(), &base.join("builder"));
        let mut gcells = genesis_cells(&consensus);
        gcells.truncate(cfg.genesis_cells as usize);
        let mut cells = HashMap::new();
        let g = consensus.genesis_block().clone();
        for tx in g.transactions().iter() {
            for (i, (o, d)) in tx.outputs_with_data_iter().enumerate() {
                cells.insert(OutPoint::new(tx.hash(), i as u32), (o, d.len() as u64));
            }
        }
        let mut s = Scn {
            cfg,
            consensus,
            node: Some(node),
            builder,
            base,
            gcells,
            cells,
            txs: HashMap::new(),
            short: HashMap::new(),
            blocks: HashMap::new(),
            uncles: HashMap::new(),
            model_chain: vec![],
            lines: vec![],
            flips: 0,
            cellbase_spends: 0,
            all_bits_done: false,
            dead: false,
            lock_scripts: vec![always_success_cell().2.clone()],
            committed_in: HashMap::new(),
            dao_dep: dao.as_ref().map(|d| d.0.clone()),
            dao_type: dao.map(|d| d.1),
        };
        s.say(ctx, node_line, Some("ok".into()));
        // genesis joins the abstract chain
        let ge = epoch_tuple(s.consensus.genesis_epoch_ext());
        let gd = dao_tuple(&g.header().dao());
        let blk_line = format!("blk 0 - - - - {} {} {} {} {} {} {} {}", ge.0, ge.1, ge.2, ge.3, gd.0, gd.1, gd.2, gd.3);
        s.say(ctx, &blk_line, Some("ok".into()));
        s.model_chain.push(0);
        s.blocks.insert(0, BlkRec { label: 0, parent: 0, number: 0, block: g.clone(), props: vec![], uprops: vec![], ids: vec![], blk_line, lock_line: None, pend_verdict: vec![], pend_fee: vec![], compared: true });
        // the statement that holds at genesis: U(genesis) = occupied capacity of the genesis live set
        let live = s.live_occupied();
        if live != gd.3 as u128 {
            ctx.out.oracle_fail("u-not-occupied-capacity-of-live-set", &format!("genesis U={} live-set={}", gd.3, live));
        }
        s
    }

    fn node(&self) -> &Node {
        self.node.as_ref().expect("node running")
    }

    /// `restart`: stop the chain service, drop the node, open the same directory again
    fn exec_restart(&mut self, ctx: &mut Ctx) {
        let tip = self.node().tip_hash();
        let dir = self.node().dir.clone();
        let ncfg = NodeCfg { epoch_len: self.cfg.epoch_len, window: (self.cfg.close, self.cfg.far), genesis_cells: self.cfg.genesis_cells, maturity_epochs: 0, with_pool: false, tx_pool: None };
        self.node.take().unwrap().stop();
        self.node = Some(Node::start(&dir, self.consensus.clone(), &ncfg));
        assert!(self.node().tip_hash() == tip, "tip changed over a restart");
        ctx.out.count("node-restarts");
    }

    /// one line to the model; returns the index in the line buffer
    fn say(&mut self, ctx: &mut Ctx, op: &str, imp: Option<String>) -> usize {
        let a = ctx.model.ask(op);
        self.lines.push(Line { op: op.to_string(), model: a, imp });
        self.lines.len() - 1
    }

    fn model_of(&self, i: usize) -> &str {
        &self.lines[i].model
    }

    /// Σ occupied capacity over the node's COLUMN_CELL (the live-cell set of the main chain)
    fn live_occupied(&self) -> u128 {
        let mut sum: u128 = 0;
        let store: &ChainDB = self.node().store();
        store
            .db()
            .full_traverse(COLUMN_CELL, &mut |_k: &[u8], v: &[u8]| {
                let e = packed::CellEntryReader::from_slice_should_be_ok(v);
                let output = e.output().to_entity();
                let data_size: u64 = e.data_size().to_entity().unpack();
                let occ = Capacity::bytes(data_size as usize).and_then(|c| output.occupied_capacity(c)).expect("occupied capacity of a live cell");
                sum += occ.as_u64() as u128;
                Ok(())
            })
            .expect("traverse COLUMN_CELL");
        sum
    }

    fn path_labels(&self, label: u64) -> Vec<u64> {
        let mut v = vec![];
        let mut l = label;
        loop {
            v.push(l);
            if l == 0 {
                break;
            }
            l = self.blocks.get(&l).expect("known block label").parent;
        }
        v.reverse();
        v
    }

    fn exec_tx(&mut self, ts: &[&str]) {
        assert!(ts.len() == 5, "malformed tx line");
        let label: u64 = ts[1].parse().expect("tx label");
        assert!(!self.txs.contains_key(&label), "malformed: duplicate tx label");
        let refs: Vec<CellRef> = ts[2].split(',').map(parse_cellref).collect();
        let n_out: usize = ts[3].parse().expect("n_out");
        let fee: u64 = ts[4].parse().expect("fee");
        assert!(n_out >= 1, "malformed: n_out");
        let mut inputs = vec![];
        for r in &refs {
            let op = match r {
                CellRef::G(i) => self.gcells.get(*i).expect("malformed: genesis cell index").0.clone(),
                CellRef::T(l, k) => OutPoint::new(self.txs.get(l).expect("malformed: unknown tx label").tx.hash(), *k),
                CellRef::C(b) => {
                    self.cellbase_spends += 1;
                    let blk = &self.blocks.get(b).expect("malformed: unknown block label").block;
                    OutPoint::new(blk.transactions()[0].hash(), 0)
                }
            };
            let (o, _) = self.cells.get(&op).expect("malformed: input cell does not exist");
            inputs.push((op, cap_of(o)));
        }
        let total: u128 = inputs.iter().map(|x| x.1 as u128).sum();
        assert!(total >= fee as u128 + 49 * 100_000_000 * n_out as u128, "malformed: fee/outputs exceed the inputs");
        let tx = spend_tx(&inputs, n_out, fee, label);
        for (i, (o, d)) in tx.outputs_with_data_iter().enumerate() {
            self.cells.insert(OutPoint::new(tx.hash(), i as u32), (o, d.len() as u64));
        }
        let in_cells = inputs.iter().map(|(op, _)| self.cells.get(op).unwrap().clone()).collect();
        self.short.insert(tx.proposal_short_id(), label);
        self.txs.insert(label, TxRec { tx, in_caps: inputs.iter().map(|x| x.1).collect(), in_cells, dao_in: HashMap::new(), sibling: None, malformed: vec![] });
    }

    fn exec_ub(&mut self, ts: &[&str]) {
        assert!(ts.len() == 5, "malformed ub line");
        let label: u64 = ts[1].parse().expect("label");
        let of: u64 = ts[2].parse().expect("label");
        let dt: u64 = ts[3].parse().expect("dt");
        let props = nums(ts[4]);
        let b = &self.blocks.get(&of).expect("malformed: unknown block label").block;
        assert!(b.number() >= 1 && dt >= 1, "malformed uncle");
        let pids: Vec<ProposalShortId> = props.iter().map(|l| self.txs.get(l).expect("malformed: unknown tx label").tx.proposal_short_id()).collect();
        let u = b.as_advanced_builder().timestamp(b.timestamp() + dt).set_proposals(pids).set_uncles(vec![]).build();
        self.uncles.insert(label, (u, props));
    }

    /// NervosDAO transactions (scenarios whose genesis carries the DAO code cell):
    /// ```text
    /// dtx <label> dep <input> <capacity> <fee>    deposit: output 0 = NervosDAO cell (8 zero bytes), output 1 = change
    /// dtx <label> prep <dep tx> <fee input> <fee> phase 1: input 0 = the deposit cell, output 0 = the withdrawing
    ///                                             cell (data = deposit block number), header dep = deposit block
    /// dtx <label> wd <prep tx> <fee>              phase 2: input 0 = the withdrawing cell (since = deposit epoch +
    ///                                             180k epochs), output 0 = MODEL's maximum withdraw − fee;
    ///                                             a sibling paying 1 shannon more than the maximum is kept
    /// ```
    fn exec_dtx(&mut self, ts: &[&str], ctx: &mut Ctx) {
        assert!(ts.len() >= 3, "malformed dtx line");
        let label: u64 = ts[1].parse().expect("tx label");
        assert!(!self.txs.contains_key(&label), "malformed: duplicate tx label");
        let dao_dep = self.dao_dep.clone().expect("malformed: dtx in a scenario without the NervosDAO cell");
        let dao_type = self.dao_type.clone().unwrap();
        let (_, _, lock) = always_success_cell();
        let lock = lock.clone();
        let salt_data = ckb_types::bytes::Bytes::from(label.to_le_bytes().to_vec());
        let resolve_ref = |s: &Scn, r: &CellRef| -> OutPoint {
            match r {
                CellRef::G(i) => s.gcells.get(*i).expect("malformed: genesis cell index").0.clone(),
                CellRef::T(l, k) => OutPoint::new(s.txs.get(l).expect("malformed: unknown tx label").tx.hash(), *k),
                CellRef::C(b) => OutPoint::new(s.blocks.get(b).expect("malformed: unknown block label").block.transactions()[0].hash(), 0),
            }
        };
        let base = TransactionBuilder::default().cell_dep(always_success_dep()).cell_dep(dao_dep);
        let mut dao_in = HashMap::new();
        let mut sibling = None;
        let mut malformed: Vec<(String, String, TransactionView)> = vec![];
        let (tx, in_ops): (TransactionView, Vec<OutPoint>) = match ts[2] {
            "dep" => {
                assert!(ts.len() == 6, "malformed dtx dep line");
                let op = resolve_ref(self, &parse_cellref(ts[3]));
                let cap: u64 = ts[4].parse().expect("capacity");
                let fee: u64 = ts[5].parse().expect("fee");
                let in_cap = cap_of(&self.cells.get(&op).expect("malformed: input cell does not exist").0);
                assert!(in_cap >= cap + fee + 49 * 100_000_000, "malformed: deposit exceeds the input");
                let tx = base
                    .input(CellInput::new(op.clone(), 0))
                    .output(CellOutput::new_builder().capacity(Capacity::shannons(cap)).lock(lock.clone()).type_(Some(dao_type).pack()).build())
                    .output_data(ckb_types::bytes::Bytes::from(vec![0u8; 8]))
                    .output(CellOutput::new_builder().capacity(Capacity::shannons(in_cap - cap - fee)).lock(lock.clone()).build())
                    .output_data(salt_data)
                    .build();
                (tx, vec![op])
            }
            "prep" => {
                assert!(ts.len() == 6, "malformed dtx prep line");
                let dep: u64 = ts[3].parse().expect("tx label");
                let fop = resolve_ref(self, &parse_cellref(ts[4]));
                let fee: u64 = ts[5].parse().expect("fee");
                let dop = OutPoint::new(self.txs.get(&dep).expect("malformed: unknown deposit tx").tx.hash(), 0);
                let (dcell, _) = self.cells.get(&dop).expect("deposit cell").clone();
                let dblk = &self.blocks[self.committed_in.get(&dep).expect("malformed: the deposit is not committed yet")].block;
                let f_cap = cap_of(&self.cells.get(&fop).expect("malformed: input cell does not exist").0);
                assert!(f_cap >= fee + 49 * 100_000_000, "malformed: fee exceeds the input");
                let tx = base
                    .header_dep(dblk.hash())
                    .input(CellInput::new(dop.clone(), 0))
                    .input(CellInput::new(fop.clone(), 0))
                    .output(dcell)
                    .output_data(ckb_types::bytes::Bytes::from(dblk.number().to_le_bytes().to_vec()))
                    .output(CellOutput::new_builder().capacity(Capacity::shannons(f_cap - fee)).lock(lock.clone()).build())
                    .output_data(salt_data)
                    .build();
                (tx, vec![dop, fop])
            }
            "wd" => {
                assert!(ts.len() == 5, "malformed dtx wd line");
                let prep: u64 = ts[3].parse().expect("tx label");
                let fee: u64 = ts[4].parse().expect("fee");
                let ptx = &self.txs.get(&prep).expect("malformed: unknown prepare tx");
                let dep_label = *self.txs.iter().find(|(_, t)| ptx.tx.inputs().get(0).map(|i| i.previous_output().tx_hash()) == Some(t.tx.hash())).expect("deposit of the prepare tx").0;
                let wop = OutPoint::new(ptx.tx.hash(), 0);
                let (wcell, wdata) = self.cells.get(&wop).expect("withdrawing cell").clone();
                let dl = *self.committed_in.get(&dep_label).expect("deposit committed");
                let wl = *self.committed_in.get(&prep).expect("malformed: the prepare tx is not committed yet");
                let (dh, wh) = (self.blocks[&dl].block.header(), self.blocks[&wl].block.header());
                // the model's maximum withdraw (model in the loop) against the repo's calculator
                let impl_max = {
                    let store: &ChainDB = self.node().store();
                    let loader = store.borrow_as_data_loader();
                    match DaoCalculator::new(&self.consensus, &loader).calculate_maximum_withdraw(&wcell, Capacity::bytes(wdata as usize).unwrap(), &dh.hash(), &wh.hash()) {
                        Ok(c) => format!("ok {}", c.as_u64()),
                        Err(e) => format!("err {e:?}"),
                    }
                };
                let wi = self.say(ctx, &format!("withdraw {} {} {} {} {}", cell_str(&wcell, wdata), dh.number(), dao_tuple(&dh.dao()).0, wh.number(), dao_tuple(&wh.dao()).0), Some(impl_max));
                let max: u64 = self.model_of(wi).strip_prefix("ok ").and_then(|v| v.parse().ok()).unwrap_or_else(|| panic!("malformed scenario: the model has no maximum withdraw: {}", self.model_of(wi)));
                assert!(max > fee + 61 * 100_000_000, "malformed: fee exceeds the withdrawal");
                // since: absolute epoch, deposit epoch + ceil(deposited epochs / 180) * 180
                let (de, we) = (dh.epoch(), wh.epoch());
                let mut deposited = we.number() - de.number();
                if we.index() * de.length() > de.index() * we.length() {
                    deposited += 1;
                }
                let lock_epochs = deposited.div_ceil(180) * 180;
                let since = 0x2000_0000_0000_0000u64 | EpochNumberWithFraction::new(de.number() + lock_epochs, de.index(), de.length()).full_value();
                let witness = packed::WitnessArgs::new_builder().input_type(Some(ckb_types::bytes::Bytes::from(0u64.to_le_bytes().to_vec())).pack()).build();
                let mk = |cap: u64| {
                    base.clone()
                        .header_dep(dh.hash())
                        .header_dep(wh.hash())
                        .input(CellInput::new(wop.clone(), since))
                        .witness(witness.as_bytes().pack())
                        .output(CellOutput::new_builder().capacity(Capacity::shannons(cap)).lock(lock.clone()).build())
                        .output_data(salt_data.clone())
                        .build()
                };
                dao_in.insert(0usize, (dl, wl));
                sibling = Some(mk(max + 1));
                // malformed variants: ONE aspect of the witness / the header deps off. Header ids of the
                // model's raw transaction: 1 = deposit header, 2 = withdrawing header.
                {
                    let out_cap = max - fee;
                    let it = |bytes: Vec<u8>| packed::WitnessArgs::new_builder().input_type(Some(ckb_types::bytes::Bytes::from(bytes)).pack()).build().as_bytes();
                    let hdrs = format!("1.{}.{},2.{}.{}", dh.number(), dao_tuple(&dh.dao()).0, wh.number(), dao_tuple(&wh.dao()).0);
                    let rin = format!("{}:11:8.{}:2.{}.1:0", cell_str(&wcell, wdata), dh.number(), wh.number());
                    let rout = format!("{}:{}:n:{}", out_cap, lock.args().raw_data().len(), salt_data.len());
                    let variants: Vec<(&str, ckb_types::bytes::Bytes, String, Vec<Byte32>, &str)> = vec![
                        ("input-type-7-bytes", it(vec![0u8; 7]), "7.0".into(), vec![dh.hash(), wh.hash()], "1,2"),
                        ("input-type-9-bytes", it(vec![0u8; 9]), "9.0".into(), vec![dh.hash(), wh.hash()], "1,2"),
                        ("witness-not-witnessargs", ckb_types::bytes::Bytes::from(vec![1u8, 2, 3]), "m".into(), vec![dh.hash(), wh.hash()], "1,2"),
                        ("witness-without-input-type", packed::WitnessArgs::new_builder().build().as_bytes(), "e".into(), vec![dh.hash(), wh.hash()], "1,2"),
                        ("index-beyond-header-deps", it(2u64.to_le_bytes().to_vec()), "8.2".into(), vec![dh.hash(), wh.hash()], "1,2"),
                        ("index-at-withdrawing-header", it(1u64.to_le_bytes().to_vec()), "8.1".into(), vec![dh.hash(), wh.hash()], "1,2"),
                        ("withdrawing-header-not-a-dep", it(0u64.to_le_bytes().to_vec()), "8.0".into(), vec![dh.hash()], "1"),
                    ];
                    for (kind, wbytes, wstr, deps, dstr) in variants {
                        let tx = base
                            .clone()
                            .header_deps(deps)
                            .input(CellInput::new(wop.clone(), since))
                            .witness(wbytes.pack())
                            .output(CellOutput::new_builder().capacity(Capacity::shannons(out_cap)).lock(lock.clone()).build())
                            .output_data(salt_data.clone())
                            .build();
                        malformed.push((kind.to_string(), format!("rfee {} {}|{}|{}|{}", hdrs, rin, rout, wstr, dstr), tx));
                    }
                }
                ctx.out.count("dao-withdrawals-built-from-the-models-maximum");
                (mk(max - fee), vec![wop])
            }
            other => panic!("malformed dtx kind {other}"),
        };
        for (i, (o, d)) in tx.outputs_with_data_iter().enumerate() {
            self.cells.insert(OutPoint::new(tx.hash(), i as u32), (o, d.len() as u64));
        }
        let in_cells: Vec<(CellOutput, u64)> = in_ops.iter().map(|op| self.cells.get(op).expect("malformed: input cell does not exist").clone()).collect();
        self.short.insert(tx.proposal_short_id(), label);
        self.txs.insert(label, TxRec { tx, in_caps: in_cells.iter().map(|(o, _)| cap_of(o)).collect(), in_cells, dao_in, sibling, malformed });
    }

    fn tx_str(&self, label: u64) -> String {
        let t = &self.txs[&label];
        let ins: Vec<String> = t
            .in_cells
            .iter()
            .enumerate()
            .map(|(i, (o, d))| match t.dao_in.get(&i) {
                Some((dl, wl)) => {
                    let (dh, wh) = (self.blocks[dl].block.header(), self.blocks[wl].block.header());
                    format!("w:{}:{}:{}:{}:{}", cell_str(o, *d), dh.number(), dao_tuple(&dh.dao()).0, wh.number(), dao_tuple(&wh.dao()).0)
                }
                None => format!("p:{}", cell_str(o, *d)),
            })
            .collect();
        let outs: Vec<String> = t.tx.outputs_with_data_iter().map(|(o, d)| cell_str(&o, d.len() as u64)).collect();
        format!("{}|{}", ins.join(","), outs.join(","))
    }

    /// the model's abstract chain follows the branch of block `parent`; returns genesis..=parent
    fn sync_model_chain(&mut self, ctx: &mut Ctx, parent: u64) -> Vec<u64> {
        let path = self.path_labels(parent);
        let mut common = 0;
        while common < path.len() && common < self.model_chain.len() && path[common] == self.model_chain[common] {
            common += 1;
        }
        if common < self.model_chain.len() {
            self.say(ctx, &format!("trunc {}", common), Some("ok".into()));
            self.model_chain.truncate(common);
            ctx.out.count("model-chain-switches-branch");
        }
        for l in path[common..].to_vec() {
            let line = self.blocks[&l].blk_line.clone();
            self.say(ctx, &line, Some("ok".into()));
            if let Some(ll) = self.blocks[&l].lock_line.clone() {
                self.say(ctx, &ll, Some("ok".into()));
            }
            self.model_chain.push(l);
        }
        path
    }

    fn lock_id(&mut self, s: &Script) -> u64 {
        if let Some(i) = self.lock_scripts.iter().position(|x| x == s) {
            return i as u64;
        }
        self.lock_scripts.push(s.clone());
        (self.lock_scripts.len() - 1) as u64
    }

    fn exec_nb(&mut self, ts: &[&str], ctx: &mut Ctx) {
        if self.cfg.per.is_some() {
            return self.exec_nb_linear(ts, ctx);
        }
        assert!(ts.len() == 7 || ts.len() == 8, "malformed nb line");
        let label: u64 = ts[1].parse().expect("label");
        let parent: u64 = ts[2].parse().expect("label");
        let salt: u64 = ts[3].parse().expect("salt");
        let tx_labels = nums(ts[4]);
        let props = nums(ts[5]);
        let uncle_labels = nums(ts[6]);
        // the miner lock of this block (cellbase witness): always-success code hash, args from the spec
        // (`ChainBuilder::miner_args`); blocks of different branches can pay different miners
        let miner_spec = ts.get(7).copied().unwrap_or("a0.0");
        assert!(miner_spec.starts_with('a'), "malformed: a fork scenario's miner lock is an always-success lock (a<len>.<id>)");
        let miner_lock = lock_from_spec(miner_spec);
        let miner_id = self.lock_id(&miner_lock);
        self.builder.miner_args = miner_lock.args().raw_data().to_vec();
        assert!(!self.blocks.contains_key(&label) && label != 0, "malformed: duplicate block label");
        let (p_hash, p_number, p_header) = {
            let p = self.blocks.get(&parent).expect("malformed: unknown parent label");
            (p.block.hash(), p.number, p.block.header())
        };
        let number = p_number + 1;
        let far = self.cfg.far;
        let delay = far + 1;
        let mut uprops: Vec<u64> = vec![];
        let mut uncle_views = vec![];
        for ul in &uncle_labels {
            let (u, ps) = self.uncles.get(ul).expect("malformed: unknown uncle label");
            uprops.extend(ps.iter().copied());
            uncle_views.push(u.as_uncle());
        }
        let spec = BlockSpec {
            txs: tx_labels.iter().map(|l| self.txs.get(l).expect("malformed: unknown tx label").tx.clone()).collect(),
            proposals: props.iter().map(|l| self.txs.get(l).expect("malformed: unknown tx label").tx.proposal_short_id()).collect(),
            uncles: uncle_views,
            salt,
            ..Default::default()
        };
        let on_tip = self.node().tip_hash() == p_hash;
        let heavier = number > self.node().tip().number();

        // ---- implementation side, before the builder's store moves on: epoch of the new block and the
        //      repo's RewardCalculator
        let consensus = self.consensus.clone();
        let (epoch, impl_reward, impl_pay) = {
            let bstore = self.builder.replay_store(&p_hash);
            let epoch = consensus.next_epoch_ext(&p_header, &bstore.borrow_as_data_loader()).expect("epoch of the new block").epoch();
            let store: &ChainDB = if on_tip { self.node.as_ref().unwrap().store() } else { bstore };
            let r = RewardCalculator::new(&consensus, store).block_reward_to_finalize(&p_header);
            let (s, pay) = match r {
                Ok((lock, br)) => (
                    format!(
                        "ok target={} total={} primary={} secondary={} txfee={} proposal={}",
                        number.saturating_sub(delay),
                        br.total.as_u64(),
                        br.primary.as_u64(),
                        br.secondary.as_u64(),
                        br.tx_fee.as_u64(),
                        br.proposal_reward.as_u64()
                    ),
                    Some((lock, br.total)),
                ),
                Err(_) => ("err-overflow".to_string(), None),
            };
            (epoch_tuple(&epoch), s, pay)
        };
        // what the repo's calculator (on the node's store for a tip parent, on the branch store of a
        // fork parent) + `is_lack_of_capacity` say the cellbase has to be: amount and LOCK
        let impl_cb = match &impl_pay {
            Some((lock, total)) => {
                let lack = CellOutput::new_builder().capacity(*total).lock(lock.clone()).build().is_lack_of_capacity(Capacity::zero()).expect("occupied");
                if number <= delay || lack { "none".to_string() } else { format!("out {} {}", total.as_u64(), self.lock_id(lock)) }
            }
            None => "err-overflow".to_string(),
        };
        let built = self.builder.build(&p_hash, &spec);

        // ---- the model's abstract chain follows the parent's branch
        let path = self.sync_model_chain(ctx, parent);

        // ---- reward of the block to finalise: the model's answer decides the cellbase
        let ri = self.say(ctx, &format!("reward {}", p_number), Some(impl_reward));
        let ranswer = self.model_of(ri).to_string();
        let field = |k: &str| -> Option<u64> {
            ranswer.split(' ').find_map(|t| t.strip_prefix(&format!("{}=", k)).and_then(|v| v.parse().ok()))
        };
        let (Some(m_target), Some(m_total)) = (field("target"), field("total")) else {
            eprintln!("C06 node: the model has no reward for parent {}: {}", p_number, ranswer);
            self.dead = true;
            return;
        };
        // the lock to pay: the cellbase witness lock of the block with the model's target number on this branch
        let target_lock: Script = {
            let tl = *path.get(m_target as usize).expect("model's target is on the path");
            let tb = &self.blocks[&tl].block;
            packed::CellbaseWitness::from_slice(&tb.transactions()[0].witnesses().get(0).unwrap().raw_data()).expect("cellbase witness").lock()
        };
        // implementation-only oracle: the lock RewardCalculator selects (walking `finalization_parent`
        // back from the parent on ITS branch) is the miner lock of the block `delay` back on this branch
        if number > delay {
            if let Some((lock, _)) = &impl_pay {
                ctx.out.count(if on_tip { "target-lock-selected-on-the-main-chain" } else { "target-lock-selected-on-a-side-branch" });
                if *lock != target_lock {
                    ctx.out.oracle_fail("calculator-target-lock-not-on-branch", &format!("block {} (label {}) on parent label {}: target {} (label {})", number, label, parent, m_target, path[m_target as usize]));
                }
                // is there a block of the same height on another branch paying another miner?
                if self.blocks.values().any(|b| b.number == m_target && b.label != path[m_target as usize] && witness_lock(&b.block) != target_lock) {
                    ctx.out.count(if on_tip { "target-height-has-another-miner-on-another-branch" } else { "target-height-has-another-miner-on-another-branch:side-branch-parent" });
                }
            }
        }
        // the model's cellbase (amount and lock id from ITS lock table, which follows the branch)
        let ci = self.say(ctx, &format!("cellbase {}", p_number), Some(impl_cb));
        let canswer = self.model_of(ci).to_string();
        let m_pays: Option<(u64, usize)> = {
            let parts: Vec<&str> = canswer.split(' ').collect();
            match parts.as_slice() {
                ["none"] => None,
                ["out", cap, id] => Some((cap.parse().expect("capacity"), id.parse().expect("lock id"))),
                _ => {
                    eprintln!("C06 node: the model has no cellbase for parent {}: {}", p_number, canswer);
                    self.dead = true;
                    return;
                }
            }
        };
        if let Some((cap, id)) = m_pays {
            if cap != m_total || self.lock_scripts.get(id) != Some(&target_lock) {
                ctx.out.oracle_fail("model-target-lock-not-on-branch", &format!("block {} (label {}): model pays `{}`, the target on this branch is label {}", number, label, canswer, path[m_target as usize]));
                self.dead = true;
                return;
            }
        }
        let lock_args = target_lock.args().raw_data().len();
        let impl_occ = CellOutput::new_builder().lock(target_lock.clone()).build().occupied_capacity(Capacity::zero()).expect("occupied").as_u64();
        let oi = self.say(ctx, &format!("occupied 0:{}:n:0", lock_args), Some(format!("ok {}", impl_occ)));
        let lock_occ: u64 = self.model_of(oi).strip_prefix("ok ").and_then(|v| v.parse().ok()).expect("model occupied");

        // which cellbase form does the model accept? (RewardVerifier's three-way case)
        let v_none = self.say(ctx, &format!("verify {} {} {} -", p_number, m_total, lock_occ), None);
        let v_exact = self.say(ctx, &format!("verify {} {} {} {}:1", p_number, m_total, lock_occ, m_total), None);
        let with_output = match (self.model_of(v_none), self.model_of(v_exact)) {
            ("ok", _) => false,
            (_, "ok") => true,
            (a, b) => {
                eprintln!("C06 node: the model accepts no cellbase form: {} / {}", a, b);
                self.dead = true;
                return;
            }
        };
        if m_pays.is_some() != with_output {
            eprintln!("C06 node: model inconsistent: `cellbase` = {}, `verify` wants output = {}", canswer, with_output);
            self.dead = true;
            return;
        }
        let cb0 = built.transactions()[0].clone();
        // ChainBuilder always pays the reward out; when it cannot fill a cell with the target's lock
        // ("insufficient reward": long miner args on this branch) the calculators' block is the
        // builder's without that output (`is_lack_of_capacity`, the block assembler's rule), and U of
        // its dao goes down by the output's occupied capacity (a pure re-encoding)
        let builder_out_occ: Option<u64> = if !with_output && !cb0.outputs().is_empty() {
            Some(cb0.outputs().get(0).unwrap().occupied_capacity(Capacity::zero()).expect("occupied").as_u64())
        } else {
            None
        };
        let mk_cellbase = |out: Option<(u64, Script)>| -> TransactionView {
            let b = cb0.as_advanced_builder().set_outputs(vec![]).set_outputs_data(vec![]);
            match out {
                Some((cap, lock)) => b.output(CellOutput::new_builder().capacity(Capacity::shannons(cap)).lock(lock).build()).output_data(ckb_types::bytes::Bytes::new()).build(),
                None => b.build(),
            }
        };
        let cellbase = mk_cellbase(if with_output { Some((m_total, target_lock.clone())) } else { None });

        // ---- per-transaction fees and the dao field: the model's answers
        let mut fee_idx = vec![];
        let mut m_fees = vec![];
        for l in &tx_labels {
            let i = self.say(ctx, &format!("fee {}", self.tx_str(*l)), None);
            let f: u64 = self.model_of(i).strip_prefix("ok ").and_then(|v| v.parse().ok()).unwrap_or_else(|| panic!("malformed scenario: the model has no fee for tx {}: {}", l, self.model_of(i)));
            fee_idx.push(i);
            m_fees.push(f);
        }
        let pd = dao_tuple(&p_header.dao());
        let cb_str = {
            let outs: Vec<String> = cellbase.outputs_with_data_iter().map(|(o, d)| cell_str(&o, d.len() as u64)).collect();
            format!("-|{}", if outs.is_empty() { "-".to_string() } else { outs.join(",") })
        };
        let mut txs_str = vec![cb_str];
        txs_str.extend(tx_labels.iter().map(|l| self.tx_str(*l)));
        let calc_dao: Byte32 = match builder_out_occ {
            Some(occ) => {
                let t = dao_tuple(&built.header().dao());
                pack_dao_data(t.0, Capacity::shannons(t.1), Capacity::shannons(t.2), Capacity::shannons(t.3 - occ))
            }
            None => built.header().dao(),
        };
        let bd = dao_tuple(&calc_dao);
        let impl_dao = format!("ok {} {} {} {} {}", hex(calc_dao.as_slice()), bd.0, bd.1, bd.2, bd.3);
        let di = self.say(
            ctx,
            &format!("dao {} {} {} {} {} {} {} {} {} {} {}", self.cfg.ser, epoch.0, epoch.1, epoch.2, epoch.3, p_number, pd.0, pd.1, pd.2, pd.3, txs_str.join(";")),
            Some(impl_dao),
        );
        let danswer = self.model_of(di).to_string();
        let dparts: Vec<&str> = danswer.split(' ').collect();
        if dparts.len() != 6 || dparts[0] != "ok" {
            eprintln!("C06 node: the model has no dao field: {}", danswer);
            self.dead = true;
            return;
        }
        let m_dao_hex = dparts[1].to_string();
        let m_dao_bytes: Vec<u8> = (0..32).map(|i| u8::from_str_radix(&m_dao_hex[2 * i..2 * i + 2], 16).expect("hex")).collect();
        let m_dao = Byte32::from_slice(&m_dao_bytes).unwrap();
        let m_dao_t: (u64, u64, u64, u64) = (dparts[2].parse().unwrap(), dparts[3].parse().unwrap(), dparts[4].parse().unwrap(), dparts[5].parse().unwrap());

        // ---- the model-valued block
        let mk_block = |cb: &TransactionView, dao: &Byte32| -> BlockView {
            let mut txs = vec![cb.clone()];
            txs.extend(spec.txs.iter().cloned());
            built.as_advanced_builder().set_transactions(txs).dao(dao.clone()).build()
        };
        let mblock = mk_block(&cellbase, &m_dao);
        let same = match builder_out_occ {
            Some(_) => mblock.hash() == mk_block(&mk_cellbase(None), &calc_dao).hash(),
            None => mblock.hash() == built.hash(),
        };
        ctx.out.count(if same { "model-valued-block-equals-calculators-block" } else { "model-valued-block-differs-from-calculators-block" });
        let main_verdict_idx = if with_output { v_exact } else { v_none };
        let other_idx = if with_output { v_none } else { v_exact };
        let mdv = self.say(ctx, &format!("daoverify {}", m_dao_hex), None);
        let mut pend_verdict = vec![main_verdict_idx, mdv];

        // ---- variants first (only a block heavier than the tip is verified contextually)
        if heavier {
            if !on_tip {
                ctx.out.count("variants-submitted-at-a-reorg-trigger-block");
            }
            // the other cellbase form: output present against the rule / missing against the rule;
            // U moves by the output's occupied capacity, so the dao is adjusted (a pure re-encoding)
            {
                let (cb, dao) = if with_output {
                    (mk_cellbase(None), pack_dao_data(m_dao_t.0, Capacity::shannons(m_dao_t.1), Capacity::shannons(m_dao_t.2), Capacity::shannons(m_dao_t.3 - lock_occ)))
                } else {
                    (
                        mk_cellbase(Some((m_total, target_lock.clone()))),
                        pack_dao_data(m_dao_t.0, Capacity::shannons(m_dao_t.1), Capacity::shannons(m_dao_t.2), Capacity::shannons(m_dao_t.3 + lock_occ)),
                    )
                };
                let r = self.node().process(&mk_block(&cb, &dao));
                self.variant_result(ctx, other_idx, &r, if with_output { "cellbase-output-missing" } else { "cellbase-output-without-target" }, number);
            }
            if with_output && !self.dead {
                let mut caps = vec![m_total + 1, m_total - 1];
                if ctx.rng.chance(1, 6) {
                    caps.push(m_total + 1 + ctx.rng.below(1_000_000));
                    caps.push(m_total - 1 - ctx.rng.below(1_000_000.min(m_total - lock_occ)));
                }
                for cap in caps {
                    if self.dead {
                        break;
                    }
                    let i = self.say(ctx, &format!("verify {} {} {} {}:1", p_number, m_total, lock_occ, cap), None);
                    let r = self.node().process(&mk_block(&mk_cellbase(Some((cap, target_lock.clone()))), &m_dao));
                    self.variant_result(ctx, i, &r, if cap > m_total { "cellbase-capacity-above" } else { "cellbase-capacity-below" }, number);
                }
                if !self.dead && ctx.rng.chance(1, 3) {
                    // the right amount to another lock of the same size (so that U is unchanged)
                    let mut ch = target_lock.code_hash().raw_data().to_vec();
                    ch[ctx.rng.below(32) as usize] ^= 1 << ctx.rng.below(8);
                    let wrong = target_lock.clone().as_builder().code_hash(Byte32::from_slice(&ch).unwrap()).build();
                    let i = self.say(ctx, &format!("verify {} {} {} {}:0", p_number, m_total, lock_occ, m_total), None);
                    let r = self.node().process(&mk_block(&mk_cellbase(Some((m_total, wrong))), &m_dao));
                    self.variant_result(ctx, i, &r, "cellbase-wrong-lock", number);
                }
                // the right amount to the miner of the block of the target's height on ANOTHER branch,
                // and to this block's own miner (U follows the lock's size: the dao is re-encoded)
                let mut others: Vec<(Script, &'static str)> = vec![];
                {
                    let mut cands: Vec<(u64, Script)> = self
                        .blocks
                        .values()
                        .filter(|b| b.number == m_target && b.label != path[m_target as usize])
                        .map(|b| (b.label, witness_lock(&b.block)))
                        .filter(|(_, l)| *l != target_lock)
                        .collect();
                    cands.sort_by_key(|c| c.0);
                    if let Some((_, l)) = cands.into_iter().next() {
                        others.push((l, "cellbase-pays-the-other-branchs-miner"));
                    }
                    if miner_lock != target_lock && others.iter().all(|(l, _)| *l != miner_lock) {
                        others.push((miner_lock.clone(), "cellbase-pays-its-own-miner"));
                    }
                }
                for (wl, kind) in others {
                    if self.dead {
                        break;
                    }
                    let wocc = CellOutput::new_builder().lock(wl.clone()).build().occupied_capacity(Capacity::zero()).expect("occupied").as_u64();
                    if wocc > m_total || wl.args().raw_data().len() + miner_lock.args().raw_data().len() > 500_000 {
                        // the cell could not exist at all / the block would exceed the size limit: another rule
                        continue;
                    }
                    let dao = pack_dao_data(m_dao_t.0, Capacity::shannons(m_dao_t.1), Capacity::shannons(m_dao_t.2), Capacity::shannons(m_dao_t.3 - lock_occ + wocc));
                    let i = self.say(ctx, &format!("verify {} {} {} {}:0", p_number, m_total, lock_occ, m_total), None);
                    let r = self.node().process(&mk_block(&mk_cellbase(Some((m_total, wl))), &dao));
                    self.variant_result(ctx, i, &r, kind, number);
                }
            }
            // dao bit flips: one bit in each of the four u64 fields (+ extras)
            let mut bits: Vec<usize> = (0..4).map(|f| f * 64 + ctx.rng.below(64) as usize).collect();
            if ctx.thorough {
                for _ in 0..4 {
                    bits.push(ctx.rng.below(256) as usize);
                }
            }
            if !self.all_bits_done && number > delay + 1 && (ctx.thorough || ctx.rng.chance(1, 4)) {
                bits = (0..256).collect();
                self.all_bits_done = true;
                ctx.out.count("block-with-all-256-dao-bit-flips");
            }
            bits.sort();
            bits.dedup();
            for bit in bits {
                if self.dead {
                    break;
                }
                let mut raw = m_dao_bytes.clone();
                raw[bit / 8] ^= 1 << (bit % 8);
                let i = self.say(ctx, &format!("daoverify {}", hex(&raw)), None);
                let r = self.node().process(&mk_block(&cellbase, &Byte32::from_slice(&raw).unwrap()));
                self.variant_result(ctx, i, &r, ["dao-bitflip-C", "dao-bitflip-AR", "dao-bitflip-S", "dao-bitflip-U"][bit / 64], number);
                self.flips += 1;
            }
        } else {
            // not verified at this position: the other form is not submitted
            self.lines[other_idx].imp = Some(self.lines[other_idx].model.clone());
            ctx.out.count("side-branch-block-stored-unverified");
        }
        if self.dead {
            return;
        }

        // ---- the model-valued block itself
        let r = self.node().process(&mblock);
        let v = verdict(&r);
        let blk_line = format!(
            "blk {} {} {} {} {} {} {} {} {} {} {} {} {}",
            number,
            fmt_nums(&props),
            fmt_nums(&uprops),
            fmt_nums(&tx_labels),
            fmt_nums(&m_fees),
            epoch.0,
            epoch.1,
            epoch.2,
            epoch.3,
            m_dao_t.0,
            m_dao_t.1,
            m_dao_t.2,
            m_dao_t.3
        );
        if v != "ok" {
            for i in pend_verdict.drain(..) {
                self.lines[i].imp = Some(v.clone());
            }
            for i in fee_idx {
                self.lines[i].imp = Some("rejected".into());
            }
            match v.as_str() {
                "err-amount" | "err-target" | "err-dao" => {
                    ctx.out.oracle_fail(
                        "model-valued-block-rejected",
                        &format!("block {} (label {}) carrying the model's cellbase/dao was rejected by the node: {:?}; equals the calculators' block: {}", number, label, r, same),
                    );
                    self.dead = true;
                    return;
                }
                _ => {
                    eprintln!("C06 node: malformed scenario: block {} (label {}) rejected for another rule: {:?}", number, label, r);
                    self.cleanup();
                    std::process::exit(3);
                }
            }
        }
        if !same {
            // accepted although the repo's calculators (ChainBuilder) disagree with the model: the
            // builder cannot continue on this block
            ctx.out.oracle_fail("calculators-disagree-with-verifiers", &format!("block {} (label {}): node accepted the model-valued block, ChainBuilder's calculators built another one", number, label));
            for i in pend_verdict.drain(..) {
                self.lines[i].imp = Some("ok".into());
            }
            self.dead = true;
            return;
        }
        ctx.out.count("model-valued-block-accepted");
        if with_output {
            ctx.out.count("model-valued-block-accepted:with-reward-output");
        }
        if builder_out_occ.is_some() {
            // the builder goes on from the block without the output (its stores replay `blocks`)
            self.builder.blocks.insert(mblock.hash(), mblock.clone());
            ctx.out.count(if on_tip { "fork-scenario-block-with-insufficient-reward" } else { "fork-scenario-block-with-insufficient-reward:on-a-side-branch" });
        }
        // cells for later spending
        for (i, (o, d)) in cellbase.outputs_with_data_iter().enumerate() {
            self.cells.insert(OutPoint::new(cellbase.hash(), i as u32), (o, d.len() as u64));
        }
        let lock_line = format!("lock {} {} {}", number, miner_id, miner_lock.args().raw_data().len());
        self.blocks.insert(
            label,
            BlkRec { label, parent, number, block: mblock.clone(), props, uprops, ids: tx_labels, blk_line: blk_line.clone(), lock_line: Some(lock_line.clone()), pend_verdict: std::mem::take(&mut pend_verdict), pend_fee: fee_idx, compared: false },
        );
        self.say(ctx, &blk_line, Some("ok".into()));
        self.say(ctx, &lock_line, Some("ok".into()));
        self.model_chain.push(label);

        // ---- after acceptance: everything that is on the node's main chain now and not yet compared
        if self.node().tip_hash() == mblock.hash() {
            let path = self.path_labels(label);
            let fresh = path.iter().skip(1).filter(|l| !self.blocks[*l].compared).count();
            if fresh > 1 {
                ctx.out.count("reorgs-to-a-model-valued-branch");
                *ctx.out.hist.entry("blocks-attached-by-reorg".into()).or_insert(0) += fresh as u64;
            }
            for l in path.iter().skip(1) {
                if !self.blocks[l].compared {
                    self.compare_attached(ctx, *l, &path);
                }
            }
            let u = dao_tuple(&self.node().tip().dao()).3;
            let live = self.live_occupied();
            ctx.out.count("live-set-scans");
            if live != u as u128 {
                ctx.out.oracle_fail("u-not-occupied-capacity-of-live-set", &format!("tip {} U={} live-set={}", number, u, live));
            }
        } else if heavier {
            ctx.out.oracle_fail("accepted-block-not-tip", &format!("block {} (label {})", number, label));
        }
    }

    // ---------------------------------------------------------------------------- linear scenarios

    /// `dao_field` of the repo's DaoCalculator for a block with transactions `all_txs` on the node's tip
    fn impl_dao_on_tip(&self, p_header: &HeaderView, all_txs: &[TransactionView]) -> Result<Byte32, String> {
        let store: &ChainDB = self.node().store();
        let txn = store.begin_transaction();
        let tmp_block = BlockBuilder::default().transactions(all_txs.to_vec()).build();
        let bcp = BlockCellProvider::new(&tmp_block).map_err(|e| format!("{e:?}"))?;
        let cp = OverlayCellProvider::new(&bcp, &txn);
        let hc = TipHeaders { db: store };
        let mut seen = HashSet::new();
        let rtxs: Vec<Arc<ResolvedTransaction>> = all_txs
            .iter()
            .map(|tx| resolve_transaction(tx.clone(), &mut seen, &cp, &hc).map(Arc::new))
            .collect::<Result<Vec<_>, _>>()
            .map_err(|e| format!("{e:?}"))?;
        let loader = store.borrow_as_data_loader();
        DaoCalculator::new(&self.consensus, &loader).dao_field(rtxs.iter().map(AsRef::as_ref), p_header).map_err(|e| format!("{e:?}"))
    }

    /// `nb <label> <parent> <salt> <txs> <props> <uncles> [<lock spec>]` of a linear scenario: the
    /// block extends the node's tip; header fields come from the node's own store (epoch, chain
    /// root), the cellbase (witness lock = the block's miner lock; outputs = the MODEL's `cellbase`
    /// answer) and the dao bytes from the model.
    fn exec_nb_linear(&mut self, ts: &[&str], ctx: &mut Ctx) {
        assert!(ts.len() == 7 || ts.len() == 8, "malformed nb line");
        let label: u64 = ts[1].parse().expect("label");
        let parent: u64 = ts[2].parse().expect("label");
        let salt: u64 = ts[3].parse().expect("salt");
        let tx_labels = nums(ts[4]);
        let props = nums(ts[5]);
        let uncle_labels = nums(ts[6]);
        let miner_lock = lock_from_spec(ts.get(7).copied().unwrap_or("a0.0"));
        let miner_id = self.lock_id(&miner_lock);
        assert!(!self.blocks.contains_key(&label) && label != 0, "malformed: duplicate block label");
        let (p_hash, p_number, p_header) = {
            let p = self.blocks.get(&parent).expect("malformed: unknown parent label");
            (p.block.hash(), p.number, p.block.header())
        };
        assert!(self.node().tip_hash() == p_hash, "malformed: a linear scenario extends the tip");
        let number = p_number + 1;
        let delay = self.cfg.far + 1;
        let mut uprops: Vec<u64> = vec![];
        let mut uncle_views = vec![];
        for ul in &uncle_labels {
            let (u, ps) = self.uncles.get(ul).expect("malformed: unknown uncle label");
            uprops.extend(ps.iter().copied());
            uncle_views.push(u.as_uncle());
        }
        let body_txs: Vec<TransactionView> = tx_labels.iter().map(|l| self.txs.get(l).expect("malformed: unknown tx label").tx.clone()).collect();
        let mut proposals: Vec<ProposalShortId> = vec![];
        for l in &props {
            let t = self.txs.get(l).expect("malformed: unknown tx label");
            proposals.push(t.tx.proposal_short_id());
            // the `+1 shannon` sibling of a NervosDAO withdrawal is proposed along (it is never committed)
            if let Some(sib) = &t.sibling {
                proposals.push(sib.proposal_short_id());
            }
            // (a variant that differs from the withdrawal in its witness only has the same hash / short id)
            for (_, _, m) in &t.malformed {
                if !proposals.contains(&m.proposal_short_id()) {
                    proposals.push(m.proposal_short_id());
                }
            }
        }

        // ---- implementation side on the node's own store (tip = parent)
        let consensus = self.consensus.clone();
        let (epoch_ext, impl_reward, impl_pay, extension) = {
            let store: &ChainDB = self.node.as_ref().unwrap().store();
            let epoch_ext = consensus.next_epoch_ext(&p_header, &store.borrow_as_data_loader()).expect("epoch of the new block").epoch();
            let r = RewardCalculator::new(&consensus, store).block_reward_to_finalize(&p_header);
            let (s, pay) = match r {
                Ok((lock, br)) => (
                    format!(
                        "ok target={} total={} primary={} secondary={} txfee={} proposal={}",
                        number.saturating_sub(delay),
                        br.total.as_u64(),
                        br.primary.as_u64(),
                        br.secondary.as_u64(),
                        br.tx_fee.as_u64(),
                        br.proposal_reward.as_u64()
                    ),
                    Some((lock, br.total)),
                ),
                Err(_) => ("err-overflow".to_string(), None),
            };
            let extension = {
                let mmr_size = leaf_index_to_mmr_size(p_header.number());
                let txn = store.begin_transaction();
                let mmr = ChainRootMMR::new(mmr_size, &txn);
                let root = mmr.get_root().expect("chain root");
                ckb_types::bytes::Bytes::from(root.calc_mmr_hash().as_bytes().to_vec())
            };
            (epoch_ext, s, pay, extension)
        };
        let epoch = epoch_tuple(&epoch_ext);
        // what the repo's calculator + `is_lack_of_capacity` say the cellbase has to be (the block
        // assembler's rule)
        let impl_cb = match impl_pay {
            Some((lock, total)) => {
                let lack = CellOutput::new_builder().capacity(total).lock(lock.clone()).build().is_lack_of_capacity(Capacity::zero()).expect("occupied");
                if number <= delay || lack { "none".to_string() } else { format!("out {} {}", total.as_u64(), self.lock_id(&lock)) }
            }
            None => "err-overflow".to_string(),
        };

        let path = self.sync_model_chain(ctx, parent);

        // ---- reward of the block to finalise and the cellbase: the model decides
        let ri = self.say(ctx, &format!("reward {}", p_number), Some(impl_reward));
        let ranswer = self.model_of(ri).to_string();
        let field = |k: &str| -> Option<u64> { ranswer.split(' ').find_map(|t| t.strip_prefix(&format!("{}=", k)).and_then(|v| v.parse().ok())) };
        let (Some(m_target), Some(m_total)) = (field("target"), field("total")) else {
            eprintln!("C06 node: the model has no reward for parent {}: {}", p_number, ranswer);
            self.dead = true;
            return;
        };
        let ci = self.say(ctx, &format!("cellbase {}", p_number), Some(impl_cb.clone()));
        let canswer = self.model_of(ci).to_string();
        let exp: Option<(u64, Script)> = {
            let parts: Vec<&str> = canswer.split(' ').collect();
            match parts.as_slice() {
                ["none"] => None,
                ["out", cap, id] => {
                    let id: usize = id.parse().expect("lock id");
                    let Some(lock) = self.lock_scripts.get(id).cloned() else {
                        eprintln!("C06 node: the model pays an unknown lock id: {}", canswer);
                        self.dead = true;
                        return;
                    };
                    Some((cap.parse().expect("capacity"), lock))
                }
                _ => {
                    eprintln!("C06 node: the model has no cellbase for parent {}: {}", p_number, canswer);
                    self.dead = true;
                    return;
                }
            }
        };
        // the finalisation target's lock, independently of the model's lock table: the cellbase
        // witness of the block with the model's target number on this chain
        let target_lock: Script = {
            let tl = *path.get(m_target as usize).expect("model's target is on the path");
            let tb = &self.blocks[&tl].block;
            packed::CellbaseWitness::from_slice(&tb.transactions()[0].witnesses().get(0).unwrap().raw_data()).expect("cellbase witness").lock()
        };
        let occ_of = |s: &Script| CellOutput::new_builder().lock(s.clone()).build().occupied_capacity(Capacity::zero()).expect("occupied").as_u64();
        let oi = self.say(ctx, &format!("occupied 0:{}:n:0", target_lock.args().raw_data().len()), Some(format!("ok {}", occ_of(&target_lock))));
        let lock_occ: u64 = self.model_of(oi).strip_prefix("ok ").and_then(|v| v.parse().ok()).expect("model occupied");
        // RewardVerifier's three-way case on the two candidate forms (as in the other scenarios)
        let v_none = self.say(ctx, &format!("verify {} {} {} -", p_number, m_total, lock_occ), None);
        let v_exact = self.say(ctx, &format!("verify {} {} {} {}:1", p_number, m_total, lock_occ, m_total), None);
        let with_output = match (self.model_of(v_none), self.model_of(v_exact)) {
            ("ok", _) => false,
            (_, "ok") => true,
            (a, b) => panic!("the model accepts no cellbase form: {a} / {b}"),
        };
        match &exp {
            None => assert!(!with_output, "model inconsistent: `cellbase` = none but `verify` wants an output"),
            Some((cap, lock)) => assert!(with_output && *cap == m_total && *lock == target_lock, "model inconsistent: `cellbase` = {canswer}, `verify`/target lock disagree"),
        }
        let witness = packed::CellbaseWitness::new_builder().lock(miner_lock.clone()).message(ckb_types::bytes::Bytes::from(salt.to_le_bytes().to_vec()).pack()).build();
        let mk_cellbase = |outs: &[(u64, Script)]| -> TransactionView {
            let mut b = TransactionBuilder::default().input(CellInput::new_cellbase_input(number)).witness(witness.as_bytes().pack());
            for (cap, lock) in outs {
                b = b.output(CellOutput::new_builder().capacity(Capacity::shannons(*cap)).lock(lock.clone()).build()).output_data(ckb_types::bytes::Bytes::new());
            }
            b.build()
        };
        let exp_outs: Vec<(u64, Script)> = exp.iter().cloned().collect();
        let cellbase = mk_cellbase(&exp_outs);

        // ---- per-transaction fees and the dao field: the model's answers
        let mut fee_idx = vec![];
        let mut m_fees = vec![];
        for l in &tx_labels {
            let i = self.say(ctx, &format!("fee {}", self.tx_str(*l)), None);
            let f: u64 = self.model_of(i).strip_prefix("ok ").and_then(|v| v.parse().ok()).unwrap_or_else(|| panic!("malformed scenario: the model has no fee for tx {}: {}", l, self.model_of(i)));
            fee_idx.push(i);
            m_fees.push(f);
        }
        let pd = dao_tuple(&p_header.dao());
        let cb_str = {
            let outs: Vec<String> = cellbase.outputs_with_data_iter().map(|(o, d)| cell_str(&o, d.len() as u64)).collect();
            format!("-|{}", if outs.is_empty() { "-".to_string() } else { outs.join(",") })
        };
        let mut txs_str = vec![cb_str];
        txs_str.extend(tx_labels.iter().map(|l| self.tx_str(*l)));
        let mut all_txs = vec![cellbase.clone()];
        all_txs.extend(body_txs.iter().cloned());
        let impl_dao = match self.impl_dao_on_tip(&p_header, &all_txs) {
            Ok(d) => {
                let t = dao_tuple(&d);
                format!("ok {} {} {} {} {}", hex(d.as_slice()), t.0, t.1, t.2, t.3)
            }
            Err(e) => panic!("malformed scenario: the repo's DaoCalculator has no dao field for block {}: {}", number, e),
        };
        let di = self.say(
            ctx,
            &format!("dao {} {} {} {} {} {} {} {} {} {} {}", self.cfg.ser, epoch.0, epoch.1, epoch.2, epoch.3, p_number, pd.0, pd.1, pd.2, pd.3, txs_str.join(";")),
            Some(impl_dao.clone()),
        );
        let danswer = self.model_of(di).to_string();
        let dparts: Vec<&str> = danswer.split(' ').collect();
        if dparts.len() != 6 || dparts[0] != "ok" {
            eprintln!("C06 node: the model has no dao field: {}", danswer);
            self.dead = true;
            return;
        }
        let m_dao_hex = dparts[1].to_string();
        let m_dao_bytes: Vec<u8> = (0..32).map(|i| u8::from_str_radix(&m_dao_hex[2 * i..2 * i + 2], 16).expect("hex")).collect();
        let m_dao = Byte32::from_slice(&m_dao_bytes).unwrap();
        let m_dao_t: (u64, u64, u64, u64) = (dparts[2].parse().unwrap(), dparts[3].parse().unwrap(), dparts[4].parse().unwrap(), dparts[5].parse().unwrap());
        let same = danswer == impl_dao && canswer == impl_cb;
        ctx.out.count(if same { "model-valued-block-equals-calculators-block" } else { "model-valued-block-differs-from-calculators-block" });

        // ---- the model-valued block
        let timestamp = p_header.timestamp() + 1 + salt % 3;
        let mk_block = |cb: &TransactionView, dao: &Byte32, body: &[TransactionView]| -> BlockView {
            let mut txs = vec![cb.clone()];
            txs.extend(body.iter().cloned());
            BlockBuilder::default()
                .parent_hash(p_hash.clone())
                .number(number)
                .timestamp(timestamp)
                .compact_target(epoch_ext.compact_target())
                .epoch(epoch_ext.number_with_fraction(number))
                .dao(dao.clone())
                .transactions(txs)
                .proposals(proposals.clone())
                .uncles(uncle_views.clone())
                .extension(Some(extension.pack()))
                .build()
        };
        let mblock = mk_block(&cellbase, &m_dao, &body_txs);
        let mdv = self.say(ctx, &format!("daoverify {}", m_dao_hex), None);
        let pend_verdict = vec![if with_output { v_exact } else { v_none }, mdv];
        let other_idx = if with_output { v_none } else { v_exact };

        // ---- variants first: every other cellbase is rejected. The dao of a variant carries the U
        //      that goes with ITS outputs, so that DaoHeaderVerifier (which runs first) passes and the
        //      verdict is RewardVerifier's (CellbaseVerifier's for two outputs)
        let exp_occ: u64 = exp_outs.iter().map(|(_, l)| occ_of(l)).sum();
        let mut variants: Vec<(Vec<(u64, Script)>, String, Option<usize>)> = vec![];
        let heavy = !self.cfg.dao || ctx.rng.chance(1, 12);
        match &exp {
            None => {
                let why = if number <= delay { "no-target" } else { "insufficient" };
                variants.push((vec![(m_total.max(1), target_lock.clone())], format!("minting:{why}:the-reward"), Some(other_idx)));
                if heavy {
                    variants.push((vec![(1, target_lock.clone())], format!("minting:{why}:1-shannon"), None));
                    variants.push((vec![(lock_occ, target_lock.clone())], format!("minting:{why}:exactly-the-occupied-capacity"), None));
                    variants.push((vec![(100_000_000_000_000, target_lock.clone())], format!("minting:{why}:1e14-shannons"), None));
                    if miner_lock != target_lock {
                        variants.push((vec![(occ_of(&miner_lock) + ctx.rng.below(1000), miner_lock.clone())], format!("minting:{why}:to-the-current-miner"), None));
                    }
                }
            }
            Some((total, tl)) => {
                variants.push((vec![], "cellbase-output-missing".into(), Some(other_idx)));
                variants.push((vec![(total + 1, tl.clone())], "cellbase-capacity-above".into(), None));
                variants.push((vec![(total - 1, tl.clone())], "cellbase-capacity-below".into(), None));
                if heavy {
                    let mut ch = tl.code_hash().raw_data().to_vec();
                    ch[ctx.rng.below(32) as usize] ^= 1 << ctx.rng.below(8);
                    variants.push((vec![(*total, tl.clone().as_builder().code_hash(Byte32::from_slice(&ch).unwrap()).build())], "cellbase-wrong-lock".into(), None));
                    if miner_lock != *tl {
                        variants.push((vec![(*total, miner_lock.clone())], "cellbase-pays-the-current-miner".into(), None));
                    }
                    for (d, name) in [(1i64, "cellbase-pays-the-block-after-the-target"), (-1, "cellbase-pays-the-block-before-the-target")] {
                        let n = m_target as i64 + d;
                        if n >= 1 && (n as usize) < path.len() {
                            let nb = &self.blocks[&path[n as usize]].block;
                            let l = packed::CellbaseWitness::from_slice(&nb.transactions()[0].witnesses().get(0).unwrap().raw_data()).expect("cellbase witness").lock();
                            if l != *tl {
                                variants.push((vec![(*total, l)], name.into(), None));
                            }
                        }
                    }
                    let part = if *total >= 2 * lock_occ { lock_occ } else { *total / 2 };
                    variants.push((vec![(total - part, tl.clone()), (part, tl.clone())], "cellbase-two-outputs-summing-to-the-reward".into(), None));
                }
            }
        }
        for (outs, kind, idx) in variants {
            if self.dead {
                break;
            }
            let v_occ: u64 = outs.iter().map(|(_, l)| occ_of(l)).sum();
            let dao = pack_dao_data(m_dao_t.0, Capacity::shannons(m_dao_t.1), Capacity::shannons(m_dao_t.2), Capacity::shannons(m_dao_t.3 - exp_occ + v_occ));
            let outs_str = if outs.is_empty() { "-".to_string() } else { outs.iter().map(|(c, l)| format!("{}:{}", c, if *l == target_lock { 1 } else { 0 })).collect::<Vec<_>>().join(",") };
            let i = self.say(ctx, &format!("cbverify {} {} {} {}", p_number, m_total, lock_occ, outs_str), None);
            let r = self.node().process(&mk_block(&mk_cellbase(&outs), &dao, &body_txs));
            self.variant_result(ctx, i, &r, &kind, number);
            if let Some(j) = idx {
                // the legacy `verify` line of the other form gets the same verdict
                self.lines[j].imp = self.lines[i].imp.clone();
            }
        }
        // dao bit flips (two random bits; the other scenarios flip one bit per field in every block)
        for _ in 0..2 {
            if self.dead {
                break;
            }
            let bit = ctx.rng.below(256) as usize;
            let mut raw = m_dao_bytes.clone();
            raw[bit / 8] ^= 1 << (bit % 8);
            let i = self.say(ctx, &format!("daoverify {}", hex(&raw)), None);
            let r = self.node().process(&mk_block(&cellbase, &Byte32::from_slice(&raw).unwrap(), &body_txs));
            self.variant_result(ctx, i, &r, ["dao-bitflip-C", "dao-bitflip-AR", "dao-bitflip-S", "dao-bitflip-U"][bit / 64], number);
            self.flips += 1;
        }
        // NervosDAO: the same block with a withdrawal replaced by its `+1 shannon` sibling
        for (k, l) in tx_labels.iter().enumerate() {
            if self.dead {
                break;
            }
            let Some(sib) = self.txs[l].sibling.clone() else { continue };
            let mut body = body_txs.clone();
            body[k] = sib;
            let r = self.node().process(&mk_block(&cellbase, &m_dao, &body));
            match &r {
                Ok(_) => {
                    ctx.out.oracle_fail("variant-accepted:dao-withdraw-one-shannon-above-maximum", &format!("block {}: the node accepted a NervosDAO withdrawal (tx {}) paying 1 shannon more than counted*AR_w/AR_d + occupied", number, l));
                    self.dead = true;
                }
                Err(e) => ctx.out.count(&format!("variant-rejected:dao-withdraw-one-shannon-above-maximum:{}", if e.contains("Script") || e.contains("script") { "script" } else { "other" })),
            }
        }
        // NervosDAO: the same block with a withdrawal replaced by a malformed variant of it: rejected by
        // DaoHeaderVerifier (dao_field -> transaction_maximum_withdraw) with the model's DaoError class
        for (k, l) in tx_labels.iter().enumerate() {
            for (kind, line, mtx) in self.txs[l].malformed.clone() {
                if self.dead {
                    break;
                }
                let mut body = body_txs.clone();
                body[k] = mtx;
                let r = self.node().process(&mk_block(&cellbase, &m_dao, &body));
                let class = match &r {
                    Ok(_) => "ok".to_string(),
                    Err(e) if e.contains("InvalidDaoFormat") => "err-format".into(),
                    Err(e) if e.contains("InvalidOutPoint") => "err-outpoint".into(),
                    Err(e) if e.contains("InvalidHeader") => "err-header".into(),
                    Err(e) if e.contains("Overflow") => "err-overflow".into(),
                    Err(_) => "err-other".into(),
                };
                self.say(ctx, &line, Some(class.clone()));
                if r.is_ok() {
                    ctx.out.oracle_fail(&format!("variant-accepted:dao-withdraw-malformed:{}", kind), &format!("block {}: the node accepted a malformed NervosDAO withdrawal (tx {}, {})", number, l, kind));
                    self.dead = true;
                } else {
                    ctx.out.count(&format!("variant-rejected:dao-withdraw-malformed:{}:{}", kind, class));
                }
            }
        }
        if self.dead {
            return;
        }

        // ---- the model-valued block itself
        let r = self.node().process(&mblock);
        let v = verdict(&r);
        let blk_line = format!(
            "blk {} {} {} {} {} {} {} {} {} {} {} {} {}",
            number,
            fmt_nums(&props),
            fmt_nums(&uprops),
            fmt_nums(&tx_labels),
            fmt_nums(&m_fees),
            epoch.0,
            epoch.1,
            epoch.2,
            epoch.3,
            m_dao_t.0,
            m_dao_t.1,
            m_dao_t.2,
            m_dao_t.3
        );
        if v != "ok" {
            for i in &pend_verdict {
                self.lines[*i].imp = Some(v.clone());
            }
            for i in fee_idx {
                self.lines[i].imp = Some("rejected".into());
            }
            match v.as_str() {
                "err-amount" | "err-target" | "err-dao" | "err-quantity" => {
                    ctx.out.oracle_fail(
                        "model-valued-block-rejected",
                        &format!("block {} (label {}) carrying the model's cellbase ({}) / dao was rejected by the node: {:?}; the repo's calculators agree with the model: {}", number, label, canswer, r, same),
                    );
                    self.dead = true;
                    return;
                }
                _ => {
                    eprintln!("C06 node: malformed scenario: block {} (label {}) rejected for another rule: {:?}", number, label, r);
                    self.cleanup();
                    std::process::exit(3);
                }
            }
        }
        if !same {
            ctx.out.oracle_fail("calculators-disagree-with-verifiers", &format!("block {} (label {}): the node accepted the model-valued block ({} / {}), the repo's calculators say {} / {}", number, label, canswer, danswer, impl_cb, impl_dao));
            for i in &pend_verdict {
                self.lines[*i].imp = Some("ok".into());
            }
            self.dead = true;
            return;
        }
        ctx.out.count("model-valued-block-accepted");
        ctx.out.count(match (&exp, number <= delay) {
            (Some(_), _) => "model-valued-block-accepted:with-reward-output",
            (None, true) => "model-valued-block-accepted:no-output:no-target",
            (None, false) => "model-valued-block-accepted:no-output:insufficient-reward",
        });
        if exp.is_some() && miner_lock != target_lock {
            ctx.out.count("model-valued-block-accepted:reward-to-another-lock-than-the-miners");
        }
        *ctx.out.hist.entry(format!("miner-lock-args-{}", miner_lock.args().raw_data().len())).or_insert(0) += 1;
        for (i, (o, d)) in cellbase.outputs_with_data_iter().enumerate() {
            self.cells.insert(OutPoint::new(cellbase.hash(), i as u32), (o, d.len() as u64));
        }
        for l in &tx_labels {
            self.committed_in.insert(*l, label);
        }
        let lock_line = format!("lock {} {} {}", number, miner_id, miner_lock.args().raw_data().len());
        self.blocks.insert(
            label,
            BlkRec { label, parent, number, block: mblock.clone(), props, uprops, ids: tx_labels, blk_line: blk_line.clone(), lock_line: Some(lock_line.clone()), pend_verdict, pend_fee: fee_idx, compared: false },
        );
        self.say(ctx, &blk_line, Some("ok".into()));
        self.say(ctx, &lock_line, Some("ok".into()));
        self.model_chain.push(label);

        if self.node().tip_hash() == mblock.hash() {
            let path = self.path_labels(label);
            self.compare_attached(ctx, label, &path);
            let u = dao_tuple(&self.node().tip().dao()).3;
            let live = self.live_occupied();
            ctx.out.count("live-set-scans");
            if live != u as u128 {
                ctx.out.oracle_fail("u-not-occupied-capacity-of-live-set", &format!("tip {} U={} live-set={}", number, u, live));
            }
        } else {
            ctx.out.oracle_fail("accepted-block-not-tip", &format!("block {} (label {})", number, label));
        }
    }

    fn variant_result(&mut self, ctx: &mut Ctx, idx: usize, r: &Result<bool, String>, kind: &str, number: u64) {
        let v = verdict(r);
        self.lines[idx].imp = Some(v.clone());
        if r.is_ok() {
            ctx.out.oracle_fail(&format!("variant-accepted:{}", kind), &format!("block {}: the node accepted a block whose {} differs from the rule ({})", number, kind, self.lines[idx].op));
            self.dead = true;
        } else {
            ctx.out.count(&format!("variant-rejected:{}:{}", kind, v));
        }
    }

    /// NervosDAO interest a transaction withdraws, in u128, independent of model and calculators:
    /// Σ over withdrawing inputs of floor(counted * AR_withdraw / AR_deposit) − counted
    fn tx_interest(&self, label: u64) -> u128 {
        let t = &self.txs[&label];
        let mut sum = 0u128;
        for (i, (dl, wl)) in t.dao_in.iter() {
            let (o, d) = &t.in_cells[*i];
            let counted = cap_of(o) as u128 - occ128(o, *d);
            let da = dao_tuple(&self.blocks[dl].block.header().dao()).0 as u128;
            let wa = dao_tuple(&self.blocks[wl].block.header().dao()).0 as u128;
            sum += counted * wa / da - counted;
        }
        sum
    }

    /// block `label` is on the node's main chain: fill the node's answers and evaluate the property
    fn compare_attached(&mut self, ctx: &mut Ctx, label: u64, path: &[u64]) {
        let (hash, number, parent_label) = {
            let b = &self.blocks[&label];
            (b.block.hash(), b.number, b.parent)
        };
        let store = self.node.as_ref().expect("node running").store();
        let ext = store.get_block_ext(&hash).expect("ext of an attached block");
        let stored = store.get_block(&hash).expect("attached block");
        let on_main = store.get_block_hash(number) == Some(hash.clone());
        if ext.verified != Some(true) || !on_main {
            ctx.out.oracle_fail("attached-block-not-verified", &format!("block {} verified={:?} main={}", number, ext.verified, on_main));
        }
        // the node's verdict on the model-valued block: it is attached, RewardVerifier and DaoHeaderVerifier passed
        let pend: Vec<usize> = self.blocks.get_mut(&label).unwrap().pend_verdict.drain(..).collect();
        for i in pend {
            self.lines[i].imp = Some("ok".into());
        }
        let fee_idx: Vec<usize> = self.blocks.get_mut(&label).unwrap().pend_fee.drain(..).collect();
        let ids = self.blocks[&label].ids.clone();
        if ext.txs_fees.len() != ids.len() {
            ctx.out.oracle_fail("txs-fees-length", &format!("block {} txs_fees={} txs={}", number, ext.txs_fees.len(), ids.len()));
        }
        for (k, i) in fee_idx.iter().enumerate() {
            self.lines[*i].imp = Some(ext.txs_fees.get(k).map(|f| format!("ok {}", f.as_u64())).unwrap_or_else(|| "missing".into()));
        }
        // oracle: txs_fees[i] = Σ inputs (+ NervosDAO interest of withdrawing inputs) − Σ outputs
        let mut interests: u128 = 0;
        for (k, l) in ids.iter().enumerate() {
            let t = &self.txs[l];
            let ins: u128 = t.in_caps.iter().map(|c| *c as u128).sum();
            let outs: u128 = t.tx.outputs().into_iter().map(|o| cap_of(&o) as u128).sum();
            let got = ext.txs_fees.get(k).map(|f| f.as_u64() as u128);
            let interest = self.tx_interest(*l);
            interests += interest;
            if ins + interest < outs || got != Some(ins + interest - outs) {
                ctx.out.oracle_fail("txs-fees-not-inputs-minus-outputs", &format!("block {} tx {} fee={:?} inputs={} dao-interest={} outputs={}", number, l, got, ins, interest, outs));
            }
            if interest > 0 {
                ctx.out.count("attached-tx-withdraws-dao-interest");
            }
        }
        // oracle: the dao rule against the parent's header as the node stores it
        let parent_hash = self.blocks[&parent_label].block.hash();
        let ph = store.get_block_header(&parent_hash).expect("parent header");
        let (par, pc, ps, pu) = dao_tuple(&ph.dao());
        let (ar, c, s, u) = dao_tuple(&stored.header().dao());
        let epoch = store.get_block_epoch_index(&hash).and_then(|i| store.get_epoch_ext(&i)).map(|e| epoch_tuple(&e)).expect("epoch of an attached block");
        let g = spec_g(epoch, number);
        let g2 = spec_g2(epoch, self.cfg.ser, number);
        let mut added: u128 = 0;
        let mut freed: u128 = 0;
        for (o, d) in stored.transactions()[0].outputs_with_data_iter() {
            added += occ128(&o, d.len() as u64);
        }
        for l in &ids {
            let t = &self.txs[l];
            for (o, d) in t.tx.outputs_with_data_iter() {
                added += occ128(&o, d.len() as u64);
            }
            for (o, d) in &t.in_cells {
                freed += occ128(o, *d);
            }
        }
        let miner = g2 * pu as u128 / pc as u128;
        let mut bad = vec![];
        if c as u128 != pc as u128 + g + g2 {
            bad.push("C");
        }
        if u as u128 + freed != pu as u128 + added {
            bad.push("U");
        }
        if s as u128 + interests != ps as u128 + (g2 - miner) {
            bad.push("S");
        }
        if ar as u128 != par as u128 + par as u128 * g2 / pc as u128 {
            bad.push("AR");
        }
        if !bad.is_empty() {
            ctx.out.oracle_fail("dao-rule", &format!("block {} fields={} parent=({},{},{},{}) got=({},{},{},{}) g={} g2={} added={} freed={}", number, bad.join(","), par, pc, ps, pu, ar, c, s, u, g, g2, added, freed));
        }
        if epoch.3 > 0 && number >= epoch.0 && number < epoch.0 + epoch.3 {
            ctx.out.count("attached-block-in-primary-remainder-zone");
        }
        if number == epoch.0 && number > 0 {
            ctx.out.count("attached-block-opens-epoch");
        }
        if number >= epoch.0 && number < epoch.0 + self.cfg.ser % epoch.1 {
            ctx.out.count("attached-block-in-secondary-remainder-zone");
        }
        // oracle: cellbase = reward of the finalised block, to its lock
        let delay = self.cfg.far + 1;
        let outputs: Vec<CellOutput> = stored.transactions()[0].outputs().into_iter().collect();
        if number <= delay {
            if !outputs.is_empty() {
                ctx.out.oracle_fail("cellbase-output-without-target", &format!("block {}", number));
            }
        } else {
            let t = number - delay;
            let by_number = |n: u64| -> &BlkRec { &self.blocks[&path[n as usize]] };
            let tb = by_number(t);
            let t_hash = tb.block.hash();
            let t_ext = store.get_block_ext(&t_hash).expect("target ext");
            let t_epoch = store.get_block_epoch_index(&t_hash).and_then(|i| store.get_epoch_ext(&i)).map(|e| epoch_tuple(&e)).expect("target epoch");
            let (_, tpc, _, tpu) = dao_tuple(&store.get_block_header(&by_number(t - 1).block.hash()).expect("header").dao());
            let share = |fee: u64| fee as u128 * self.cfg.numer as u128 / self.cfg.denom as u128;
            let primary = spec_g(t_epoch, t);
            let secondary = spec_g2(t_epoch, self.cfg.ser, t) * tpu as u128 / tpc as u128;
            let committer: u128 = t_ext.txs_fees.iter().map(|f| f.as_u64() as u128 - share(f.as_u64())).sum();
            let (cl, far) = (self.cfg.close, self.cfg.far);
            let mut proposer: u128 = 0;
            let t_props: HashSet<u64> = tb.props.iter().chain(tb.uprops.iter()).copied().collect();
            for cnum in (t + cl)..=(t + far) {
                let cb = by_number(cnum);
                let c_ext = store.get_block_ext(&cb.block.hash()).expect("ext");
                for (id, fee) in cb.ids.iter().zip(c_ext.txs_fees.iter()) {
                    if !t_props.contains(id) {
                        continue;
                    }
                    let lo = cnum.saturating_sub(far).max(1);
                    let hi = cnum - cl;
                    let earliest = (lo..=hi).find(|q| {
                        let qb = by_number(*q);
                        qb.props.contains(id) || qb.uprops.contains(id)
                    });
                    if earliest == Some(t) {
                        proposer += share(fee.as_u64());
                        ctx.out.count(&format!("proposer-share-due:commit-offset-{}", cnum - t));
                        if tb.uprops.contains(id) && !tb.props.contains(id) {
                            ctx.out.count("proposer-share-due:proposed-in-uncle-only");
                        }
                        if (1..lo).any(|q| by_number(q).props.contains(id) || by_number(q).uprops.contains(id)) {
                            ctx.out.count("proposer-share-due:re-proposal-after-an-expired-earlier-proposal");
                        }
                        if ((t + 1)..=hi).any(|q| by_number(q).props.contains(id) || by_number(q).uprops.contains(id)) {
                            ctx.out.count("proposer-share-due:re-proposed-later-inside-the-window");
                        }
                    } else {
                        ctx.out.count("target-proposal-with-earlier-proposer-in-window");
                    }
                }
            }
            let spec_total = primary + secondary + committer + proposer;
            let got: u128 = outputs.iter().map(|o| cap_of(o) as u128).sum();
            // the lock to pay: the one in the cellbase WITNESS of the target block
            let want_lock = packed::CellbaseWitness::from_slice(&tb.block.transactions()[0].witnesses().get(0).unwrap().raw_data()).expect("witness").lock();
            let want_occ = occ128(&CellOutput::new_builder().lock(want_lock.clone()).build(), 0);
            // a reward that cannot fill a cell locked with the target's lock is not paid out
            // (the known block-1 exception lowers the code's total: judged on what is left)
            let code_total = if t == 1 && got < spec_total { spec_total - proposer } else { spec_total };
            let due = code_total >= want_occ;
            let tb_lock_differs = want_lock != packed::CellbaseWitness::from_slice(&stored.transactions()[0].witnesses().get(0).unwrap().raw_data()).expect("witness").lock();
            if committer + proposer > 0 && spec_total + 1 >= want_occ && spec_total <= want_occ + 1 {
                ctx.out.count("attached-block-reward-within-one-shannon-of-the-cell:with-fee-shares");
            }
            if due && spec_total == want_occ + 1 {
                ctx.out.count("attached-block-reward-one-shannon-above-the-cell");
            }
            if !due {
                ctx.out.count("attached-block-with-insufficient-reward");
                if committer + proposer > 0 {
                    ctx.out.count("attached-block-with-insufficient-reward:with-fee-shares");
                }
                if spec_total + 1 == want_occ {
                    ctx.out.count("attached-block-with-insufficient-reward:one-shannon-short");
                }
                if !outputs.is_empty() {
                    ctx.out.oracle_fail("cellbase-mints-with-insufficient-reward", &format!("block {} target {} cellbase={} reward={} occupied={}", number, t, got, spec_total, want_occ));
                }
            } else {
                if spec_total == want_occ {
                    ctx.out.count("attached-block-reward-exactly-fills-the-cell");
                }
                if outputs.len() != 1 {
                    ctx.out.oracle_fail("cellbase-output-count", &format!("block {} outputs={}", number, outputs.len()));
                } else if outputs[0].lock() != want_lock {
                    ctx.out.oracle_fail("cellbase-lock-not-targets", &format!("block {} target {}", number, t));
                } else if tb_lock_differs {
                    ctx.out.count("attached-block-pays-a-lock-other-than-its-own-miners");
                }
                if got != spec_total {
                    let class = if t == 1 && got < spec_total && got + proposer >= spec_total { "block1-proposer-share-unpaid" } else { "cellbase-capacity-not-reward" };
                    ctx.out.oracle_fail(class, &format!("block {} target {} cellbase={} spec={} (primary={} secondary={} committer={} proposer={})", number, t, got, spec_total, primary, secondary, committer, proposer));
                }
            }
            ctx.out.count("attached-block-with-finalisation-target");
            if proposer > 0 {
                ctx.out.count("attached-block-pays-proposer-share");
            }
            if committer > 0 {
                ctx.out.count("attached-block-pays-committer-share");
            }
            if secondary > 0 {
                ctx.out.count("attached-block-pays-secondary");
            }
        }
        ctx.out.count("attached-block-compared");
        self.blocks.get_mut(&label).unwrap().compared = true;
    }

    fn cleanup(&mut self) {
        self.builder.cleanup();
        let _ = std::fs::remove_dir_all(&self.base);
    }

    /// write the buffered lines (ops + the implementation's answers) and stop the node
    fn finish(mut self, ctx: &mut Ctx) {
        let mut fp: u64 = 0xcbf29ce484222325;
        let mut accepted = 0;
        for l in self.lines.drain(..) {
            // the node never verified this block (a side branch that was not continued: only in
            // cut-down replays): there is no verdict / ext row to compare, the line is left out
            let Some(imp) = l.imp else {
                ctx.out.count("lines-of-never-verified-side-blocks-left-out");
                continue;
            };
            for b in imp.bytes() {
                fp = (fp ^ b as u64).wrapping_mul(0x100000001b3);
            }
            if l.op.starts_with("blk ") {
                accepted += 1;
            }
            let kind = l.op.split(' ').next().unwrap_or("").to_string();
            ctx.out.count(&format!("{}:{}", kind, imp.split(' ').next().unwrap_or("")));
            ctx.out.op(&l.op, &imp);
        }
        if accepted > 2 {
            ctx.out.nontrivial(format!("{:016x}", fp));
        }
        let Scn { node, mut builder, base, .. } = self;
        if let Some(n) = node {
            n.stop();
        }
        builder.cleanup();
        drop(builder);
        let _ = std::fs::remove_dir_all(&base);
    }
}

// ---------------------------------------------------------------------------------------- generator

#[derive(Clone, Debug)]
struct GTx {
    label: u64,
    parents: Vec<u64>,
    proposed_at: Vec<u64>,
    committed: bool,
}

#[derive(Clone, Debug)]
struct GCell {
    r: CellRef,
    lb: u64,
    parent_tx: Option<u64>,
}

#[derive(Clone, Debug)]
struct GState {
    tip: u64,
    number: u64,
    /// block label by number on this branch
    path: Vec<u64>,
    avail: Vec<GCell>,
    pending: Vec<GTx>,
    committed: HashSet<u64>,
    used_uncle_slots: HashSet<(u64, u64)>,
}

fn gen_fee(rng: &mut Rng, max: u64) -> u64 {
    let f = match rng.below(14) {
        0 => 0,
        1 => 1,
        2 => 2,
        3 => 3,
        4 => 9,
        5 => 10,
        6 => 11,
        7 => 99 + rng.below(3),
        8 => rng.below(10_000),
        9 => rng.below(1_000_000_000),
        10 => max,
        11 => rng.below(max.max(1)),
        _ => rng.below(100_000),
    };
    f.min(max)
}

/// the scenario lines of one case
fn gen_scenario(rng: &mut Rng, thorough: bool) -> Vec<String> {
    let close = rng.range(1, 3);
    let far = close + rng.range(0, 4);
    let (numer, denom) = match rng.below(8) {
        0 => (1, 3),
        1 => (10, 10),
        2 => (0, 5),
        3 => (3, 7),
        _ => (4, 10),
    };
    let epoch_len = *rng.pick(&[3u64, 4, 5, 6, 7, 9, 11, 13]);
    let ser = match rng.below(8) {
        0 => 0,
        1 => 1,
        2 => epoch_len - 1,
        3 => epoch_len + 1,
        4 => rng.below(100_000_000_000_000),
        _ => 61_369_863_013_698,
    };
    let genesis_cells = 12 + rng.below(10);
    let mut lines = vec![format!("node {} {} {} {} {} {} {}", close, far, numer, denom, ser, epoch_len, genesis_cells)];
    let delay = far + 1;
    let len = delay + far + 3 + rng.below(if thorough { 3 * far + 12 } else { 2 * far + 8 });
    let mut st = GState {
        tip: 0,
        number: 0,
        path: vec![0],
        avail: (0..genesis_cells as usize).map(|i| GCell { r: CellRef::G(i), lb: 5_000_000_000_000, parent_tx: None }).collect(),
        pending: vec![],
        committed: HashSet::new(),
        used_uncle_slots: HashSet::new(),
    };
    let mut snaps: HashMap<u64, GState> = HashMap::new();
    snaps.insert(0, st.clone());
    let mut next_tx = 1u64;
    let mut next_blk = 1u64;
    // distinct miners: every block names its miner lock; the blocks of a fork are mined by other
    // miners than the blocks they compete with, forks can be longer than the finalisation delay (the
    // target of a side-branch block is then ON the side branch), and one branch may be mined with
    // lock args so long that the finalised reward cannot fill the reward cell (on that branch only)
    let multi = rng.chance(2, 3);
    let mut forks_left = if multi { 1 + rng.below(2) } else if rng.chance(1, 2) { 1 + rng.below(2) } else { 0 };
    let mut produced = 0;
    // blocks still to build on a fork before it overtakes the old branch
    let mut fork_todo = 0u64;
    let mut branch = 0u64;
    let mut huge_len: Option<u64> = None;
    let mut huge_blocks: HashSet<u64> = HashSet::new();
    while produced < len || fork_todo > 0 {
        // fork: go back k blocks, build k+1 blocks there
        if fork_todo == 0 && forks_left > 0 && st.number >= 3 && rng.chance(1, if multi { 5 } else { 8 }) {
            let kmax = if multi && rng.chance(1, 2) { (delay + 1).min(st.number - 1) } else { 3.min(st.number - 1) };
            let k = rng.range(1, kmax);
            let anc = st.path[(st.number - k) as usize];
            st = snaps[&anc].clone();
            fork_todo = k + 1;
            forks_left -= 1;
            branch += 1;
            huge_len = if multi && epoch_len >= 5 && rng.chance(1, 2) {
                Some(((1_917_808 / epoch_len) * *rng.pick(&[90u64, 99, 100, 101, 110, 140]) / 100).min(450_000))
            } else {
                None
            };
        }
        let n = st.number + 1;
        // new transactions
        for _ in 0..rng.below(4) {
            if st.avail.is_empty() {
                break;
            }
            let n_in = 1 + rng.below(2).min(st.avail.len() as u64 - 1);
            let mut ins = vec![];
            for _ in 0..n_in {
                let i = rng.below(st.avail.len() as u64) as usize;
                ins.push(st.avail.swap_remove(i));
            }
            let total: u64 = ins.iter().map(|c| c.lb).sum();
            let max_out = (total / 4_900_000_000).min(3);
            if max_out == 0 {
                // dust: leave these cells alone for good
                continue;
            }
            let n_out = rng.range(1, max_out);
            let room = total - n_out * 4_900_000_000;
            let fee = gen_fee(rng, room.min(2_000_000_000_000));
            let label = next_tx;
            next_tx += 1;
            lines.push(format!("tx {} {} {} {}", label, ins.iter().map(|c| fmt_cellref(&c.r)).collect::<Vec<_>>().join(","), n_out, fee));
            let each = (total - fee) / n_out;
            for k in 0..n_out {
                st.avail.push(GCell { r: CellRef::T(label, k as u32), lb: each, parent_tx: Some(label) });
            }
            st.pending.push(GTx { label, parents: ins.iter().filter_map(|c| c.parent_tx).collect(), proposed_at: vec![], committed: false });
        }
        // proposals (block and uncles)
        let mut props = vec![];
        let mut uprops: Vec<Vec<u64>> = vec![vec![], vec![]];
        // uncle candidates: main-chain blocks m in the same epoch as n, 1 <= m < n
        let epoch_start = (n / epoch_len) * epoch_len;
        let lo = epoch_start.max(1);
        let can_uncle = n >= 2 && lo < n;
        for t in st.pending.iter_mut() {
            if t.committed {
                continue;
            }
            let fresh = t.proposed_at.is_empty();
            let go = if fresh { rng.chance(3, 4) } else { rng.chance(1, 4) };
            if !go {
                continue;
            }
            if can_uncle && rng.chance(1, 3) {
                uprops[rng.below(2) as usize].push(t.label);
                if rng.chance(1, 6) {
                    props.push(t.label);
                }
            } else {
                props.push(t.label);
            }
            t.proposed_at.push(n);
        }
        let mut uncle_labels = vec![];
        for up in uprops.iter() {
            if up.is_empty() && !(can_uncle && rng.chance(1, 10)) {
                continue;
            }
            // a free (number, dt) slot
            let m = rng.range(lo, n - 1);
            let mut dt = 1 + rng.below(5);
            while st.used_uncle_slots.contains(&(st.path[m as usize], dt)) {
                dt += 1;
            }
            st.used_uncle_slots.insert((st.path[m as usize], dt));
            let ul = next_blk;
            next_blk += 1;
            lines.push(format!("ub {} {} {} {}", ul, st.path[m as usize], dt, fmt_nums(up)));
            uncle_labels.push(ul);
        }
        // commits: in window, parents committed
        let mut commits = vec![];
        let mut now: HashSet<u64> = HashSet::new();
        for t in st.pending.iter_mut() {
            if t.committed {
                continue;
            }
            let in_window = t.proposed_at.iter().any(|p| *p + close <= n && n <= *p + far);
            if !in_window || !t.parents.iter().all(|p| st.committed.contains(p) || now.contains(p)) {
                continue;
            }
            let last_chance = t.proposed_at.iter().all(|p| *p + far <= n);
            if rng.chance(if last_chance { 3 } else { 2 }, 4) {
                commits.push(t.label);
                now.insert(t.label);
                t.committed = true;
            }
        }
        for l in &now {
            st.committed.insert(*l);
        }
        // outputs of uncommitted txs can be spent by new txs (chained), of committed ones too: nothing to move
        let label = next_blk;
        next_blk += 1;
        if multi {
            let lock = match huge_len {
                // (a block carries its own witness lock and, in its reward output, the target's lock:
                // both long would exceed the block size limit)
                Some(l) if rng.chance(1, 2) && !(n > delay && huge_blocks.contains(&st.path[(n - delay) as usize])) => {
                    huge_blocks.insert(label);
                    format!("a{}.{}", l, 900 + branch)
                }
                _ => format!("a{}.{}", *rng.pick(&[0u64, 1, 20, 32, 33, 100]), 1 + branch * 8 + rng.below(3)),
            };
            lines.push(format!("nb {} {} {} {} {} {} {}", label, st.tip, label, fmt_nums(&commits), fmt_nums(&props), fmt_nums(&uncle_labels), lock));
        } else {
            lines.push(format!("nb {} {} {} {} {} {}", label, st.tip, label, fmt_nums(&commits), fmt_nums(&props), fmt_nums(&uncle_labels)));
        }
        st.tip = label;
        st.number = n;
        st.path.push(label);
        if n > delay && !huge_blocks.contains(&st.path[(n - delay) as usize]) && rng.chance(1, 3) {
            st.avail.push(GCell { r: CellRef::C(label), lb: 10_000_000_000_000, parent_tx: None });
        }
        st.pending.retain(|t| !t.committed);
        snaps.insert(label, st.clone());
        produced += 1;
        if rng.chance(1, 60) {
            lines.push("restart".to_string());
        }
        if fork_todo > 0 {
            fork_todo -= 1;
        }
    }
    lines
}

/// smallest fee whose committer share (`fee − floor(fee·numer/denom)`) is `x` (None when the ratio is 1)
fn fee_with_committer_share(x: u64, numer: u64, denom: u64) -> Option<u64> {
    if numer >= denom {
        return None;
    }
    // f − floor(f·r) = x has its solutions next to x / (1 − r)
    let guess = (x as u128 * denom as u128 / (denom - numer) as u128) as u64;
    (guess.saturating_sub(denom + 1)..=guess + denom + 1).find(|f| f - (*f as u128 * numer as u128 / denom as u128) as u64 == x)
}

/// A LINEAR scenario around RewardVerifier's "insufficient reward to create a cell" boundary: a
/// tiny primary epoch reward (the per-block reward sits at / just below the occupied capacity of a
/// cell locked with a `focus`-byte-args lock), a distinct miner lock per block (args of 0 / 20 /
/// 200 bytes, so the threshold moves), small fees that lift single rewards over the threshold.
fn gen_scenario_linear(rng: &mut Rng, _thorough: bool) -> Vec<String> {
    let close = rng.range(1, 2);
    let far = close + rng.range(0, 3);
    let (numer, denom) = match rng.below(6) {
        0 => (1, 3),
        1 => (0, 5),
        2 => (3, 7),
        _ => (4, 10),
    };
    let epoch_len = *rng.pick(&[3u64, 4, 5, 7]);
    let focus = *rng.pick(&[0u64, 20, 20, 200]);
    let occ = (41 + focus) * 100_000_000;
    // per-block primary reward: base = per / len, the first per % len blocks of an epoch get +1
    let mode = rng.below(8);
    let (per, gap) = match mode {
        // base = occ − 1, a few blocks per epoch reach occ exactly
        0 | 1 => (epoch_len * occ - rng.range(1, epoch_len - 1), 1),
        // base = occ − d: only fees can lift a reward to the threshold
        2 | 3 | 4 => {
            let d = rng.range(1, 8);
            (epoch_len * (occ - d) + rng.below(2), d)
        }
        // nothing ever fills a cell (the 1000-shannon chain)
        5 => (epoch_len * rng.range(1, 2000), occ),
        // base = occ: everything with the focus lock is paid, longer locks are not
        6 => (epoch_len * occ + rng.below(epoch_len), 0),
        // comfortably above the longest lock: every block is paid, to distinct locks
        _ => (epoch_len * (241 * 100_000_000 + rng.below(1_000_000)), 0),
    };
    let ser = match rng.below(10) {
        0 | 1 | 2 | 3 => 0,
        4 => 1,
        5 => epoch_len + 1,
        // miner share floor(g2·U/C) of a few shannons (U/C is about 1/800 on this genesis)
        6 | 7 => epoch_len * rng.range(500, 8000),
        8 => rng.below(100_000_000_000),
        _ => 61_369_863_013_698,
    };
    let genesis_cells = 10 + rng.below(6);
    let mut lines = vec![format!("node {} {} {} {} {} {} {} {}", close, far, numer, denom, ser, epoch_len, genesis_cells, per)];
    let delay = far + 1;
    let len = delay + far + 3 + rng.below(2 * far + 7);
    let mut avail: Vec<GCell> = (0..genesis_cells as usize).map(|i| GCell { r: CellRef::G(i), lb: 5_000_000_000_000, parent_tx: None }).collect();
    let mut pending: Vec<GTx> = vec![];
    let mut committed: HashSet<u64> = HashSet::new();
    let mut used_uncle_slots: HashSet<(u64, u64)> = HashSet::new();
    let mut path: Vec<u64> = vec![0];
    let mut next_tx = 1u64;
    let mut next_blk = 1u64;
    let mut tip = 0u64;
    for n in 1..=len {
        // new transactions with fees whose shares sit around the gap
        for _ in 0..rng.below(3) {
            if avail.is_empty() {
                break;
            }
            let i = rng.below(avail.len() as u64) as usize;
            let cell = avail.swap_remove(i);
            let max_out = (cell.lb / 4_900_000_000).min(2);
            if max_out == 0 {
                continue;
            }
            let n_out = rng.range(1, max_out);
            let want = match rng.below(7) {
                0 => gap.saturating_sub(1),
                1 | 2 => gap,
                3 => gap + 1,
                4 => rng.below(2 * gap.min(1000) + 3),
                5 if gap > 1_000_000 => rng.below(5000),
                _ => 0,
            };
            // aimed at the committer share, or at the proposer share, or the fee itself
            let fee = match rng.below(3) {
                0 => fee_with_committer_share(want, numer, denom).unwrap_or(want),
                1 if numer > 0 => (want * denom).div_ceil(numer),
                _ => want,
            }
            .min(1_000_000_000);
            let label = next_tx;
            next_tx += 1;
            lines.push(format!("tx {} {} {} {}", label, fmt_cellref(&cell.r), n_out, fee));
            let each = (cell.lb - fee) / n_out;
            for k in 0..n_out {
                avail.push(GCell { r: CellRef::T(label, k as u32), lb: each, parent_tx: Some(label) });
            }
            pending.push(GTx { label, parents: cell.parent_tx.into_iter().collect(), proposed_at: vec![], committed: false });
        }
        let mut props = vec![];
        let mut uprops: Vec<u64> = vec![];
        let epoch_start = (n / epoch_len) * epoch_len;
        let lo = epoch_start.max(1);
        let can_uncle = n >= 2 && lo < n;
        // block 1 proposes nothing (its proposer share is the recorded block-1 exception)
        if n >= 2 {
            for t in pending.iter_mut() {
                if t.committed {
                    continue;
                }
                let go = if t.proposed_at.is_empty() { rng.chance(3, 4) } else { rng.chance(1, 5) };
                if !go {
                    continue;
                }
                if can_uncle && rng.chance(1, 4) {
                    uprops.push(t.label);
                } else {
                    props.push(t.label);
                }
                t.proposed_at.push(n);
            }
        }
        let mut uncle_labels = vec![];
        if !uprops.is_empty() {
            let m = rng.range(lo, n - 1);
            let mut dt = 1 + rng.below(5);
            while used_uncle_slots.contains(&(path[m as usize], dt)) {
                dt += 1;
            }
            used_uncle_slots.insert((path[m as usize], dt));
            let ul = next_blk;
            next_blk += 1;
            lines.push(format!("ub {} {} {} {}", ul, path[m as usize], dt, fmt_nums(&uprops)));
            uncle_labels.push(ul);
        }
        let mut commits = vec![];
        let mut now: HashSet<u64> = HashSet::new();
        for t in pending.iter_mut() {
            if t.committed {
                continue;
            }
            let in_window = t.proposed_at.iter().any(|p| *p + close <= n && n <= *p + far);
            if !in_window || !t.parents.iter().all(|p| committed.contains(p) || now.contains(p)) {
                continue;
            }
            if rng.chance(3, 4) {
                commits.push(t.label);
                now.insert(t.label);
                t.committed = true;
            }
        }
        committed.extend(now.iter().copied());
        pending.retain(|t| !t.committed);
        // the miner's lock: args of the focus length most of the time, a small pool of ids so that
        // some locks repeat, `x` kinds with a code hash of their own
        let l = if rng.chance(3, 5) { focus } else { *rng.pick(&[0u64, 20, 200]) };
        let kind = if rng.chance(1, 3) { "x" } else { "a" };
        let id = if rng.chance(1, 4) { rng.below(3) } else { 10 + n };
        let label = next_blk;
        next_blk += 1;
        lines.push(format!("nb {} {} {} {} {} {} {}{}.{}", label, tip, label, fmt_nums(&commits), fmt_nums(&props), fmt_nums(&uncle_labels), kind, l, id));
        tip = label;
        path.push(label);
        if rng.chance(1, 50) {
            lines.push("restart".to_string());
        }
    }
    lines
}

/// A NervosDAO scenario: 2-block epochs (the script's lock period is 180 epochs), deposits in the
/// first blocks, phase-1 transactions later, phase-2 withdrawals once `deposit epoch + 180` is
/// reached; the real DAO script and DaoCalculator verify them inside the node.
fn gen_scenario_dao(rng: &mut Rng, thorough: bool) -> Vec<String> {
    let close = rng.range(1, 2);
    let far = close + rng.range(0, 2);
    let epoch_len = 2u64;
    let (r1, r2) = (1 + rng.below(1_000_000_000_000_000), 100_000_000_000 + rng.below(1_000_000_000_000));
    let ser = *rng.pick(&[61_369_863_013_698u64, 61_369_863_013_698, 1_000_000_000_000, 10_000_000_000, r1]);
    let per = *rng.pick(&[191_780_800_000_000u64, 19_178_080_000_000, r2]);
    let genesis_cells = 8;
    let mut lines = vec![format!("node {} {} 4 10 {} {} {} {} dao", close, far, ser, epoch_len, genesis_cells, per)];
    let n_dep = if thorough { rng.range(1, 3) } else { rng.range(1, 2) };
    // plan: deposit k proposed at block pd, committed at pd + close; prepare proposed at pp ...
    struct D {
        dep: u64,
        prep: u64,
        wd: u64,
        dep_prop: u64,
        prep_prop: u64,
        wd_commit: u64,
    }
    let mut next_tx = 1u64;
    let mut ds: Vec<D> = vec![];
    for k in 0..n_dep {
        let dep_prop = 2 + rng.below(4);
        let dep_commit = dep_prop + close;
        let prep_prop = dep_commit + 1 + *rng.pick(&[0u64, 1, 2, 5, 40, 300]).min(&(340 - dep_commit));
        let prep_commit = prep_prop + close;
        // deposit block d (epoch d/2, index d%2): the since epoch is reached at block d + 360
        let wd_commit = (dep_commit + 360).max(prep_commit + close + 1) + rng.below(3);
        let _ = k;
        ds.push(D { dep: next_tx, prep: next_tx + 1, wd: next_tx + 2, dep_prop, prep_prop, wd_commit });
        next_tx += 3;
    }
    let len = ds.iter().map(|d| d.wd_commit).max().unwrap() + far + 2;
    let mut tip = 0u64;
    let mut next_blk = 1u64;
    let mut gcell = 0usize;
    let mut plain_pending: Vec<(u64, u64)> = vec![]; // (label, proposed at)
    for n in 1..=len {
        let mut props = vec![];
        let mut commits = vec![];
        for (k, d) in ds.iter().enumerate() {
            if n == d.dep_prop {
                let cap = match rng.below(5) {
                    0 => 10_200_000_000 + rng.below(3),
                    1 => 100_000_000_000,
                    2 => 4_000_000_000_000,
                    _ => 10_200_000_000 + rng.below(4_000_000_000_000),
                };
                lines.push(format!("dtx {} dep g{} {} {}", d.dep, k, cap, rng.below(1000)));
                props.push(d.dep);
            }
            if n == d.dep_prop + close {
                commits.push(d.dep);
            }
            if n == d.prep_prop {
                lines.push(format!("dtx {} prep {} t{}.1 {}", d.prep, d.dep, d.dep, rng.below(1000)));
                props.push(d.prep);
            }
            if n == d.prep_prop + close {
                commits.push(d.prep);
            }
            if n + close == d.wd_commit {
                lines.push(format!("dtx {} wd {} {}", d.wd, d.prep, *rng.pick(&[0u64, 0, 1, 1000, 100_000_000])));
                props.push(d.wd);
            }
            if n == d.wd_commit {
                commits.push(d.wd);
            }
        }
        // a plain transaction now and then keeps U and the fees moving
        if n >= 2 && rng.chance(1, 40) && n_dep as usize + gcell < genesis_cells as usize {
            let label = next_tx;
            next_tx += 1;
            lines.push(format!("tx {} g{} 1 {}", label, n_dep as usize + gcell, rng.below(100_000)));
            gcell += 1;
            props.push(label);
            plain_pending.push((label, n));
        }
        plain_pending.retain(|(l, p)| {
            if n == *p + close {
                commits.push(*l);
                false
            } else {
                true
            }
        });
        let label = next_blk;
        next_blk += 1;
        lines.push(format!("nb {} {} {} {} {} - a{}.{}", label, tip, label, fmt_nums(&commits), fmt_nums(&props), *rng.pick(&[0u64, 20]), n % 5));
        tip = label;
        if rng.chance(1, 400) {
            lines.push("restart".to_string());
        }
    }
    lines
}

// ---------------------------------------------------------------------------------------------- run

fn run_scenario(lines: &[String], label: &str, opts: &Opts, ctx: &mut Ctx) {
    ctx.out.begin_case(label);
    let case_line = format!("case {} {}", ctx.out.case, label);
    let echo = ctx.model.ask(&case_line);
    assert_eq!(echo, case_line, "model must echo the case line");
    let mut scn: Option<Scn> = None;
    // the variant choices (which bits, which extra capacities) depend on the scenario lines only,
    // so a recorded case replays to the same blocks and answers
    let mut h: u64 = 0xcbf29ce484222325;
    for l in lines {
        if matches!(l.split(' ').next(), Some("node" | "tx" | "ub" | "nb" | "restart" | "dtx")) {
            for b in l.bytes() {
                h = (h ^ b as u64).wrapping_mul(0x100000001b3);
            }
        }
    }
    ctx.rng = Rng::new(h);
    for l in lines {
        let ts: Vec<&str> = l.split(' ').collect();
        match ts[0] {
            "node" => {
                assert!(scn.is_none(), "malformed: one `node` line per case");
                assert!(ts.len() == 8 || ts.len() == 9 || (ts.len() == 10 && ts[9] == "dao"), "malformed node line");
                let v: Vec<u64> = ts[1..ts.len().min(9)].iter().map(|x| x.parse().expect("number")).collect();
                assert!(v[0] >= 1 && v[0] <= v[1] && v[3] > 0 && v[2] <= v[3] && v[5] >= 2 && v[6] >= 1, "malformed node parameters");
                let cfg = ScnCfg { close: v[0], far: v[1], numer: v[2], denom: v[3], ser: v[4], epoch_len: v[5], genesis_cells: v[6], per: v.get(7).copied(), dao: ts.len() == 10 };
                assert!(cfg.per != Some(0), "malformed node parameters: primary epoch reward 0");
                scn = Some(Scn::start(cfg, &opts.out, ctx, l));
            }
            "tx" | "ub" | "nb" | "restart" | "dtx" => {
                let s = scn.as_mut().expect("malformed: `node` line first");
                if s.dead {
                    continue;
                }
                s.say(ctx, l, Some("ok".into()));
                let r = std::panic::catch_unwind(std::panic::AssertUnwindSafe(|| match ts[0] {
                    "tx" => s.exec_tx(&ts),
                    "dtx" => s.exec_dtx(&ts, ctx),
                    "ub" => s.exec_ub(&ts),
                    "restart" => s.exec_restart(ctx),
                    _ => s.exec_nb(&ts, ctx),
                }));
                if let Err(e) = r {
                    let msg = e.downcast_ref::<String>().cloned().or_else(|| e.downcast_ref::<&str>().map(|s| s.to_string())).unwrap_or_default();
                    eprintln!("C06 node: malformed scenario or harness failure on `{}`: {}", l, msg);
                    s.cleanup();
                    std::process::exit(3);
                }
            }
            // model lines of a recorded case are regenerated, not replayed
            "trunc" | "blk" | "reward" | "occupied" | "verify" | "fee" | "dao" | "daoverify" | "lock" | "cellbase" | "cbverify" | "withdraw" => {}
            other => {
                eprintln!("C06 node: malformed op {other}");
                std::process::exit(3);
            }
        }
    }
    if let Some(s) = scn {
        let (flips, cbs) = (s.flips, s.cellbase_spends);
        s.finish(ctx);
        *ctx.out.hist.entry("dao-bit-flips-submitted".into()).or_insert(0) += flips;
        *ctx.out.hist.entry("tx-inputs-spending-a-cellbase-output".into()).or_insert(0) += cbs;
    }
}

pub fn run(opts: &Opts) {
    let mut out = Out::new(&opts.out);
    let mut model = Model::spawn();
    {
        let mut ctx = Ctx { out: &mut out, model: &mut model, rng: Rng::new(opts.seed ^ 0x6e6f6465), thorough: opts.thorough() };
        if let Some(path) = &opts.replay {
            let lines: Vec<String> = read_replay_ops(path).into_iter().filter(|l| !l.starts_with("case ")).collect();
            // a file may hold several scenarios: each starts with its `node` line
            let mut cur: Vec<String> = vec![];
            let mut k = 0;
            for l in lines {
                if l.starts_with("node ") && !cur.is_empty() {
                    k += 1;
                    run_scenario(&cur, &format!("replay-{}", k), opts, &mut ctx);
                    cur.clear();
                }
                cur.push(l);
            }
            if !cur.is_empty() {
                k += 1;
                run_scenario(&cur, &format!("replay-{}", k), opts, &mut ctx);
            }
        } else {
            let mut rng = Rng::new(opts.seed);
            let cases = (if opts.thorough() { 700 } else { 90 }) * opts.scale.max(1);
            for k in 0..cases {
                // one NervosDAO scenario (about 370 blocks) per 45 cases, linear "insufficient
                // reward / miner locks" scenarios for a third of the rest
                let (lines, label) = if k % 45 == 7 {
                    (gen_scenario_dao(&mut rng, opts.thorough()), "node-dao")
                } else if k % 3 == 1 {
                    (gen_scenario_linear(&mut rng, opts.thorough()), "node-linear")
                } else {
                    (gen_scenario(&mut rng, opts.thorough()), "node")
                };
                run_scenario(&lines, label, opts, &mut ctx);
            }
        }
    }
    out.extra.insert("model_answers_used_interactively".into(), model.asked.into());
    model.stop();
    out.finish("a case (one node scenario) is non-trivial when more than two model-valued blocks were accepted by the real node; distinctness is by the hash of the implementation's answer sequence");
}
