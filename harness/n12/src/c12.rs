//! C12 — after any reorg the pool agrees with the new chain: no stale, dead or lost txs.
//!
//! A real node with tx-pool service and block assembler (mine mode) is driven through random
//! histories: submissions (chains, joins, conflicts, header-dep txs), blocks mined from the node's
//! own templates, competing ChainBuilder branches (proposing / committing pool txs and conflicting
//! txs, reorgs of depth 1..w_far+2) and clock jumps (expiry). After every chain change the harness
//! waits until the pool has processed the notification (`get_tx_pool_info().tip_hash == tip`; the
//! pool's snapshot is swapped under the same write lock that does the whole update and the re-adds)
//! and evaluates the property on the implementation alone; the part of the update that is a pure
//! function of (pool before, attached txs, detached headers, detached proposals, new window) is
//! also sent to the model (`_update_tx_pool_for_reorg` on the pre-existing entries).
//!
//! Op lines:
//!   cfg <epoch_len> <w_close> <w_far> <ba_interval_ms> <expiry_hours> <max_ancestors>      -> ok
//!   submit <tid> <t.i,..> <n_out> <fee> <hdep depth|->                                     -> ok
//!   time <ms>               advance the (fake) clock                                        -> ok
//!   mine                    template -> block -> process; emits the reorg lines             -> ok
//!   fork <back> <extra> <nprop> <ncommit>   ChainBuilder branch, processed block by block;
//!                           the reorg lines are emitted for the block that switches the chain -> ok
//!   derived (ignored on replay, regenerated):
//!     rpool                                                  -> ok
//!     rent <id> <status 0 pending|1 gap|2 proposed> <spent outpoints> <dep outpoints> <header ids> <descendants>  -> ok
//!     ratt <id> <spent outpoints>                            -> ok   (attached txs, block order)
//!     rargs <detached header ids> <detached proposal ids> <gap ids> <proposed ids>   -> ok
//!     rafter                -> <id>:<status>,... of the PRE-EXISTING entries still pooled, sorted
//!   (outpoint code = tid*16+idx, genesis cell k = k; header id = index in the harness's block table)
//!
//! Oracle classes: `committed-in-pool`, `dead-or-unknown-input`, `double-spend-in-pool`,
//! `detached-header-dep`, `lost-tx` (committed only on the abandoned branch, admissible, not back),
//! `stage-mismatch` (status vs proposal window). Sub-classes that name the cause found on the
//! unchanged tree: `input-of-expired-parent` (F5: remove_expired dropped the parent only),
//! `input-of-detached-parent-not-readmitted` (the parent was committed on the abandoned branch and
//! could not be re-admitted; nothing evicts its pooled descendants), `stage-gap-outside-window`
//! (a gap entry whose proposal was in the gap part of the abandoned branch stays gap).
use crate::common::*;
use crate::node::*;
use ckb_app_config::{BlockAssemblerConfig, NetworkConfig, TxPoolConfig};
use ckb_chain::ChainServiceScope;
use ckb_chain_spec::consensus::Consensus;
use ckb_jsonrpc_types::ScriptHashType;
use ckb_network::{Flags, NetworkController, NetworkService, NetworkState, network::TransportType};
use ckb_shared::{Shared, SharedBuilder};
use ckb_store::ChainStore;
use ckb_tx_pool::verif::Status;
use ckb_types::core::{BlockView, Capacity, TransactionView};
use ckb_types::h256;
use ckb_types::packed::{self, Byte32, OutPoint, ProposalShortId};
use ckb_types::prelude::*;
use std::collections::{BTreeMap, HashMap, HashSet};
use std::path::{Path, PathBuf};
use std::sync::Arc;
use std::time::{Duration, Instant};

pub struct PNode {
    pub shared: Shared,
    chain: Option<ChainServiceScope>,
    _network: NetworkController,
}

fn dummy_network(shared: &Shared, dir: &Path) -> NetworkController {
    let config = NetworkConfig {
        max_peers: 19,
        max_outbound_peers: 5,
        path: dir.join("network"),
        ping_interval_secs: 15,
        ping_timeout_secs: 20,
        connect_outbound_interval_secs: 1,
        discovery_local_address: true,
        bootnode_mode: true,
        reuse_port_on_linux: true,
        ..Default::default()
    };
    let network_state = Arc::new(NetworkState::from_config(config).expect("Init network state failed"));
    NetworkService::new(network_state, vec![], vec![], (shared.consensus().identify_name(), "test".to_string(), Flags::COMPATIBILITY), TransportType::Tcp)
        .start(shared.async_handle())
        .expect("Start network service failed")
}

impl PNode {
    pub fn start(dir: &Path, consensus: Consensus, tx_pool: TxPoolConfig, interval_ms: u64) -> PNode {
        std::fs::create_dir_all(dir.join("header_map")).unwrap();
        let db_config = ckb_app_config::DBConfig { path: dir.join("db"), ..Default::default() };
        let builder = SharedBuilder::new("verif", dir, &db_config, None, runtime_handle(), consensus)
            .unwrap_or_else(|e| panic!("SharedBuilder::new failed: {e:?}"))
            .header_map_tmp_dir(Some(dir.join("header_map")))
            .tx_pool_config(tx_pool);
        let ba = BlockAssemblerConfig {
            code_hash: h256!("0x0"),
            args: Default::default(),
            hash_type: ScriptHashType::Data,
            message: Default::default(),
            use_binary_version_as_message_prefix: false,
            binary_version: "TEST".to_string(),
            update_interval_millis: interval_ms,
            notify: vec![],
            notify_scripts: vec![],
            notify_timeout_millis: 800,
        };
        let (shared, mut pack) = builder.block_assembler_config(Some(ba)).build().unwrap_or_else(|e| panic!("SharedBuilder::build failed: {e:?}"));
        let n = dummy_network(&shared, dir);
        pack.take_tx_pool_builder().start(n.clone());
        let chain = ChainServiceScope::new(pack.take_chain_services_builder());
        PNode { shared, chain: Some(chain), _network: n }
    }
    pub fn process(&self, block: &BlockView) -> Result<bool, String> {
        self.chain.as_ref().unwrap().chain_controller().blocking_process_block(Arc::new(block.clone())).map_err(|e| e.to_string())
    }
    pub fn tip_hash(&self) -> Byte32 {
        self.shared.snapshot().tip_hash()
    }
    pub fn stop(mut self) {
        self.chain.take();
    }
}

#[derive(Clone, Debug)]
struct Cfg {
    epoch_len: u64,
    w_close: u64,
    w_far: u64,
    interval_ms: u64,
    expiry_hours: u64,
    max_ancestors: u64,
}

/// what the pool held at some moment (from the verif dump)
#[derive(Clone)]
struct PEnt {
    tid: usize,
    status: u8,
    spent: Vec<u64>,
    deps: Vec<u64>,
    hdeps: Vec<usize>,
    desc: Vec<usize>,
    timestamp: u64,
}

struct World {
    dir: PathBuf,
    cfg: Cfg,
    consensus: Consensus,
    main: PNode,
    builder: ChainBuilder,
    txs: Vec<TransactionView>,
    tid_by_short: HashMap<ProposalShortId, usize>,
    tid_by_hash: HashMap<Byte32, usize>,
    gcells: Vec<(OutPoint, u64)>,
    block_ids: HashMap<Byte32, usize>,
    salt: u64,
    /// txs that were committed on a detached block (and not on the attached ones) at some reorg
    ever_detached: HashSet<usize>,
    /// txs dropped by remove_expired
    expired_removed: HashSet<usize>,
    clock: u64,
    guard: ckb_systemtime::FaketimeGuard,
}

fn cap_of(tx: &TransactionView, i: usize) -> u64 {
    let c: Capacity = tx.outputs().get(i).expect("output index").capacity().unpack();
    c.as_u64()
}

fn list<T: ToString + Ord>(mut v: Vec<T>) -> String {
    v.sort();
    if v.is_empty() { "-".into() } else { v.iter().map(|x| x.to_string()).collect::<Vec<_>>().join(",") }
}

impl World {
    fn new(base: &Path, case: u64, cfg: Cfg) -> World {
        let dir = base.join(format!("case-{case}"));
        let _ = std::fs::remove_dir_all(&dir);
        std::fs::create_dir_all(&dir).unwrap();
        let ncfg = NodeCfg { epoch_len: cfg.epoch_len, window: (cfg.w_close, cfg.w_far), genesis_cells: 24, maturity_epochs: 0, with_pool: false, tx_pool: None };
        let consensus = make_consensus(&ncfg);
        let guard = ckb_systemtime::faketime();
        let clock = std::time::SystemTime::now().duration_since(std::time::UNIX_EPOCH).unwrap().as_millis() as u64;
        guard.set_faketime(clock);
        let mut tp = TxPoolConfig::default();
        tp.max_ancestors_count = cfg.max_ancestors as usize;
        tp.expiry_hours = cfg.expiry_hours as u8;
        let main = PNode::start(&dir.join("main"), consensus.clone(), tp, cfg.interval_ms);
        let builder = ChainBuilder::new(consensus.clone(), &dir.join("builder"));
        let gcells = genesis_cells(&consensus);
        let mut block_ids = HashMap::new();
        block_ids.insert(consensus.genesis_hash(), 0);
        World { dir, cfg, consensus, main, builder, txs: vec![], tid_by_short: HashMap::new(), tid_by_hash: HashMap::new(), gcells, block_ids, salt: 1000, ever_detached: HashSet::new(), expired_removed: HashSet::new(), clock, guard }
    }

    fn finish(self) {
        let World { dir, main, builder, guard, .. } = self;
        drop(builder);
        main.stop();
        drop(guard);
        let _ = std::fs::remove_dir_all(dir);
    }

    fn tpc(&self) -> &ckb_tx_pool::TxPoolController {
        self.main.shared.tx_pool_controller()
    }

    fn sync_pool(&self, out: &mut Out) {
        let t = Instant::now();
        loop {
            let tip = self.main.tip_hash();
            if let Ok(info) = self.tpc().get_tx_pool_info() {
                if info.tip_hash == tip {
                    break;
                }
            }
            if t.elapsed() > Duration::from_secs(20) {
                out.count("sync-timeout");
                break;
            }
            std::thread::sleep(Duration::from_millis(2));
        }
    }

    fn out_point(&self, t: usize, i: usize) -> (OutPoint, u64) {
        if t == 0 {
            self.gcells[i].clone()
        } else {
            let tx = &self.txs[t - 1];
            (OutPoint::new(tx.hash(), i as u32), cap_of(tx, i))
        }
    }

    fn op_code(&self, op: &OutPoint) -> u64 {
        let idx: u32 = op.index().unpack();
        match self.tid_by_hash.get(&op.tx_hash()) {
            Some(t) => *t as u64 * 16 + idx as u64,
            None => match self.gcells.iter().position(|(g, _)| g == op) {
                Some(k) => 2_000_000 + k as u64,
                None => 1_000_000, // the always-success code cell (cell dep of every tx), never spent
            },
        }
    }

    fn block_id(&mut self, h: &Byte32) -> usize {
        let n = self.block_ids.len();
        *self.block_ids.entry(h.clone()).or_insert(n)
    }

    fn main_chain(&self) -> Vec<Byte32> {
        let snap = self.main.shared.snapshot();
        (0..=snap.tip_number()).map(|n| snap.get_block_hash(n).expect("main hash")).collect()
    }

    fn dump(&mut self) -> Vec<PEnt> {
        let r = self
            .tpc()
            .verif_read(|pool| {
                let pm = pool.verif_pool_map();
                let d = pm.verif_dump();
                let desc: Vec<HashSet<ProposalShortId>> = d.entries.iter().map(|e| pm.verif_calc_descendants(&e.id)).collect();
                (d, desc)
            })
            .expect("verif_read");
        let (d, desc) = r;
        let hd: HashMap<ProposalShortId, Vec<Byte32>> = d.header_deps.iter().cloned().collect();
        let mut v = vec![];
        for (e, ds) in d.entries.iter().zip(desc.iter()) {
            let tid = *self.tid_by_short.get(&e.id).expect("known tx");
            let tx = e.entry.transaction().clone();
            let hdeps: Vec<usize> = hd.get(&e.id).cloned().unwrap_or_default().iter().map(|h| self.block_id(h)).collect();
            v.push(PEnt {
                tid,
                status: match e.status { Status::Pending => 0, Status::Gap => 1, Status::Proposed => 2 },
                spent: tx.input_pts_iter().map(|op| self.op_code(&op)).collect(),
                deps: tx.cell_deps_iter().map(|d| self.op_code(&d.out_point())).collect(),
                hdeps,
                desc: ds.iter().map(|x| *self.tid_by_short.get(x).expect("known")).collect(),
                timestamp: e.entry.timestamp,
            });
        }
        v
    }
}

/// one chain change: pool before, chain before, then the block(s); evaluates oracle + emits model lines
fn after_chain_change(w: &mut World, out: &mut Out, pre: &[PEnt], old_chain: &[Byte32], old_proposed: &HashSet<ProposalShortId>) {
    w.sync_pool(out);
    let new_chain = w.main_chain();
    let post = w.dump();
    let snap = w.main.shared.snapshot();
    let common = old_chain.iter().zip(new_chain.iter()).take_while(|(a, b)| a == b).count();
    let detached: Vec<Byte32> = old_chain[common..].to_vec();
    let attached: Vec<Byte32> = new_chain[common..].to_vec();
    if !detached.is_empty() {
        out.count(&format!("reorg-depth-{}", detached.len().min(9)));
    }
    let block = |h: &Byte32| -> BlockView { snap.get_block(h).expect("block in store") };
    let att_txs: Vec<TransactionView> = attached.iter().flat_map(|h| block(h).transactions().into_iter().skip(1)).collect();
    let det_txs: Vec<TransactionView> = detached.iter().flat_map(|h| block(h).transactions().into_iter().skip(1)).collect();
    let att_set: HashSet<Byte32> = att_txs.iter().map(|t| t.hash()).collect();
    let new_proposed: HashSet<ProposalShortId> = snap.proposals().set().clone();
    let new_gap: HashSet<ProposalShortId> = snap.proposals().gap().clone();
    let det_props: Vec<usize> = old_proposed.difference(&new_proposed).filter_map(|id| w.tid_by_short.get(id).cloned()).collect();
    // ---- model lines
    out.op("rpool", "ok");
    for e in pre {
        out.op(&format!("rent {} {} {} {} {} {}", e.tid, e.status, list(e.spent.clone()), list(e.deps.clone()), list(e.hdeps.clone()), list(e.desc.clone())), "ok");
    }
    for t in &att_txs {
        let tid = match w.tid_by_hash.get(&t.hash()) { Some(t) => *t, None => 0 };
        out.op(&format!("ratt {} {}", tid, list(t.input_pts_iter().map(|op| w.op_code(&op)).collect())), "ok");
    }
    let det_hdr: Vec<usize> = detached.iter().map(|h| w.block_id(h)).collect();
    let known = |s: &HashSet<ProposalShortId>| -> Vec<usize> { s.iter().filter_map(|id| w.tid_by_short.get(id).cloned()).collect() };
    out.op(&format!("rargs {} {} {} {}", list(det_hdr), list(det_props), list(known(&new_gap)), list(known(&new_proposed))), "ok");
    let pre_ids: HashSet<usize> = pre.iter().map(|e| e.tid).collect();
    let expiry_ms = w.cfg.expiry_hours * 3600 * 1000;
    let now = w.clock;
    let expired: HashSet<usize> = pre.iter().filter(|e| expiry_ms + e.timestamp < now).map(|e| e.tid).collect();
    let mut surv: Vec<(usize, u8)> = post.iter().filter(|e| pre_ids.contains(&e.tid)).map(|e| (e.tid, e.status)).collect();
    surv.sort();
    let expired_note = if expired.is_empty() { String::new() } else { format!(" expired={}", list(expired.iter().cloned().collect())) };
    // expired entries are dropped by remove_expired after the modelled part: tell the model which
    out.op(&format!("rafter {}", list(expired.iter().cloned().collect())), &format!("{}", if surv.is_empty() { "-".to_string() } else { surv.iter().map(|(t, s)| format!("{t}:{s}")).collect::<Vec<_>>().join(",") }));
    for t in det_txs.iter().filter(|t| !att_set.contains(&t.hash())) {
        if let Some(tid) = w.tid_by_hash.get(&t.hash()) {
            w.ever_detached.insert(*tid);
        }
    }
    if !expired.is_empty() {
        out.count("update-with-expired-entries");
        let still: HashSet<usize> = post.iter().map(|e| e.tid).collect();
        for t in &expired {
            if !still.contains(t) {
                w.expired_removed.insert(*t);
            }
        }
    }
    // ---- oracle on the implementation alone
    let suffix = "";
    let pooled: HashMap<usize, &PEnt> = post.iter().map(|e| (e.tid, e)).collect();
    let mut spent_by: HashMap<u64, usize> = HashMap::new();
    for e in &post {
        let tx = &w.txs[e.tid - 1];
        if snap.get_transaction_info(&tx.hash()).is_some() {
            out.oracle_fail(&format!("committed-in-pool{suffix}"), &format!("tx{} is committed on the new main chain{}", e.tid, expired_note));
        }
        for op in tx.input_pts_iter() {
            let code = w.op_code(&op);
            if let Some(other) = spent_by.insert(code, e.tid) {
                out.oracle_fail(&format!("double-spend-in-pool{suffix}"), &format!("tx{} and tx{} spend {}", other, e.tid, code));
            }
            let src = w.tid_by_hash.get(&op.tx_hash()).cloned();
            let in_pool = src.map_or(false, |t| pooled.contains_key(&t));
            if !in_pool && !snap.have_cell(&op) {
                // the producing tx was committed on an abandoned branch and could not be re-admitted
                let orphaned = src.map_or(false, |t| w.ever_detached.contains(&t) && snap.get_transaction_info(&w.txs[t - 1].hash()).is_none());
                let by_expiry = src.map_or(false, |t| w.expired_removed.contains(&t));
                let cls = if by_expiry { "input-of-expired-parent" } else if orphaned { "input-of-detached-parent-not-readmitted" } else { "dead-or-unknown-input" };
                out.oracle_fail(&format!("{cls}{suffix}"), &format!("tx{} input {} (tx{:?}) is neither live on the new chain nor an output of a pooled tx{}", e.tid, code, src, expired_note));
            }
        }
        for h in tx.header_deps_iter() {
            if !snap.is_main_chain(&h) {
                out.oracle_fail(&format!("detached-header-dep{suffix}"), &format!("tx{} header dep not on the main chain", e.tid));
            }
        }
        let id = tx.proposal_short_id();
        let want = if new_proposed.contains(&id) { 2 } else if new_gap.contains(&id) { 1 } else { 0 };
        if e.status != want {
            let cls = if e.status == 1 && want == 0 { "stage-gap-outside-window" } else { "stage-mismatch" };
            out.oracle_fail(&format!("{cls}{suffix}"), &format!("tx{} status {} but window says {} (0 pending 1 gap 2 proposed){}", e.tid, e.status, want, expired_note));
        }
    }
    // lost txs: committed only on the abandoned branch, still admissible -> must be back
    let mut have: HashSet<usize> = post.iter().map(|e| e.tid).collect();
    let mut pool_spent: HashSet<u64> = spent_by.keys().cloned().collect();
    for t in det_txs.iter().filter(|t| !att_set.contains(&t.hash())) {
        let tid = match w.tid_by_hash.get(&t.hash()) { Some(t) => *t, None => continue };
        out.count("detached-only-tx");
        if have.contains(&tid) {
            out.count("detached-only-tx-back");
            continue;
        }
        let resolvable = t.input_pts_iter().all(|op| {
            let src = w.tid_by_hash.get(&op.tx_hash()).cloned();
            snap.have_cell(&op) || src.map_or(false, |s| have.contains(&s))
        });
        let conflict = t.input_pts_iter().any(|op| pool_spent.contains(&w.op_code(&op)));
        let hdr_ok = t.header_deps_iter().all(|h| snap.is_main_chain(&h));
        // ancestor policy: 1 + number of pooled ancestors must not exceed max_ancestors_count
        let mut anc: HashSet<usize> = HashSet::new();
        let mut stack: Vec<usize> = t.input_pts_iter().filter_map(|op| w.tid_by_hash.get(&op.tx_hash()).cloned()).filter(|s| have.contains(s)).collect();
        while let Some(x) = stack.pop() {
            if anc.insert(x) {
                for op in w.txs[x - 1].input_pts_iter() {
                    if let Some(s) = w.tid_by_hash.get(&op.tx_hash()) {
                        if have.contains(s) {
                            stack.push(*s);
                        }
                    }
                }
            }
        }
        let within_policy = (anc.len() as u64) + 1 <= w.cfg.max_ancestors;
        if !within_policy {
            out.count("detached-only-tx-over-ancestor-limit");
        }
        if resolvable && !conflict && hdr_ok && within_policy {
            out.oracle_fail(&format!("lost-tx{suffix}"), &format!("tx{tid} was committed only on the abandoned branch, is resolvable on the new chain + pool, but is not pooled"));
        } else {
            out.count("detached-only-tx-inadmissible");
        }
        let _ = (&mut have, &mut pool_spent);
    }
    out.count("chain-change");
    if !post.is_empty() {
        out.count("chain-change-with-pool");
    }
}

fn nums(ts: &[&str]) -> Vec<u64> {
    ts.iter().map(|t| t.parse::<u64>().unwrap_or_else(|_| panic!("bad number {t}"))).collect()
}

fn exec(w: &mut Option<World>, out: &mut Out, base: &Path, line: &str) {
    let ts: Vec<&str> = line.split(' ').collect();
    match ts[0] {
        "cfg" => {
            let n = nums(&ts[1..]);
            assert!(n.len() == 6, "cfg arity");
            if let Some(old) = w.take() {
                old.finish();
            }
            let cfg = Cfg { epoch_len: n[0], w_close: n[1], w_far: n[2], interval_ms: n[3], expiry_hours: n[4], max_ancestors: n[5] };
            *w = Some(World::new(base, out.case, cfg));
            out.op(line, "ok");
        }
        "rpool" | "rent" | "ratt" | "rargs" | "rafter" => {}
        _ => {
            let w = w.as_mut().expect("cfg first");
            match ts[0] {
                "submit" => {
                    let tid: usize = ts[1].parse().unwrap();
                    assert_eq!(tid, w.txs.len() + 1, "tids are consecutive");
                    let inputs: Vec<(OutPoint, u64)> = ts[2]
                        .split(',')
                        .map(|p| {
                            let (a, b) = p.split_once('.').expect("t.i");
                            let (t, i): (usize, usize) = (a.parse().unwrap(), b.parse().unwrap());
                            assert!(t <= w.txs.len());
                            w.out_point(t, i)
                        })
                        .collect();
                    let n_out: usize = ts[3].parse().unwrap();
                    let fee: u64 = ts[4].parse().unwrap();
                    let mut tx = spend_tx(&inputs, n_out, fee, tid as u64);
                    if ts[5] != "-" {
                        let depth: u64 = ts[5].parse().unwrap();
                        let snap = w.main.shared.snapshot();
                        let n = snap.tip_number().saturating_sub(depth);
                        let h = snap.get_block_hash(n).expect("hash");
                        tx = tx.as_advanced_builder().header_dep(h).build();
                        out.count("submit-with-header-dep");
                    }
                    w.tid_by_short.insert(tx.proposal_short_id(), tid);
                    w.tid_by_hash.insert(tx.hash(), tid);
                    w.txs.push(tx.clone());
                    match w.tpc().submit_local_tx(tx) {
                        Ok(Ok(())) => out.count("submit-accepted"),
                        Ok(Err(_)) => out.count("submit-rejected"),
                        Err(_) => out.count("submit-error"),
                    }
                    out.op(line, "ok");
                }
                "time" => {
                    w.clock += ts[1].parse::<u64>().unwrap();
                    w.guard.set_faketime(w.clock);
                    out.op(line, "ok");
                }
                "mine" => {
                    if w.cfg.interval_ms > 0 {
                        std::thread::sleep(Duration::from_millis(w.cfg.interval_ms + 3));
                    } else {
                        std::thread::sleep(Duration::from_millis(2));
                    }
                    let pre = w.dump();
                    let old_chain = w.main_chain();
                    let old_proposed = w.main.shared.snapshot().proposals().set().clone();
                    if let Ok(Ok(t)) = w.tpc().get_block_template(None, None, None) {
                        let b: packed::Block = t.into();
                        let b = b.into_view();
                        if b.parent_hash() == w.main.tip_hash() {
                            let r = w.main.process(&b);
                            if r == Ok(true) {
                                w.builder.blocks.entry(b.hash()).or_insert_with(|| b.clone());
                                w.block_id(&b.hash());
                                out.count("mined");
                                if b.transactions().len() > 1 {
                                    out.count("mined-with-commits");
                                }
                                after_chain_change(w, out, &pre, &old_chain, &old_proposed);
                            } else {
                                out.count("own-template-rejected");
                            }
                        }
                    }
                    out.op(line, "ok");
                }
                "fork" => {
                    let n = nums(&ts[1..]);
                    do_fork(w, out, n[0], n[1], n[2] as usize, n[3] as usize);
                    out.op(line, "ok");
                }
                other => panic!("bad op {other}"),
            }
        }
    }
}

fn do_fork(w: &mut World, out: &mut Out, back: u64, extra: u64, nprop: usize, ncommit: usize) {
    let snap = w.main.shared.snapshot();
    let tipn = snap.tip_number();
    let back = back.min(tipn);
    let fork_point = snap.get_block_hash(tipn - back).expect("fork point");
    drop(snap);
    let len = back + extra.max(1);
    // proposals: the most recent txs first (pool txs and rejected conflicting ones alike)
    let proposals: Vec<ProposalShortId> = w.txs.iter().rev().take(nprop).map(|t| t.proposal_short_id()).collect();
    let proposed: HashSet<ProposalShortId> = proposals.iter().cloned().collect();
    let mut commits: Vec<TransactionView> = vec![];
    {
        let store = w.builder.replay_store(&fork_point);
        let mut made: HashSet<Byte32> = HashSet::new();
        let mut used: HashSet<OutPoint> = HashSet::new();
        for tx in w.txs.iter() {
            if commits.len() >= ncommit {
                break;
            }
            if !proposed.contains(&tx.proposal_short_id()) || store.get_transaction_info(&tx.hash()).is_some() {
                continue;
            }
            let hdr_ok = tx.header_deps_iter().all(|h| store.is_main_chain(&h));
            let ok = hdr_ok && tx.input_pts_iter().all(|op| !used.contains(&op) && (made.contains(&op.tx_hash()) || store.have_cell(&op)));
            if ok {
                for op in tx.input_pts_iter() {
                    used.insert(op);
                }
                made.insert(tx.hash());
                commits.push(tx.clone());
            }
        }
    }
    let mut parent = fork_point;
    let mut ci = 0;
    for j in 1..=len {
        w.salt += 1;
        let mut spec = BlockSpec { salt: w.salt, ..Default::default() };
        if j == 1 {
            spec.proposals = proposals.clone();
        }
        if j >= 1 + w.cfg.w_close && j <= 1 + w.cfg.w_far {
            while ci < commits.len() && spec.txs.len() < 3 {
                spec.txs.push(commits[ci].clone());
                ci += 1;
            }
        }
        let b = w.builder.build(&parent, &spec);
        w.block_id(&b.hash());
        let pre = w.dump();
        let old_chain = w.main_chain();
        let old_proposed = w.main.shared.snapshot().proposals().set().clone();
        let r = w.main.process(&b);
        if r.is_err() {
            out.count("fork-block-rejected");
            break;
        }
        if w.main.tip_hash() == b.hash() {
            if !spec.txs.is_empty() {
                out.count("fork-commit-on-new-main");
            }
            after_chain_change(w, out, &pre, &old_chain, &old_proposed);
        }
        parent = b.hash();
    }
    if w.main.tip_hash() == parent {
        out.count("fork-reorg");
    } else {
        out.count("fork-no-reorg");
    }
}

struct Gen {
    free: Vec<(usize, usize, u64)>,
    spent: Vec<(usize, usize, u64)>,
    next_tid: usize,
}

const CKB: u64 = 100_000_000;

fn gen_submit(g: &mut Gen, rng: &mut Rng) -> Option<String> {
    if g.free.is_empty() {
        return None;
    }
    let mode = rng.below(100);
    let mut picks: Vec<(usize, usize, u64)> = vec![];
    let take = |g: &mut Gen, idx: usize| -> (usize, usize, u64) {
        let x = g.free.remove(idx);
        g.spent.push(x);
        x
    };
    if mode < 45 {
        let idx = g.free.len() - 1;
        picks.push(take(g, idx));
    } else if mode < 60 {
        let idx = rng.below(g.free.len() as u64) as usize;
        picks.push(take(g, idx));
        if !g.free.is_empty() {
            let idx = g.free.len() - 1 - rng.below((g.free.len() as u64).min(4)) as usize;
            picks.push(take(g, idx));
        }
    } else if mode < 85 {
        let cands: Vec<usize> = (0..g.free.len()).filter(|i| g.free[*i].0 == 0).collect();
        let idx = if cands.is_empty() { rng.below(g.free.len() as u64) as usize } else { *rng.pick(&cands) };
        picks.push(take(g, idx));
    } else {
        if g.spent.is_empty() {
            return None;
        }
        picks.push(*rng.pick(&g.spent));
    }
    let total: u64 = picks.iter().map(|p| p.2).sum();
    let fee = *rng.pick(&[500u64, 1000, 2000, 5000, 100_000]);
    let mut n_out = 1 + rng.below(2) as usize;
    while n_out > 1 && total < n_out as u64 * 150 * CKB + fee {
        n_out -= 1;
    }
    if total < 150 * CKB + fee {
        return None;
    }
    let tid = g.next_tid;
    g.next_tid += 1;
    let each = (total - fee) / n_out as u64;
    for i in 0..n_out {
        g.free.push((tid, i, each));
    }
    let ins = picks.iter().map(|p| format!("{}.{}", p.0, p.1)).collect::<Vec<_>>().join(",");
    let hdep = if rng.chance(1, 6) { rng.below(4).to_string() } else { "-".to_string() };
    Some(format!("submit {} {} {} {} {}", tid, ins, n_out, fee, hdep))
}

fn gen_case(out: &mut Out, base: &Path, rng: &mut Rng, steps: u64) {
    let w_close = rng.range(1, 2);
    let w_far = w_close + rng.range(1, 3);
    let expiry_case = rng.chance(1, 3);
    let cfgl = format!("cfg {} {} {} {} {} {}", rng.range(4, 9), w_close, w_far, *rng.pick(&[0u64, 0, 5]), if expiry_case { 1 } else { 12 }, *rng.pick(&[25u64, 25, 6]));
    out.begin_case(&format!("window={w_close},{w_far} expiry={expiry_case}"));
    let mut w: Option<World> = None;
    exec(&mut w, out, base, &cfgl);
    let mut g = Gen { free: (0..24).map(|i| (0usize, i, 50_000 * CKB)).collect(), spent: vec![], next_tid: 1 };
    let mut fp = String::new();
    for _ in 0..steps {
        let r = rng.below(100);
        let line = if r < 45 {
            match gen_submit(&mut g, rng) {
                Some(l) => l,
                None => continue,
            }
        } else if r < 75 {
            "mine".to_string()
        } else if r < 92 {
            let back = rng.range(1, w_far + 2);
            format!("fork {} {} {} {}", back, rng.range(1, 2), rng.below(10), rng.below(5))
        } else if expiry_case {
            format!("time {}", rng.range(10, 35) * 60 * 1000)
        } else {
            format!("time {}", rng.range(1, 50))
        };
        fp.push(line.as_bytes()[0] as char);
        exec(&mut w, out, base, &line);
    }
    exec(&mut w, out, base, "mine");
    out.nontrivial(fp);
    if let Some(world) = w.take() {
        world.finish();
    }
}

pub fn run(opts: &Opts) {
    let base = scratch_dir(&opts.out, "c12");
    let mut out = Out::new(&opts.out);
    let mut rng = Rng::new(opts.seed ^ 0xC12);
    if let Some(p) = &opts.replay {
        let ops = read_replay_ops(p);
        let mut w: Option<World> = None;
        for l in ops {
            if l.starts_with("case ") {
                out.begin_case(l.splitn(3, ' ').nth(2).unwrap_or("replay"));
                continue;
            }
            if out.case == 0 {
                out.begin_case("replay");
            }
            exec(&mut w, &mut out, &base, &l);
        }
        if let Some(world) = w.take() {
            world.finish();
        }
    } else {
        let cases = if opts.thorough() { 150 } else { 16 } * opts.scale;
        for _ in 0..cases {
            let steps = rng.range(40, 90);
            gen_case(&mut out, &base, &mut rng, steps);
        }
    }
    let _ = std::fs::remove_dir_all(&base);
    out.finish("a case is non-trivial by its op-kind sequence (submit/mine/fork/time)");
    std::process::exit(0);
}
