//! C12 — after any reorg the pool agrees with the new chain: no stale, dead or lost txs.
//!
//! A real node with tx-pool service and block assembler (mine mode) is driven through random
//! histories: submissions (chains, joins, conflicts, header-dep txs, CELL-DEP txs and spenders of the
//! dep cells), blocks mined from the node's own templates, competing ChainBuilder branches
//! (proposing / committing pool txs and conflicting txs, reorgs of depth 1..w_far+2), blocks of
//! "another miner" with an explicit choice of proposals and commitments (`forkx`: a pooled tx is
//! committed WITHOUT the pooled txs it conflicts with through cell deps / inputs, on an extension
//! and on a new branch) and clock jumps (expiry). After every chain change the harness waits until
//! the pool has processed the notification (`get_tx_pool_info().tip_hash == tip`; the pool's
//! snapshot is swapped under the same write lock that does the whole update and the re-adds) and
//! evaluates the property on the implementation alone; the whole write-locked section
//! (`_update_tx_pool_for_reorg` + `readd_detached_tx`) is a pure function of (pool before, attached
//! txs, detached txs, detached headers, detached proposals, new window, live cells before) and is
//! sent to the model.
//!
//! Op lines:
//!   cfg <epoch_len> <w_close> <w_far> <ba_interval_ms> <expiry_hours> <max_ancestors>      -> ok
//!   submit <tid> <t.i,..> <n_out> <fee> <hdep depth|-> [<cell deps t.i,..|->]              -> ok
//!   time <ms>               advance the (fake) clock                                        -> ok
//!   mine                    template -> block -> process; emits the reorg lines             -> ok
//!   fork <back> <extra> <nprop> <ncommit>   ChainBuilder branch, processed block by block;
//!                           the reorg lines are emitted for every block that changes the chain -> ok
//!   forkx <back> <len> <proposal tids|-> <commit tids|-> [<uncle proposal tids>]   another miner's blocks: branch from
//!                           tip-back (0 = extension) of <len> blocks, the first proposes the given
//!                           txs, the given txs are committed (in that order, if valid there) from
//!                           block 1+w_close on; the optional last list is proposed by an UNCLE carried by
//!                           the second block of the branch (round 6)                        -> ok
//!   psubmit <tid> <t.i,..> <n_out> <fee> <hdep depth|-> [<cell deps|->]   (round 6) the FIRST phase of a local
//!                           submission through the real service (non_contextual_verify, pre_check, verify_rtx),
//!                           then the submission is paused (hook TxPoolController::verif_submit_paused)          -> ok
//!   prelease                the paused submission goes on: submit_entry(pre_resolve_tip, ..) incl. its re-check
//!                           against the pool's current snapshot, after_process; emits rpool/rent/rargs/rstale    -> ok
//!   derived (ignored on replay, regenerated):
//!     rstale <id> <spent> <cell deps> <header ids> <created> <size> <tip changed 0|1> <stage of the pre-check> <live out-points>
//!                           -> <accepted 0|1> <id>:<status>,... the pool after submit_entry (rargs before it carries the
//!                           transaction's header deps that are off the main chain and the current proposal view)
//!     rpool                                                  -> ok
//!     rent <id> <status 0 pending|1 gap|2 proposed> <spent> <cell deps> <header ids> <created> <size>  -> ok
//!     ratt <id> <spent> <cell deps> <header ids> <created> <ok 0|1> <size>   -> ok   (attached txs, block order)
//!     rdet <id> <spent> <cell deps> <header ids> <created> <ok 0|1> <size>   -> ok   (detached txs, block order)
//!     rargs <detached header ids> <detached proposal ids> <gap ids> <proposed ids> <max_ancestors> <max_pool_size>   -> ok
//!     rlive <out-points live at the old tip>   -> out-points live at the new tip (of those the harness knows)
//!     rlinks                -> <id>:<descendants '.'-separated>,... `calc_descendants` of every entry pooled before
//!     rafter <expired ids> <ids left out>  -> <id>:<status>,... the pool after the update and the re-adds, sorted
//!                           (ids left out: removed groups of remove_by_detached_proposal whose re-add order is not determined, see `tainted`)
//!     rback                 -> <id>:<0|1>,... per detached-only tx (block order): pooled afterwards?
//!   (outpoint code = tid*16+idx, genesis cell k = 2000000+k, the always-success code cell = 1000000;
//!    header id = index in the harness's block table; ok = fee >= min_fee_rate * size / 1000)
//!
//! Oracle classes (the property on the real pool after every chain change): `committed-in-pool`,
//! `dead-or-unknown-input`, `dead-or-unknown-cell-dep`, `double-spend-in-pool`,
//! `dep-spent-by-non-descendant` (a pooled tx spends a cell another pooled tx depends on without
//! being its descendant: no valid commit order is recorded), `detached-header-dep`, `lost-tx`
//! (committed only on the abandoned branch, admissible, not back), `stage-mismatch` (status vs
//! proposal window). Sub-classes that name the cause found on the unchanged tree:
//! `input-of-expired-parent` (F5: remove_expired dropped the parent only),
//! `input-of-detached-parent-not-readmitted` (the parent was committed on the abandoned branch and
//! could not be re-admitted; nothing evicts its pooled descendants), `stage-gap-outside-window`
//! (a gap entry whose proposal was in the gap part of the abandoned branch stays gap).
//!
//! Round 5: the model answers with `reorgR` (Model/ReorgReadd.lean): `remove_by_detached_proposal`'s
//! `add_pending` and `readd_detached_tx`'s `_submit_entry` are `PoolMap::add_entry` as written (ancestor
//! limit, eviction of cell-ref parents with descendants, refusal after an eviction). The directed
//! families `gen_deep` D1/D2 (cases with max_ancestors 5 or 6) reach those branches. The causes found
//! there are listed in known_findings.txt and reported under their listed names since round 6:
//! `pooled-tx-dropped-at-detached-proposal-readd` / `input-of-parent-dropped-at-detached-proposal-readd`
//! (sub-class of dead-or-unknown-input: the creator left at a chain change although nothing committed,
//! consumed, detached or expired it or an ancestor, and it or an ancestor was a non-pending entry with a
//! detached proposal), `lost-tx-evicted-as-cell-ref-parent-of-refused-readd` (sub-class of lost-tx: the lost
//! transaction or one of its detached-only ancestors has a cell dep that a LATER detached-only
//! transaction, itself not pooled, spends). `input-of-evicted-cell-ref-parent` (the missing creator has a
//! cell the user spends as a cell dep and is not committed) was F33, repaired by /repo 10e306f: a failing
//! class now, and the model follows the repaired `check_and_record_ancestors`.
//! Round 6 directed families in `gen_burst`: E (a spender and a dep user of the same cell pooled, a third
//! spender committed), R (re-proposal around the block at which the first proposal leaves the window),
//! T (parent and child committed in different blocks of an abandoned branch); `gen_paused`: paused submissions.
//! Defects found in round 6, listed in known_findings.txt and reported under their listed names:
//! `stale-submit-same-tip-unknown-input` / `input-unknown-since-same-tip-submit` — submit_entry re-checks the resolved
//! transaction only when the tip moved; when the POOL lost the parent meanwhile (RBF replacement by a concurrent
//! submission) the child is admitted with an unknown input and survives every later chain change
//! (corpus/C12/reorg-suspect-same-tip-parent-replaced.ops); `pool-map-invalid-key-panic` — the real PoolMap's
//! multi-index map panics with `invalid key` (recognised by a panic hook; the panic is the reported event, the chain
//! changes of that case after it are counted, not judged or compared).
use crate::common::*;
use crate::node::*;
use ckb_app_config::{BlockAssemblerConfig, NetworkConfig, TxPoolConfig};
use ckb_chain::ChainServiceScope;
use ckb_chain_spec::consensus::Consensus;
use ckb_jsonrpc_types::ScriptHashType;
use ckb_network::{Flags, NetworkController, NetworkService, NetworkState, network::TransportType};
use ckb_shared::{Shared, SharedBuilder};
use ckb_store::ChainStore;
use ckb_tx_pool::verif::Status;
use ckb_types::core::{BlockView, Capacity, DepType, TransactionView};
use ckb_types::h256;
use ckb_types::packed::{self, Byte32, CellDep, OutPoint, ProposalShortId};
use ckb_types::prelude::*;
use std::collections::{HashMap, HashSet};
use std::path::{Path, PathBuf};
use std::sync::Arc;
use std::time::{Duration, Instant};

/// (round 6) set by the panic hook when a tx-pool service task of the REAL code panics with "invalid key" inside
/// PoolMap's multi-index map (tx-pool/src/component/pool_map.rs): the map is inconsistent from then on (entries
/// that no index finds, index keys without an entry) and the pool no longer follows the chain. Defect of /repo found
/// in round 6 (seeded/C12/findings-round6/finding-pool-map-invalid-key-seed12345-case4.ops), listed as class
/// pool-map-invalid-key-panic: the panic is reported, the rest of such a case is counted, not judged.
static POOL_MAP_PANIC: std::sync::atomic::AtomicBool = std::sync::atomic::AtomicBool::new(false);

fn install_panic_watch() {
    let prev = std::panic::take_hook();
    std::panic::set_hook(Box::new(move |info| {
        let at_pool_map = info.location().map_or(false, |l| l.file().ends_with("tx-pool/src/component/pool_map.rs"));
        let msg = info.payload().downcast_ref::<&str>().map(|s| s.to_string()).or_else(|| info.payload().downcast_ref::<String>().cloned()).unwrap_or_default();
        if at_pool_map && msg.contains("invalid key") {
            POOL_MAP_PANIC.store(true, std::sync::atomic::Ordering::SeqCst);
        }
        prev(info);
    }));
}

pub struct PNode {
    pub shared: Shared,
    chain: Option<ChainServiceScope>,
    _network: NetworkController,
}

fn dummy_network(shared: &Shared, dir: &Path) -> NetworkController {
    let config = NetworkConfig {
        max_peers: 19,
        max_outbound_peers: 5,
        path: dir.join("network"),
        ping_interval_secs: 15,
        ping_timeout_secs: 20,
        connect_outbound_interval_secs: 1,
        discovery_local_address: true,
        bootnode_mode: true,
        reuse_port_on_linux: true,
        ..Default::default()
    };
    let network_state = Arc::new(NetworkState::from_config(config).expect("Init network state failed"));
    NetworkService::new(network_state, vec![], vec![], (shared.consensus().identify_name(), "test".to_string(), Flags::COMPATIBILITY), TransportType::Tcp)
        .start(shared.async_handle())
        .expect("Start network service failed")
}

impl PNode {
    pub fn start(dir: &Path, consensus: Consensus, tx_pool: TxPoolConfig, interval_ms: u64) -> PNode {
        std::fs::create_dir_all(dir.join("header_map")).unwrap();
        let db_config = ckb_app_config::DBConfig { path: dir.join("db"), ..Default::default() };
        let builder = SharedBuilder::new("verif", dir, &db_config, None, runtime_handle(), consensus)
            .unwrap_or_else(|e| panic!("SharedBuilder::new failed: {e:?}"))
            .header_map_tmp_dir(Some(dir.join("header_map")))
            .tx_pool_config(tx_pool);
        let ba = BlockAssemblerConfig {
            code_hash: h256!("0x0"),
            args: Default::default(),
            hash_type: ScriptHashType::Data,
            message: Default::default(),
            use_binary_version_as_message_prefix: false,
            binary_version: "TEST".to_string(),
            update_interval_millis: interval_ms,
            notify: vec![],
            notify_scripts: vec![],
            notify_timeout_millis: 800,
        };
        let (shared, mut pack) = builder.block_assembler_config(Some(ba)).build().unwrap_or_else(|e| panic!("SharedBuilder::build failed: {e:?}"));
        let n = dummy_network(&shared, dir);
        pack.take_tx_pool_builder().start(n.clone());
        let chain = ChainServiceScope::new(pack.take_chain_services_builder());
        PNode { shared, chain: Some(chain), _network: n }
    }
    pub fn process(&self, block: &BlockView) -> Result<bool, String> {
        self.chain.as_ref().unwrap().chain_controller().blocking_process_block(Arc::new(block.clone())).map_err(|e| e.to_string())
    }
    pub fn tip_hash(&self) -> Byte32 {
        self.shared.snapshot().tip_hash()
    }
    pub fn stop(mut self) {
        self.chain.take();
    }
}

#[derive(Clone, Debug)]
struct Cfg {
    epoch_len: u64,
    w_close: u64,
    w_far: u64,
    interval_ms: u64,
    expiry_hours: u64,
    max_ancestors: u64,
    min_fee_rate: u64,
    max_pool_size: u64,
}

/// what the pool held at some moment (from the verif dump)
#[derive(Clone)]
struct PEnt {
    tid: usize,
    status: u8,
    spent: Vec<u64>,
    deps: Vec<u64>,
    hdeps: Vec<usize>,
    outs: Vec<u64>,
    size: u64,
    /// `calc_descendants` of the real link map
    desc: Vec<usize>,
    /// `calc_ancestors` of the real link map
    anc: Vec<usize>,
    /// the maintained statistic `ancestors_count` (the sort key of remove_by_detached_proposal's re-adds)
    anc_stat: usize,
    timestamp: u64,
}

/// what the harness records before a block is handed to the chain
struct Pre {
    pool: Vec<PEnt>,
    chain: Vec<Byte32>,
    proposed: HashSet<ProposalShortId>,
    live: Vec<u64>,
}

struct World {
    dir: PathBuf,
    cfg: Cfg,
    consensus: Consensus,
    main: PNode,
    builder: ChainBuilder,
    txs: Vec<TransactionView>,
    fees: Vec<u64>,
    code_cell: OutPoint,
    tid_by_short: HashMap<ProposalShortId, usize>,
    tid_by_hash: HashMap<Byte32, usize>,
    gcells: Vec<(OutPoint, u64)>,
    block_ids: HashMap<Byte32, usize>,
    salt: u64,
    /// txs that were committed on a detached block (and not on the attached ones) at some reorg
    ever_detached: HashSet<usize>,
    /// txs dropped by remove_expired
    expired_removed: HashSet<usize>,
    /// txs that left the pool at a chain change although nothing committed, consumed, detached or
    /// expired them or an ancestor: taken out by `remove_by_detached_proposal` and refused by its re-add
    dropped_detached: HashSet<usize>,
    clock: u64,
    guard: ckb_systemtime::FaketimeGuard,
    /// a local submission paused between its verification and `submit_entry` (round 6):
    /// (tid, the handle, the pool's tip at the pre-check, the stage the pre-check window gave the id)
    paused: Option<(usize, ckb_tx_pool::service::VerifPaused, Byte32, u8)>,
    /// transactions admitted by a paused submission AT THE TIP OF ITS PRE-CHECK with an out-point that is neither
    /// live nor created in the pool (the pool changed in between; submit_entry re-checks only when the tip moved)
    same_tip_orphans: HashSet<usize>,
    /// the pool-map panic of this case was reported
    panic_reported: bool,
}

fn cap_of(tx: &TransactionView, i: usize) -> u64 {
    let c: Capacity = tx.outputs().get(i).expect("output index").capacity().unpack();
    c.as_u64()
}

fn list<T: ToString + Ord>(mut v: Vec<T>) -> String {
    v.sort();
    if v.is_empty() { "-".into() } else { v.iter().map(|x| x.to_string()).collect::<Vec<_>>().join(",") }
}

impl World {
    fn new(base: &Path, case: u64, cfg: Cfg) -> World {
        POOL_MAP_PANIC.store(false, std::sync::atomic::Ordering::SeqCst);
        let dir = base.join(format!("case-{case}"));
        let _ = std::fs::remove_dir_all(&dir);
        std::fs::create_dir_all(&dir).unwrap();
        let ncfg = NodeCfg { epoch_len: cfg.epoch_len, window: (cfg.w_close, cfg.w_far), genesis_cells: 24, maturity_epochs: 0, with_pool: false, tx_pool: None };
        let consensus = make_consensus(&ncfg);
        let guard = ckb_systemtime::faketime();
        let clock = std::time::SystemTime::now().duration_since(std::time::UNIX_EPOCH).unwrap().as_millis() as u64;
        guard.set_faketime(clock);
        let mut tp = TxPoolConfig::default();
        let mut cfg = cfg;
        cfg.min_fee_rate = tp.min_fee_rate.as_u64();
        cfg.max_pool_size = tp.max_tx_pool_size as u64;
        tp.max_ancestors_count = cfg.max_ancestors as usize;
        tp.expiry_hours = cfg.expiry_hours as u8;
        let main = PNode::start(&dir.join("main"), consensus.clone(), tp, cfg.interval_ms);
        let builder = ChainBuilder::new(consensus.clone(), &dir.join("builder"));
        let gcells = genesis_cells(&consensus);
        let mut block_ids = HashMap::new();
        block_ids.insert(consensus.genesis_hash(), 0);
        World { dir, cfg, consensus, main, builder, txs: vec![], fees: vec![], code_cell: always_success_dep().out_point(), tid_by_short: HashMap::new(), tid_by_hash: HashMap::new(), gcells, block_ids, salt: 1000, ever_detached: HashSet::new(), expired_removed: HashSet::new(), dropped_detached: HashSet::new(), clock, guard, paused: None, same_tip_orphans: HashSet::new(), panic_reported: false }
    }

    fn finish(self) {
        let World { dir, main, builder, guard, paused, .. } = self;
        if let Some((_, h, _, _)) = paused {
            let _ = h.release();
        }
        drop(builder);
        main.stop();
        drop(guard);
        let _ = std::fs::remove_dir_all(dir);
    }

    fn tpc(&self) -> &ckb_tx_pool::TxPoolController {
        self.main.shared.tx_pool_controller()
    }

    fn sync_pool(&self, out: &mut Out) {
        let t = Instant::now();
        loop {
            let tip = self.main.tip_hash();
            if let Ok(info) = self.tpc().get_tx_pool_info() {
                if info.tip_hash == tip {
                    break;
                }
            }
            if t.elapsed() > Duration::from_secs(20) {
                out.count("sync-timeout");
                break;
            }
            std::thread::sleep(Duration::from_millis(2));
        }
    }

    fn out_point(&self, t: usize, i: usize) -> (OutPoint, u64) {
        if t == 0 {
            self.gcells[i].clone()
        } else {
            let tx = &self.txs[t - 1];
            (OutPoint::new(tx.hash(), i as u32), cap_of(tx, i))
        }
    }

    fn op_code(&self, op: &OutPoint) -> u64 {
        let idx: u32 = op.index().unpack();
        match self.tid_by_hash.get(&op.tx_hash()) {
            Some(t) => *t as u64 * 16 + idx as u64,
            None => match self.gcells.iter().position(|(g, _)| g == op) {
                Some(k) => 2_000_000 + k as u64,
                None if *op == self.code_cell => 1_000_000, // the always-success code cell (cell dep of every tx), never spent
                None => 999_999,
            },
        }
    }

    /// every out-point the harness knows, with its code
    fn universe(&self) -> Vec<(u64, OutPoint)> {
        let mut v: Vec<(u64, OutPoint)> = vec![(1_000_000, self.code_cell.clone())];
        for (k, (op, _)) in self.gcells.iter().enumerate() {
            v.push((2_000_000 + k as u64, op.clone()));
        }
        for (t, tx) in self.txs.iter().enumerate() {
            for i in 0..tx.outputs().len() {
                v.push(((t as u64 + 1) * 16 + i as u64, OutPoint::new(tx.hash(), i as u32)));
            }
        }
        v
    }

    /// the known out-points that are live in the current snapshot
    fn live_codes(&self) -> Vec<u64> {
        let snap = self.main.shared.snapshot();
        self.universe().into_iter().filter(|(_, op)| snap.have_cell(op)).map(|(c, _)| c).collect()
    }

    fn pre(&mut self) -> Pre {
        Pre { pool: self.dump(), chain: self.main_chain(), proposed: self.main.shared.snapshot().proposals().set().clone(), live: self.live_codes() }
    }

    /// fee policy + verification verdict of a transaction (scripts always succeed here)
    fn tx_ok(&self, tid: usize) -> bool {
        let size = self.txs[tid - 1].data().serialized_size_in_block() as u64;
        self.fees[tid - 1] >= self.cfg.min_fee_rate * size / 1000
    }

    /// `<id> <spent> <cell deps> <header ids> <created> <ok> <size>` of a block transaction
    fn ctx_fields(&mut self, t: &TransactionView) -> String {
        let tid = *self.tid_by_hash.get(&t.hash()).expect("block tx built by the harness");
        let hdeps: Vec<usize> = t.header_deps_iter().map(|h| self.block_id(&h)).collect();
        format!(
            "{} {} {} {} {} {} {}",
            tid,
            list(t.input_pts_iter().map(|op| self.op_code(&op)).collect()),
            list(t.cell_deps_iter().map(|d| self.op_code(&d.out_point())).collect()),
            list(hdeps),
            list((0..t.outputs().len()).map(|i| tid as u64 * 16 + i as u64).collect()),
            self.tx_ok(tid) as u8,
            t.data().serialized_size_in_block()
        )
    }

    fn block_id(&mut self, h: &Byte32) -> usize {
        let n = self.block_ids.len();
        *self.block_ids.entry(h.clone()).or_insert(n)
    }

    fn main_chain(&self) -> Vec<Byte32> {
        let snap = self.main.shared.snapshot();
        (0..=snap.tip_number()).map(|n| snap.get_block_hash(n).expect("main hash")).collect()
    }

    fn dump(&mut self) -> Vec<PEnt> {
        let r = self
            .tpc()
            .verif_read(|pool| {
                let pm = pool.verif_pool_map();
                let d = pm.verif_dump();
                let desc: Vec<HashSet<ProposalShortId>> = d.entries.iter().map(|e| pm.verif_calc_descendants(&e.id)).collect();
                let anc: Vec<HashSet<ProposalShortId>> = d.entries.iter().map(|e| pm.verif_calc_ancestors(&e.id)).collect();
                (d, desc, anc)
            })
            .expect("verif_read");
        let (d, desc, anc) = r;
        if std::env::var("VERIF_DEBUG").is_ok() {
            // root-cause aid for pool-map-invalid-key-panic: aggregates that saturated to zero / below the entry's own
            for e in d.entries.iter() {
                let x = &e.entry;
                if x.ancestors_size < x.size || x.ancestors_cycles < x.cycles || x.ancestors_fee.as_u64() < x.fee.as_u64() || x.descendants_size < x.size || x.descendants_fee.as_u64() < x.fee.as_u64() {
                    eprintln!("VERIF_DEBUG degenerate-aggregates tx{:?} size={} cycles={} fee={} anc(count={},size={},cycles={},fee={}) desc(count={},size={},cycles={},fee={}) score={:?}", self.tid_by_short.get(&e.id), x.size, x.cycles, x.fee.as_u64(), x.ancestors_count, x.ancestors_size, x.ancestors_cycles, x.ancestors_fee.as_u64(), x.descendants_count, x.descendants_size, x.descendants_cycles, x.descendants_fee.as_u64(), e.score);
                }
            }
        }
        let hd: HashMap<ProposalShortId, Vec<Byte32>> = d.header_deps.iter().cloned().collect();
        let mut v = vec![];
        for ((e, ds), an) in d.entries.iter().zip(desc.iter()).zip(anc.iter()) {
            let tid = *self.tid_by_short.get(&e.id).expect("known tx");
            let tx = e.entry.transaction().clone();
            let hdeps: Vec<usize> = hd.get(&e.id).cloned().unwrap_or_default().iter().map(|h| self.block_id(h)).collect();
            v.push(PEnt {
                tid,
                status: match e.status { Status::Pending => 0, Status::Gap => 1, Status::Proposed => 2 },
                spent: tx.input_pts_iter().map(|op| self.op_code(&op)).collect(),
                deps: tx.cell_deps_iter().map(|d| self.op_code(&d.out_point())).collect(),
                hdeps,
                outs: (0..tx.outputs().len()).map(|i| tid as u64 * 16 + i as u64).collect(),
                size: e.entry.size as u64,
                desc: ds.iter().map(|x| *self.tid_by_short.get(x).expect("known")).collect(),
                anc: an.iter().map(|x| *self.tid_by_short.get(x).expect("known")).collect(),
                anc_stat: e.entry.ancestors_count,
                timestamp: e.entry.timestamp,
            });
        }
        v
    }
}

/// the panic itself is the reported event (listed class pool-map-invalid-key-panic), once per case
fn report_pool_map_panic(w: &mut World, out: &mut Out) {
    if POOL_MAP_PANIC.load(std::sync::atomic::Ordering::SeqCst) && !w.panic_reported {
        w.panic_reported = true;
        out.count("pool-map-invalid-key-panic-seen");
        out.oracle_fail("pool-map-invalid-key-panic", "a tx-pool service task of the real code panicked with `invalid key` inside PoolMap's multi-index map (tx-pool/src/component/pool_map.rs); the pool no longer follows the chain, the rest of the case is not judged");
    }
}

/// one chain change: pool before, chain before, then the block(s); evaluates oracle + emits model lines
fn after_chain_change(w: &mut World, out: &mut Out, pre: &Pre) {
    w.sync_pool(out);
    if POOL_MAP_PANIC.load(std::sync::atomic::Ordering::SeqCst) {
        // the real pool map is corrupted (see POOL_MAP_PANIC): counted until the coordinator lists or repairs it
        report_pool_map_panic(w, out);
        out.count("chain-change-after-pool-map-invalid-key-panic-not-judged");
        return;
    }
    let old_chain = &pre.chain;
    let new_chain = w.main_chain();
    let post = w.dump();
    let snap = w.main.shared.snapshot();
    let common = old_chain.iter().zip(new_chain.iter()).take_while(|(a, b)| a == b).count();
    let detached: Vec<Byte32> = old_chain[common..].to_vec();
    let attached: Vec<Byte32> = new_chain[common..].to_vec();
    if !detached.is_empty() {
        out.count(&format!("reorg-depth-{}", detached.len().min(9)));
    }
    let block = |h: &Byte32| -> BlockView { snap.get_block(h).expect("block in store") };
    let att_txs: Vec<TransactionView> = attached.iter().flat_map(|h| block(h).transactions().into_iter().skip(1)).collect();
    let det_txs: Vec<TransactionView> = detached.iter().flat_map(|h| block(h).transactions().into_iter().skip(1)).collect();
    let att_set: HashSet<Byte32> = att_txs.iter().map(|t| t.hash()).collect();
    let retain: Vec<TransactionView> = det_txs.iter().filter(|t| !att_set.contains(&t.hash())).cloned().collect();
    let new_proposed: HashSet<ProposalShortId> = snap.proposals().set().clone();
    let new_gap: HashSet<ProposalShortId> = snap.proposals().gap().clone();
    let det_props: Vec<usize> = pre.proposed.difference(&new_proposed).filter_map(|id| w.tid_by_short.get(id).cloned()).collect();
    let post_ids: HashSet<usize> = post.iter().map(|e| e.tid).collect();
    // ---- model lines
    out.op("rpool", "ok");
    for e in &pre.pool {
        out.op(&format!("rent {} {} {} {} {} {} {}", e.tid, e.status, list(e.spent.clone()), list(e.deps.clone()), list(e.hdeps.clone()), list(e.outs.clone()), e.size), "ok");
    }
    for t in &att_txs {
        let f = w.ctx_fields(t);
        out.op(&format!("ratt {f}"), "ok");
    }
    for t in &det_txs {
        let f = w.ctx_fields(t);
        out.op(&format!("rdet {f}"), "ok");
    }
    let det_hdr: Vec<usize> = detached.iter().map(|h| w.block_id(h)).collect();
    let known = |s: &HashSet<ProposalShortId>| -> Vec<usize> { s.iter().filter_map(|id| w.tid_by_short.get(id).cloned()).collect() };
    out.op(&format!("rargs {} {} {} {} {} {}", list(det_hdr), list(det_props.clone()), list(known(&new_gap)), list(known(&new_proposed)), w.cfg.max_ancestors, w.cfg.max_pool_size), "ok");
    // chain side: live cells before -> live cells after
    out.op(&format!("rlive {}", list(pre.live.clone())), &list(w.live_codes()));
    // links: the descendants the real link map gave every entry pooled before
    {
        let mut v: Vec<(usize, String)> = pre.pool.iter().map(|e| (e.tid, format!("{}:{}", e.tid, if e.desc.is_empty() { "-".to_string() } else { let mut d = e.desc.clone(); d.sort(); d.iter().map(|x| x.to_string()).collect::<Vec<_>>().join(".") }))).collect();
        v.sort();
        out.op("rlinks", &if v.is_empty() { "-".to_string() } else { v.into_iter().map(|x| x.1).collect::<Vec<_>>().join(",") });
    }
    let pre_ids: HashSet<usize> = pre.pool.iter().map(|e| e.tid).collect();
    let retain_ids: Vec<usize> = retain.iter().map(|t| *w.tid_by_hash.get(&t.hash()).expect("harness tx")).collect();
    let expiry_ms = w.cfg.expiry_hours * 3600 * 1000;
    let now = w.clock;
    let expired: HashSet<usize> = pre.pool.iter().filter(|e| expiry_ms + e.timestamp < now).map(|e| e.tid).collect();
    // everything pooled afterwards is an entry pooled before or a re-added detached-only tx
    // remove_by_detached_proposal re-adds a removed group in the order of the MAINTAINED statistic
    // ancestors_count (sort_unstable, the statistic can be stale: C11's F3) and walks the detached ids in
    // HashSet order; the model uses a canonical parents-first order. The orders only matter when a re-add can
    // be refused, i.e. when a removed group holds an entry over the ancestor limit. Such a group is compared
    // strictly when it is the only one, no other removed group overlaps it and the real statistic orders it
    // parents-first; otherwise its ids are left out of the `rafter` comparison on both sides (counted).
    let tainted: HashSet<usize> = {
        let by_tid: HashMap<usize, &PEnt> = pre.pool.iter().map(|e| (e.tid, e)).collect();
        let group = |r: &PEnt| -> HashSet<usize> { std::iter::once(r.tid).chain(r.desc.iter().cloned()).collect() };
        let over = |t: &usize| -> bool { by_tid.get(t).map_or(false, |e| e.anc.len() as u64 + 1 > w.cfg.max_ancestors) };
        let roots: Vec<&PEnt> = pre.pool.iter().filter(|e| e.status != 0 && det_props.contains(&e.tid)).collect();
        let hot: Vec<&&PEnt> = roots.iter().filter(|r| group(r).iter().any(|t| over(t))).collect();
        if hot.is_empty() {
            HashSet::new()
        } else {
            let g0 = group(hot[0]);
            let alone = hot.len() == 1 && roots.iter().all(|r| r.tid == hot[0].tid || group(r).is_disjoint(&g0));
            let parents_first = g0.iter().all(|t| by_tid.get(t).map_or(true, |e| e.anc.iter().all(|a| !g0.contains(a) || by_tid.get(a).map_or(true, |x| x.anc_stat < e.anc_stat))));
            if alone && parents_first {
                out.count("detached-group-over-limit-compared");
                HashSet::new()
            } else {
                out.count("detached-group-over-limit-order-ambiguous");
                hot.iter().flat_map(|r| group(r)).collect()
            }
        }
    };
    let mut surv: Vec<(usize, u8)> = post.iter().filter(|e| pre_ids.contains(&e.tid) || retain_ids.contains(&e.tid)).map(|e| (e.tid, e.status)).collect();
    if surv.len() != post.len() {
        out.count("pooled-from-elsewhere");
    }
    surv.retain(|(t, _)| !tainted.contains(t));
    surv.sort();
    let expired_note = if expired.is_empty() { String::new() } else { format!(" expired={}", list(expired.iter().cloned().collect())) };
    // expired entries are dropped by remove_expired: the clock is an input of the model
    out.op(&format!("rafter {} {}", list(expired.iter().cloned().collect()), list(tainted.iter().cloned().collect())), &format!("{}", if surv.is_empty() { "-".to_string() } else { surv.iter().map(|(t, s)| format!("{t}:{s}")).collect::<Vec<_>>().join(",") }));
    out.op("rback", &if retain_ids.is_empty() { "-".to_string() } else { retain_ids.iter().map(|t| format!("{}:{}", t, post_ids.contains(t) as u8)).collect::<Vec<_>>().join(",") });
    for tid in &retain_ids {
        w.ever_detached.insert(*tid);
    }
    if !expired.is_empty() {
        out.count("update-with-expired-entries");
        for t in &expired {
            if !post_ids.contains(t) {
                w.expired_removed.insert(*t);
            }
        }
    }
    // ---- generator coverage counters (what the attached blocks did to the pool before)
    {
        let att_tids: HashSet<usize> = att_txs.iter().filter_map(|t| w.tid_by_hash.get(&t.hash()).cloned()).collect();
        let att_spent: HashSet<u64> = att_txs.iter().flat_map(|t| t.input_pts_iter().map(|op| w.op_code(&op)).collect::<Vec<_>>()).collect();
        for e in &pre.pool {
            if att_tids.contains(&e.tid) {
                continue;
            }
            let by_dep = e.deps.iter().any(|d| att_spent.contains(d));
            let by_input = e.spent.iter().any(|d| att_spent.contains(d));
            if by_dep {
                out.count(if detached.is_empty() { "pooled-dep-consumed-on-extension" } else { "pooled-dep-consumed-on-new-branch" });
                // the spender of the dep cell was pooled itself (the m1 shape) or not
                let pooled_spender = pre.pool.iter().any(|x| att_tids.contains(&x.tid) && x.spent.iter().any(|o| e.deps.contains(o)));
                out.count(if pooled_spender { "pooled-dep-consumed-by-committed-pooled-tx" } else { "pooled-dep-consumed-by-foreign-tx" });
                // descendants other than the committed spender (and what was committed with it)
                if e.desc.iter().any(|d| !att_tids.contains(d)) {
                    out.count("pooled-dep-consumed-with-descendants");
                }
            }
            if by_input {
                out.count(if detached.is_empty() { "pooled-input-consumed-on-extension" } else { "pooled-input-consumed-on-new-branch" });
                if !e.desc.is_empty() {
                    out.count("pooled-input-consumed-with-descendants");
                }
            }
        }
        if !att_tids.is_empty() && pre.pool.iter().any(|e| att_tids.contains(&e.tid)) && pre.pool.iter().any(|e| !att_tids.contains(&e.tid)) {
            out.count("commit-of-part-of-the-pool");
        }
    }
    // ---- entries that left without a standard cause although they or an ancestor had a detached proposal
    {
        let att_tids: HashSet<usize> = att_txs.iter().filter_map(|t| w.tid_by_hash.get(&t.hash()).cloned()).collect();
        let att_spent: HashSet<u64> = att_txs.iter().flat_map(|t| t.input_pts_iter().map(|op| w.op_code(&op)).collect::<Vec<_>>()).collect();
        let det_hdr_ids: HashSet<usize> = detached.iter().map(|h| w.block_id(h)).collect();
        let by_tid: HashMap<usize, &PEnt> = pre.pool.iter().map(|e| (e.tid, e)).collect();
        let explained = |e: &PEnt| -> bool {
            att_tids.contains(&e.tid) || expired.contains(&e.tid) || e.spent.iter().chain(e.deps.iter()).any(|o| att_spent.contains(o)) || e.hdeps.iter().any(|h| det_hdr_ids.contains(h))
        };
        for e in &pre.pool {
            if post_ids.contains(&e.tid) {
                continue;
            }
            let line: Vec<&PEnt> = std::iter::once(e).chain(e.anc.iter().filter_map(|a| by_tid.get(a).cloned())).collect();
            if line.iter().any(|x| explained(x)) {
                continue;
            }
            if line.iter().any(|x| x.status != 0 && det_props.contains(&x.tid)) {
                w.dropped_detached.insert(e.tid);
                out.count("pooled-tx-dropped-at-detached-proposal-readd-seen");
                out.oracle_fail("pooled-tx-dropped-at-detached-proposal-readd", &format!("tx{} left the pool at a chain change although nothing committed, consumed, detached or expired it or an ancestor (its proposal or an ancestor's was detached)", e.tid));
            }
        }
    }
    // ---- oracle on the implementation alone
    let suffix = "";
    let pooled: HashMap<usize, &PEnt> = post.iter().map(|e| (e.tid, e)).collect();
    let mut spent_by: HashMap<u64, usize> = HashMap::new();
    // why an out-point that is neither live nor created in the pool is missing (names the known causes)
    let missing_class = |w: &World, src: Option<usize>, user: usize, what: &str| -> String {
        let orphaned = src.map_or(false, |t| w.ever_detached.contains(&t) && snap.get_transaction_info(&w.txs[t - 1].hash()).is_none());
        let by_expiry = src.map_or(false, |t| w.expired_removed.contains(&t));
        // SUSPECTED (reported to the coordinator, counted until listed): the creator was taken out by
        // remove_by_detached_proposal and its re-add was refused (ancestor limit) while its descendants were re-added
        let by_detached_readd = src.map_or(false, |t| w.dropped_detached.contains(&t));
        // SUSPECTED: the creator is a cell-ref parent of the user (it has a cell the user spends as a cell dep):
        // check_and_record_ancestors evicts it to make room for the user and inserts the user all the same
        let by_cell_ref_eviction = src.map_or(false, |t| {
            let spent: HashSet<OutPoint> = w.txs[user - 1].input_pts_iter().collect();
            snap.get_transaction_info(&w.txs[t - 1].hash()).is_none() && w.txs[t - 1].cell_deps_iter().any(|d| spent.contains(&d.out_point()))
        });
        if by_expiry {
            "input-of-expired-parent".to_string()
        } else if w.same_tip_orphans.contains(&user) {
            // listed in known_findings.txt (round 6): admitted by submit_entry at the
            // tip of its pre-check after the pool had lost the creator (no re-check when the tip did not move)
            "input-unknown-since-same-tip-submit".to_string()
        } else if by_detached_readd {
            // listed in known_findings.txt (round 5): reported under its listed name
            "input-of-parent-dropped-at-detached-proposal-readd".to_string()
        } else if orphaned {
            "input-of-detached-parent-not-readmitted".to_string()
        } else if by_cell_ref_eviction {
            // F33, repaired by /repo 10e306f: a FAILING class since round 6
            "input-of-evicted-cell-ref-parent".to_string()
        } else {
            format!("dead-or-unknown-{what}")
        }
    };
    let report = |out: &mut Out, cls: &str, detail: &str| {
        if cls.starts_with("suspected-") { out.count(cls) } else { out.oracle_fail(cls, detail) }
    };
    for e in &post {
        let tx = &w.txs[e.tid - 1];
        if snap.get_transaction_info(&tx.hash()).is_some() {
            out.oracle_fail(&format!("committed-in-pool{suffix}"), &format!("tx{} is committed on the new main chain{}", e.tid, expired_note));
        }
        for op in tx.input_pts_iter() {
            let code = w.op_code(&op);
            if let Some(other) = spent_by.insert(code, e.tid) {
                out.oracle_fail(&format!("double-spend-in-pool{suffix}"), &format!("tx{} and tx{} spend {}", other, e.tid, code));
            }
            let src = w.tid_by_hash.get(&op.tx_hash()).cloned();
            let in_pool = src.map_or(false, |t| pooled.contains_key(&t));
            if !in_pool && !snap.have_cell(&op) {
                let cls = missing_class(w, src, e.tid, "input");
                report(out, &format!("{cls}{suffix}"), &format!("tx{} input {} (tx{:?}) is neither live on the new chain nor an output of a pooled tx{}", e.tid, code, src, expired_note));
            }
        }
        for d in tx.cell_deps_iter() {
            let op = d.out_point();
            let code = w.op_code(&op);
            let src = w.tid_by_hash.get(&op.tx_hash()).cloned();
            let in_pool = src.map_or(false, |t| pooled.contains_key(&t));
            if !in_pool && !snap.have_cell(&op) {
                let cls = missing_class(w, src, e.tid, "cell-dep");
                report(out, &format!("{cls}{suffix}"), &format!("tx{} cell dep {} (tx{:?}) is neither live on the new chain nor an output of a pooled tx{}", e.tid, code, src, expired_note));
            }
        }
        for h in tx.header_deps_iter() {
            if !snap.is_main_chain(&h) {
                out.oracle_fail(&format!("detached-header-dep{suffix}"), &format!("tx{} header dep not on the main chain", e.tid));
            }
        }
        let id = tx.proposal_short_id();
        let want = if new_proposed.contains(&id) { 2 } else if new_gap.contains(&id) { 1 } else { 0 };
        if e.status != want {
            let cls = if e.status == 1 && want == 0 { "stage-gap-outside-window" } else { "stage-mismatch" };
            out.oracle_fail(&format!("{cls}{suffix}"), &format!("tx{} status {} but window says {} (0 pending 1 gap 2 proposed){}", e.tid, e.status, want, expired_note));
        }
    }
    // the pool's own rule for a cell that one pooled tx depends on and another spends: the spender
    // is recorded as a descendant of the dep user (so it is never selected or kept without it)
    for e in &post {
        for d in &e.deps {
            if let Some(sp) = spent_by.get(d) {
                if *sp != e.tid && !e.desc.contains(sp) {
                    out.oracle_fail(&format!("dep-spent-by-non-descendant{suffix}"), &format!("tx{} depends on {} which pooled tx{} spends without being its descendant", e.tid, d, sp));
                }
            }
        }
    }
    // lost txs: committed only on the abandoned branch, still admissible -> must be back
    let have: HashSet<usize> = post_ids.clone();
    let pool_spent: HashSet<u64> = spent_by.keys().cloned().collect();
    for t in retain.iter() {
        let tid = *w.tid_by_hash.get(&t.hash()).expect("harness tx");
        out.count("detached-only-tx");
        if have.contains(&tid) {
            out.count("detached-only-tx-back");
            continue;
        }
        let cell_ok = |op: &OutPoint| -> bool {
            let src = w.tid_by_hash.get(&op.tx_hash()).cloned();
            (snap.have_cell(op) || src.map_or(false, |s| have.contains(&s))) && !pool_spent.contains(&w.op_code(op))
        };
        let resolvable = t.input_pts_iter().all(|op| cell_ok(&op)) && t.cell_deps_iter().all(|d| cell_ok(&d.out_point()));
        let hdr_ok = t.header_deps_iter().all(|h| snap.is_main_chain(&h));
        // ancestor policy: 1 + number of pooled ancestors must not exceed max_ancestors_count;
        // parents: pooled creators of inputs / cell deps and pooled txs depending on a spent cell
        let mut anc: HashSet<usize> = HashSet::new();
        let mut parents: Vec<usize> = vec![];
        for op in t.input_pts_iter().chain(t.cell_deps_iter().map(|d| d.out_point())) {
            if let Some(s) = w.tid_by_hash.get(&op.tx_hash()) {
                if have.contains(s) {
                    parents.push(*s);
                }
            }
        }
        for op in t.input_pts_iter() {
            let code = w.op_code(&op);
            for e in &post {
                if e.deps.contains(&code) {
                    parents.push(e.tid);
                }
            }
        }
        for x in parents {
            anc.insert(x);
            for a in &pooled[&x].anc {
                anc.insert(*a);
            }
        }
        let within_policy = (anc.len() as u64) + 1 <= w.cfg.max_ancestors;
        if !within_policy {
            out.count("detached-only-tx-over-ancestor-limit");
        }
        let fee_ok = w.tx_ok(tid);
        if !fee_ok {
            out.count("detached-only-tx-below-min-fee");
        }
        // SUSPECTED (reported to the coordinator, counted until listed): the transaction was re-added and then
        // evicted again as a cell-ref parent (or as a descendant of one) of a LATER detached-only transaction
        // whose own insertion was refused after the eviction (check_and_record_ancestors keeps the evictions)
        let evicted_as_cell_ref = {
            let pos = retain.iter().position(|x| x.hash() == t.hash()).unwrap_or(0);
            let mut line: Vec<&TransactionView> = vec![t];
            // t and its ancestors among the detached-only transactions before it
            let mut grew = true;
            while grew {
                grew = false;
                for r in retain.iter().take(pos) {
                    if line.iter().any(|x| x.hash() == r.hash()) {
                        continue;
                    }
                    let made = r.hash();
                    if line.iter().any(|x| x.input_pts_iter().chain(x.cell_deps_iter().map(|d| d.out_point())).any(|op| op.tx_hash() == made)) {
                        line.push(r);
                        grew = true;
                    }
                }
            }
            line.iter().any(|x| {
                let xpos = retain.iter().position(|r| r.hash() == x.hash()).unwrap_or(0);
                retain.iter().skip(xpos + 1).any(|u| {
                    let utid = *w.tid_by_hash.get(&u.hash()).expect("harness tx");
                    !have.contains(&utid) && u.input_pts_iter().any(|op| x.cell_deps_iter().any(|d| d.out_point() == op))
                })
            })
        };
        if resolvable && hdr_ok && within_policy && fee_ok && evicted_as_cell_ref {
            out.count("lost-tx-evicted-as-cell-ref-parent-of-refused-readd-seen");
            out.oracle_fail("lost-tx-evicted-as-cell-ref-parent-of-refused-readd", &format!("tx{tid} was committed only on the abandoned branch, is admissible, but was evicted as a cell-ref parent of a later detached-only transaction whose insertion was refused"));
        } else if resolvable && hdr_ok && within_policy && fee_ok {
            out.oracle_fail(&format!("lost-tx{suffix}"), &format!("tx{tid} was committed only on the abandoned branch, is resolvable on the new chain + pool, but is not pooled"));
        } else {
            out.count("detached-only-tx-inadmissible");
        }
    }
    out.count("chain-change");
    if !post.is_empty() {
        out.count("chain-change-with-pool");
    }
}

/// the second step of a paused submission: `submit_entry(pre_resolve_tip, entry, status)`, then `after_process`.
/// Emits the model lines (pool before, current view, `rstale`) unless a pooled entry spends one of the
/// transaction's inputs or has its id (then `check_rbf` decides: C11's subject), and evaluates the clauses of
/// the property on the implementation for the released transaction.
fn release_paused(w: &mut World, out: &mut Out) {
    let Some((tid, handle, pre_tip, pre_stage)) = w.paused.take() else { return };
    if POOL_MAP_PANIC.load(std::sync::atomic::Ordering::SeqCst) {
        let _ = handle.release();
        report_pool_map_panic(w, out);
        out.count("release-after-pool-map-invalid-key-panic-not-judged");
        return;
    }
    w.sync_pool(out);
    let before = w.dump();
    let snap = w.main.shared.snapshot();
    let tx = w.txs[tid - 1].clone();
    let tip_changed = snap.tip_hash() != pre_tip;
    let spent: Vec<u64> = tx.input_pts_iter().map(|op| w.op_code(&op)).collect();
    let deps: Vec<u64> = tx.cell_deps_iter().map(|d| w.op_code(&d.out_point())).collect();
    let hdeps: Vec<usize> = tx.header_deps_iter().map(|h| w.block_id(&h)).collect();
    let off_main: Vec<usize> = tx.header_deps_iter().filter(|h| !snap.is_main_chain(h)).map(|h| w.block_id(&h)).collect();
    let conflict = before.iter().any(|e| e.tid == tid || e.spent.iter().any(|o| spent.contains(o)));
    let live = w.live_codes();
    let res = handle.release();
    let accepted = matches!(res, Ok(Ok(())));
    out.count(if tip_changed { "prelease-after-tip-change" } else { "prelease-same-tip" });
    out.count(if accepted { "prelease-accepted" } else { "prelease-refused" });
    let post = w.dump();
    let snap = w.main.shared.snapshot();
    if conflict {
        out.count("prelease-with-pool-conflict-not-compared");
    } else {
        out.op("rpool", "ok");
        for e in &before {
            out.op(&format!("rent {} {} {} {} {} {} {}", e.tid, e.status, list(e.spent.clone()), list(e.deps.clone()), list(e.hdeps.clone()), list(e.outs.clone()), e.size), "ok");
        }
        let known = |s: &HashSet<ProposalShortId>| -> Vec<usize> { s.iter().filter_map(|id| w.tid_by_short.get(id).cloned()).collect() };
        out.op(&format!("rargs {} - {} {} {} {}", list(off_main.clone()), list(known(snap.proposals().gap())), list(known(snap.proposals().set())), w.cfg.max_ancestors, w.cfg.max_pool_size), "ok");
        let mut after: Vec<(usize, u8)> = post.iter().map(|e| (e.tid, e.status)).collect();
        after.sort();
        let size = tx.data().serialized_size_in_block();
        out.op(
            &format!("rstale {} {} {} {} {} {} {} {} {}", tid, list(spent.clone()), list(deps.clone()), list(hdeps.clone()), list((0..tx.outputs().len()).map(|i| tid as u64 * 16 + i as u64).collect()), size, tip_changed as u8, pre_stage, list(live.clone())),
            &format!("{} {}", accepted as u8, if after.is_empty() { "-".to_string() } else { after.iter().map(|(t, s)| format!("{t}:{s}")).collect::<Vec<_>>().join(",") }),
        );
        if accepted && post.len() < before.len() + 1 {
            out.count("prelease-accepted-with-evictions");
        }
        if !accepted && post.len() < before.len() {
            out.count("prelease-refused-after-evictions");
        }
    }
    // ---- the property on the implementation alone, for the released transaction and the pool it joined
    let pooled: HashSet<usize> = post.iter().map(|e| e.tid).collect();
    if let Some(e) = post.iter().find(|e| e.tid == tid) {
        if snap.get_transaction_info(&tx.hash()).is_some() {
            out.oracle_fail("stale-submit-committed-in-pool", &format!("tx{tid} was admitted by a paused submission although it is committed on the main chain"));
        }
        for op in tx.input_pts_iter().chain(tx.cell_deps_iter().map(|d| d.out_point())) {
            let src = w.tid_by_hash.get(&op.tx_hash()).cloned();
            if !src.map_or(false, |t| pooled.contains(&t)) && !snap.have_cell(&op) {
                if tip_changed {
                    out.oracle_fail("stale-submit-dead-or-unknown-input", &format!("tx{tid} was admitted by a paused submission after the tip changed with out-point {} that is neither live nor created in the pool", w.op_code(&op)));
                } else {
                    // listed in known_findings.txt (round 6): the tip did not move, the POOL did; nothing is re-checked
                    out.count("stale-submit-same-tip-unknown-input-seen");
                    out.oracle_fail("stale-submit-same-tip-unknown-input", &format!("tx{tid} was admitted by a paused submission at the tip of its pre-check with out-point {} that is neither live nor created in the pool (the pool lost the creator meanwhile; submit_entry re-checks only when the tip moved)", w.op_code(&op)));
                    w.same_tip_orphans.insert(tid);
                }
            }
        }
        if tx.header_deps_iter().any(|h| !snap.is_main_chain(&h)) {
            out.oracle_fail("stale-submit-detached-header-dep", &format!("tx{tid} was admitted by a paused submission with a header dep off the main chain"));
        }
        let id = tx.proposal_short_id();
        let want = if snap.proposals().contains_proposed(&id) { 2 } else if snap.proposals().contains_gap(&id) { 1 } else { 0 };
        if e.status != want {
            out.oracle_fail("stale-submit-stage-mismatch", &format!("tx{tid} admitted by a paused submission at status {} but the window says {}", e.status, want));
        }
    } else if accepted {
        out.count("prelease-accepted-but-not-pooled");
    }
    // every other entry: still resolvable (an eviction takes descendants along)
    for e in &post {
        if e.tid == tid || !before.iter().any(|b| b.tid == e.tid) {
            continue;
        }
        let etx = &w.txs[e.tid - 1];
        for op in etx.input_pts_iter().chain(etx.cell_deps_iter().map(|d| d.out_point())) {
            let src = w.tid_by_hash.get(&op.tx_hash()).cloned();
            let was = src.map_or(false, |t| before.iter().any(|b| b.tid == t));
            if was && !src.map_or(false, |t| pooled.contains(&t)) && !snap.have_cell(&op) {
                out.oracle_fail("stale-submit-orphans-pooled-tx", &format!("tx{} lost the creator of out-point {} to the paused submission of tx{tid}", e.tid, w.op_code(&op)));
            }
        }
    }
}

fn nums(ts: &[&str]) -> Vec<u64> {
    ts.iter().map(|t| t.parse::<u64>().unwrap_or_else(|_| panic!("bad number {t}"))).collect()
}

fn exec(w: &mut Option<World>, out: &mut Out, base: &Path, line: &str) {
    let ts: Vec<&str> = line.split(' ').collect();
    match ts[0] {
        "cfg" => {
            let n = nums(&ts[1..]);
            assert!(n.len() == 6, "cfg arity");
            if let Some(old) = w.take() {
                old.finish();
            }
            let cfg = Cfg { epoch_len: n[0], w_close: n[1], w_far: n[2], interval_ms: n[3], expiry_hours: n[4], max_ancestors: n[5], min_fee_rate: 0, max_pool_size: 0 };
            *w = Some(World::new(base, out.case, cfg));
            out.op(line, "ok");
        }
        "rpool" | "rent" | "ratt" | "rdet" | "rargs" | "rlive" | "rlinks" | "rafter" | "rback" | "rstale" => {}
        _ => {
            let w = w.as_mut().expect("cfg first");
            match ts[0] {
                "submit" | "psubmit" => {
                    let tid: usize = ts[1].parse().unwrap();
                    assert_eq!(tid, w.txs.len() + 1, "tids are consecutive");
                    let inputs: Vec<(OutPoint, u64)> = ts[2]
                        .split(',')
                        .map(|p| {
                            let (a, b) = p.split_once('.').expect("t.i");
                            let (t, i): (usize, usize) = (a.parse().unwrap(), b.parse().unwrap());
                            assert!(t <= w.txs.len());
                            w.out_point(t, i)
                        })
                        .collect();
                    let n_out: usize = ts[3].parse().unwrap();
                    let fee: u64 = ts[4].parse().unwrap();
                    let mut tx = spend_tx(&inputs, n_out, fee, tid as u64);
                    if ts[5] != "-" {
                        let depth: u64 = ts[5].parse().unwrap();
                        let snap = w.main.shared.snapshot();
                        let n = snap.tip_number().saturating_sub(depth);
                        let h = snap.get_block_hash(n).expect("hash");
                        tx = tx.as_advanced_builder().header_dep(h).build();
                        out.count("submit-with-header-dep");
                    }
                    if ts.len() > 6 && ts[6] != "-" {
                        for p in ts[6].split(',') {
                            let (a, b) = p.split_once('.').expect("t.i");
                            let (t, i): (usize, usize) = (a.parse().unwrap(), b.parse().unwrap());
                            assert!(t <= w.txs.len());
                            let (op, _) = w.out_point(t, i);
                            tx = tx.as_advanced_builder().cell_dep(CellDep::new_builder().out_point(op).dep_type(DepType::Code).build()).build();
                        }
                        out.count("submit-with-cell-dep");
                    }
                    w.tid_by_short.insert(tx.proposal_short_id(), tid);
                    w.tid_by_hash.insert(tx.hash(), tid);
                    w.txs.push(tx.clone());
                    w.fees.push(fee);
                    if ts[0] == "submit" {
                        match w.tpc().submit_local_tx(tx) {
                            Ok(Ok(())) => out.count("submit-accepted"),
                            Ok(Err(_)) => out.count("submit-rejected"),
                            Err(_) => out.count("submit-error"),
                        }
                    } else {
                        // first phase only (non_contextual_verify, pre_check, verify_rtx); `prelease` runs submit_entry
                        release_paused(w, out);
                        w.sync_pool(out);
                        let tip = w.main.tip_hash();
                        let snap = w.main.shared.snapshot();
                        let id = tx.proposal_short_id();
                        let stage = if snap.proposals().contains_proposed(&id) { 2 } else if snap.proposals().contains_gap(&id) { 1 } else { 0 };
                        match w.tpc().verif_submit_paused(tx) {
                            Ok(h) => {
                                if h.phase1.is_ok() {
                                    out.count("psubmit-paused");
                                    w.paused = Some((tid, h, tip, stage));
                                } else {
                                    out.count("psubmit-rejected-at-pre-check");
                                    let _ = h.release();
                                }
                            }
                            Err(_) => out.count("psubmit-error"),
                        }
                    }
                    out.op(line, "ok");
                }
                "prelease" => {
                    release_paused(w, out);
                    out.op(line, "ok");
                }
                "time" => {
                    w.clock += ts[1].parse::<u64>().unwrap();
                    w.guard.set_faketime(w.clock);
                    out.op(line, "ok");
                }
                "mine" => {
                    if w.cfg.interval_ms > 0 {
                        std::thread::sleep(Duration::from_millis(w.cfg.interval_ms + 3));
                    } else {
                        std::thread::sleep(Duration::from_millis(2));
                    }
                    let pre = w.pre();
                    if let Ok(Ok(t)) = w.tpc().get_block_template(None, None, None) {
                        let b: packed::Block = t.into();
                        let b = b.into_view();
                        if b.parent_hash() == w.main.tip_hash() {
                            let r = w.main.process(&b);
                            if r == Ok(true) {
                                w.builder.blocks.entry(b.hash()).or_insert_with(|| b.clone());
                                w.block_id(&b.hash());
                                out.count("mined");
                                if b.transactions().len() > 1 {
                                    out.count("mined-with-commits");
                                }
                                after_chain_change(w, out, &pre);
                            } else {
                                out.count("own-template-rejected");
                            }
                        }
                    }
                    out.op(line, "ok");
                }
                "fork" => {
                    let n = nums(&ts[1..]);
                    do_fork(w, out, n[0], n[1], n[2] as usize, n[3] as usize);
                    out.op(line, "ok");
                }
                "forkx" => {
                    let n = nums(&ts[1..3]);
                    let tids = |t: &str| -> Vec<usize> { if t == "-" { vec![] } else { t.split(',').map(|x| x.parse::<usize>().expect("tid")).collect() } };
                    let up = if ts.len() > 5 { tids(ts[5]) } else { vec![] };
                    do_forkx(w, out, n[0], n[1], &tids(ts[3]), &tids(ts[4]), &up);
                    out.op(line, "ok");
                }
                other => panic!("bad op {other}"),
            }
            report_pool_map_panic(w, out);
        }
    }
}

fn do_fork(w: &mut World, out: &mut Out, back: u64, extra: u64, nprop: usize, ncommit: usize) {
    let snap = w.main.shared.snapshot();
    let tipn = snap.tip_number();
    let back = back.min(tipn);
    let fork_point = snap.get_block_hash(tipn - back).expect("fork point");
    drop(snap);
    let len = back + extra.max(1);
    // proposals: the most recent txs first (pool txs and rejected conflicting ones alike)
    let proposals: Vec<ProposalShortId> = w.txs.iter().rev().take(nprop).map(|t| t.proposal_short_id()).collect();
    let proposed: HashSet<ProposalShortId> = proposals.iter().cloned().collect();
    let mut commits: Vec<TransactionView> = vec![];
    {
        let store = w.builder.replay_store(&fork_point);
        let mut made: HashSet<Byte32> = HashSet::new();
        let mut used: HashSet<OutPoint> = HashSet::new();
        for tx in w.txs.iter() {
            if commits.len() >= ncommit {
                break;
            }
            if !proposed.contains(&tx.proposal_short_id()) || store.get_transaction_info(&tx.hash()).is_some() {
                continue;
            }
            let hdr_ok = tx.header_deps_iter().all(|h| store.is_main_chain(&h));
            let avail = |op: &OutPoint| !used.contains(op) && (made.contains(&op.tx_hash()) || store.have_cell(op));
            let ok = hdr_ok && tx.input_pts_iter().all(|op| avail(&op)) && tx.cell_deps_iter().all(|d| avail(&d.out_point()));
            if ok {
                for op in tx.input_pts_iter() {
                    used.insert(op);
                }
                made.insert(tx.hash());
                commits.push(tx.clone());
            }
        }
    }
    run_branch(w, out, fork_point, len, &proposals, &commits, 3, &[]);
}

/// the blocks of a branch: the first proposes, the commitments follow from block 1+w_close on
/// (at most `per_block` per block, inside the window of the first block's proposals); every block
/// that becomes the tip is a chain change
fn run_branch(w: &mut World, out: &mut Out, fork_point: Byte32, len: u64, proposals: &[ProposalShortId], commits: &[TransactionView], per_block: usize, uncle_props: &[ProposalShortId]) {
    let mut parent = fork_point.clone();
    let mut ci = 0;
    for j in 1..=len {
        w.salt += 1;
        let mut spec = BlockSpec { salt: w.salt, ..Default::default() };
        if j == 1 {
            spec.proposals = proposals.to_vec();
        }
        if j == 2 && !uncle_props.is_empty() {
            // (round 6) the second block carries an uncle (a sibling of the first block) whose proposals count
            // for the window of the including block (`union_proposal_ids`)
            let u = w.builder.build(&fork_point, &BlockSpec { salt: w.salt + 500_000, proposals: uncle_props.to_vec(), ..Default::default() });
            spec.uncles = vec![u.as_uncle()];
            out.count("forkx-uncle-with-proposals");
        }
        if j >= 1 + w.cfg.w_close && j <= 1 + w.cfg.w_far {
            while ci < commits.len() && spec.txs.len() < per_block {
                spec.txs.push(commits[ci].clone());
                ci += 1;
            }
        }
        let b = w.builder.build(&parent, &spec);
        w.block_id(&b.hash());
        let pre = w.pre();
        let r = w.main.process(&b);
        if r.is_err() {
            out.count("fork-block-rejected");
            break;
        }
        if w.main.tip_hash() == b.hash() {
            if !spec.txs.is_empty() {
                out.count("fork-commit-on-new-main");
            }
            after_chain_change(w, out, &pre);
        }
        parent = b.hash();
    }
    if w.main.tip_hash() == parent {
        out.count("fork-reorg");
    } else {
        out.count("fork-no-reorg");
    }
}

/// another miner's blocks with an explicit choice of proposals and commitments
fn do_forkx(w: &mut World, out: &mut Out, back: u64, len: u64, props: &[usize], commits: &[usize], uprops: &[usize]) {
    let uncle_props: Vec<ProposalShortId> = uprops.iter().filter(|t| **t >= 1 && **t <= w.txs.len()).map(|t| w.txs[*t - 1].proposal_short_id()).collect();
    let snap = w.main.shared.snapshot();
    let tipn = snap.tip_number();
    let back = back.min(tipn);
    let fork_point = snap.get_block_hash(tipn - back).expect("fork point");
    drop(snap);
    let len = len.max(back + 1);
    let proposals: Vec<ProposalShortId> = props.iter().filter(|t| **t >= 1 && **t <= w.txs.len()).map(|t| w.txs[*t - 1].proposal_short_id()).collect();
    let proposed: HashSet<ProposalShortId> = proposals.iter().cloned().collect();
    let mut txs: Vec<TransactionView> = vec![];
    {
        // keep what is valid on that branch: proposed there, not committed below the fork point, inputs
        // and cell deps live below the fork point or created by an earlier commitment and not consumed
        let store = w.builder.replay_store(&fork_point);
        let mut made: HashSet<Byte32> = HashSet::new();
        let mut used: HashSet<OutPoint> = HashSet::new();
        for t in commits {
            if *t < 1 || *t > w.txs.len() {
                continue;
            }
            let tx = &w.txs[*t - 1];
            if store.get_transaction_info(&tx.hash()).is_some() || made.contains(&tx.hash()) {
                out.count("forkx-commit-already-on-branch");
                continue;
            }
            if !proposed.contains(&tx.proposal_short_id()) {
                out.count("forkx-commit-dropped");
                continue;
            }
            let hdr_ok = tx.header_deps_iter().all(|h| store.is_main_chain(&h));
            let avail = |op: &OutPoint| !used.contains(op) && (made.contains(&op.tx_hash()) || store.have_cell(op));
            let ok = hdr_ok && tx.input_pts_iter().all(|op| avail(&op)) && tx.cell_deps_iter().all(|d| avail(&d.out_point()));
            if ok {
                for op in tx.input_pts_iter() {
                    used.insert(op);
                }
                made.insert(tx.hash());
                txs.push(tx.clone());
                out.count("forkx-commit-kept");
            } else {
                out.count("forkx-commit-dropped");
            }
        }
    }
    out.count(if back == 0 { "forkx-extension" } else { "forkx-branch" });
    run_branch(w, out, fork_point, len, &proposals, &txs, 4, &uncle_props);
}

/// what the generator remembers of a submitted transaction
#[derive(Clone)]
struct GTx {
    inputs: Vec<(usize, usize)>,
    deps: Vec<(usize, usize)>,
}

struct Gen {
    free: Vec<(usize, usize, u64)>,
    spent: Vec<(usize, usize, u64)>,
    /// cells some submitted tx depends on (still spendable)
    dep_cells: Vec<(usize, usize, u64)>,
    txs: Vec<GTx>,
    next_tid: usize,
}

const CKB: u64 = 100_000_000;

fn gen_submit(g: &mut Gen, rng: &mut Rng) -> Option<String> {
    if g.free.is_empty() {
        return None;
    }
    let mode = rng.below(100);
    let mut picks: Vec<(usize, usize, u64)> = vec![];
    let take = |g: &mut Gen, idx: usize| -> (usize, usize, u64) {
        let x = g.free.remove(idx);
        g.spent.push(x);
        x
    };
    if mode < 40 {
        let idx = g.free.len() - 1;
        picks.push(take(g, idx));
    } else if mode < 52 {
        let idx = rng.below(g.free.len() as u64) as usize;
        picks.push(take(g, idx));
        if !g.free.is_empty() {
            let idx = g.free.len() - 1 - rng.below((g.free.len() as u64).min(4)) as usize;
            picks.push(take(g, idx));
        }
    } else if mode < 72 {
        let cands: Vec<usize> = (0..g.free.len()).filter(|i| g.free[*i].0 == 0).collect();
        let idx = if cands.is_empty() { rng.below(g.free.len() as u64) as usize } else { *rng.pick(&cands) };
        picks.push(take(g, idx));
    } else if mode < 86 {
        // spend a cell that an earlier transaction depends on (the spender becomes its link child)
        let cands: Vec<usize> = (0..g.free.len()).filter(|i| g.dep_cells.iter().any(|d| d.0 == g.free[*i].0 && d.1 == g.free[*i].1)).collect();
        let idx = if cands.is_empty() { g.free.len() - 1 } else { *rng.pick(&cands) };
        picks.push(take(g, idx));
    } else {
        if g.spent.is_empty() {
            return None;
        }
        picks.push(*rng.pick(&g.spent));
    }
    let total: u64 = picks.iter().map(|p| p.2).sum();
    // 100 shannons is below the pool's min fee: such a tx only ever enters a block of another miner
    let fee = *rng.pick(&[500u64, 1000, 2000, 5000, 100_000, 1000, 2000, 100]);
    let mut n_out = 1 + rng.below(2) as usize;
    while n_out > 1 && total < n_out as u64 * 150 * CKB + fee {
        n_out -= 1;
    }
    if total < 150 * CKB + fee {
        return None;
    }
    // cell deps: on a still unspent cell (a genesis cell or an output of an earlier, maybe pooled, tx)
    let mut deps: Vec<(usize, usize, u64)> = vec![];
    if rng.chance(1, 4) {
        let cands: Vec<(usize, usize, u64)> = g.free.iter().filter(|c| !picks.iter().any(|p| p.0 == c.0 && p.1 == c.1)).cloned().collect();
        if !cands.is_empty() {
            // mostly a fresh genesis cell or the newest output, sometimes any
            let c = match rng.below(3) {
                0 => *cands.last().unwrap(),
                1 => *cands.iter().find(|c| c.0 == 0).unwrap_or(&cands[0]),
                _ => *rng.pick(&cands),
            };
            deps.push(c);
            if !g.dep_cells.iter().any(|d| d.0 == c.0 && d.1 == c.1) {
                g.dep_cells.push(c);
            }
        }
    }
    let tid = g.next_tid;
    g.next_tid += 1;
    let each = (total - fee) / n_out as u64;
    for i in 0..n_out {
        g.free.push((tid, i, each));
    }
    g.txs.push(GTx { inputs: picks.iter().map(|p| (p.0, p.1)).collect(), deps: deps.iter().map(|p| (p.0, p.1)).collect() });
    let ins = picks.iter().map(|p| format!("{}.{}", p.0, p.1)).collect::<Vec<_>>().join(",");
    let hdep = if rng.chance(1, 6) { rng.below(4).to_string() } else { "-".to_string() };
    let dl = if deps.is_empty() { "-".to_string() } else { deps.iter().map(|p| format!("{}.{}", p.0, p.1)).collect::<Vec<_>>().join(",") };
    Some(format!("submit {} {} {} {} {} {}", tid, ins, n_out, fee, hdep, dl))
}

/// a submission with the given inputs and cell deps (cells of `g.free`, by position-independent identity)
fn gen_emit(g: &mut Gen, picks: &[(usize, usize, u64)], deps: &[(usize, usize, u64)], fee: u64, n_out: usize, hdep: Option<u64>) -> Option<String> {
    let total: u64 = picks.iter().map(|p| p.2).sum();
    let mut n_out = n_out;
    while n_out > 1 && total < n_out as u64 * 150 * CKB + fee {
        n_out -= 1;
    }
    if picks.is_empty() || total < 150 * CKB + fee {
        return None;
    }
    for p in picks {
        if let Some(i) = g.free.iter().position(|c| c.0 == p.0 && c.1 == p.1) {
            let x = g.free.remove(i);
            g.spent.push(x);
        }
    }
    for c in deps {
        if !g.dep_cells.iter().any(|d| d.0 == c.0 && d.1 == c.1) {
            g.dep_cells.push(*c);
        }
    }
    let tid = g.next_tid;
    g.next_tid += 1;
    let each = (total - fee) / n_out as u64;
    for i in 0..n_out {
        g.free.push((tid, i, each));
    }
    g.txs.push(GTx { inputs: picks.iter().map(|p| (p.0, p.1)).collect(), deps: deps.iter().map(|p| (p.0, p.1)).collect() });
    let ins = picks.iter().map(|p| format!("{}.{}", p.0, p.1)).collect::<Vec<_>>().join(",");
    let dl = if deps.is_empty() { "-".to_string() } else { deps.iter().map(|p| format!("{}.{}", p.0, p.1)).collect::<Vec<_>>().join(",") };
    Some(format!("submit {} {} {} {} {} {}", tid, ins, n_out, fee, hdep.map_or("-".to_string(), |d| d.to_string()), dl))
}

/// a chain of `n` transactions behind output 0 of `tid`
fn gen_chain(g: &mut Gen, rng: &mut Rng, tid: usize, n: u64, lines: &mut Vec<String>) {
    let mut cur = tid;
    for _ in 0..n {
        let Some(c) = g.free.iter().find(|c| c.0 == cur).cloned() else { return };
        let fee = *rng.pick(&[1000u64, 2000, 5000]);
        match gen_emit(g, &[c], &[], fee, 1 + rng.below(2) as usize, None) {
            Some(l) => {
                cur = g.next_tid - 1;
                lines.push(l);
            }
            None => return,
        }
    }
}

fn list_usize(v: &[usize]) -> String {
    if v.is_empty() { "-".to_string() } else { v.iter().map(|x| x.to_string()).collect::<Vec<_>>().join(",") }
}

/// directed families: a pooled transaction is committed by another miner WITHOUT the pooled
/// transactions it conflicts with (cell dep / input / header dep), on an extension or a new branch,
/// with chains of descendants behind each side
fn gen_burst(g: &mut Gen, rng: &mut Rng, w_close: u64, w_far: u64) -> Vec<String> {
    let mut lines: Vec<String> = vec![];
    let fresh = |g: &Gen, not: &[(usize, usize, u64)]| -> Option<(usize, usize, u64)> { g.free.iter().find(|c| c.0 == 0 && !not.iter().any(|n| n.0 == c.0 && n.1 == c.1)).cloned() };
    let back = if rng.chance(1, 2) { 0 } else { rng.range(1, w_far + 2) };
    let mines = rng.below(3);
    let kind = rng.below(16);
    if kind >= 10 && kind < 12 {
        // (round 6) E: B depends on cell X, A spends X (both pooled, A after B); a DIFFERENT spender C of X,
        // known to the other miner only (below the pool's min fee), is committed: A and B must both go
        // (`resolve_conflict` runs the input sweep AND the dep sweep for the same out-point)
        let Some(y) = fresh(g, &[]) else { return lines };
        let Some(x) = fresh(g, &[y]) else { return lines };
        let b_first = rng.chance(2, 3);
        let emit_b = |g: &mut Gen, rng: &mut Rng, lines: &mut Vec<String>| -> Option<usize> {
            let lb = gen_emit(g, &[y], &[x], *rng.pick(&[1000u64, 2000, 5000]), 2, None)?;
            lines.push(lb);
            let b = g.next_tid - 1;
            let k = rng.below(3);
            gen_chain(g, rng, b, k, lines);
            Some(b)
        };
        let mut b = None;
        if b_first {
            b = emit_b(g, rng, &mut lines);
            if b.is_none() { return lines; }
        }
        let Some(la) = gen_emit(g, &[x], &[], *rng.pick(&[1000u64, 2000, 5000]), 2, None) else { return lines };
        let a = g.next_tid - 1;
        lines.push(la);
        let k = rng.below(3);
        gen_chain(g, rng, a, k, &mut lines);
        if !b_first {
            // B after A: the pool refuses a dep on a cell a pooled tx spends, B then stays foreign
            g.free.push(x);
            b = emit_b(g, rng, &mut lines);
            if let Some(i) = g.free.iter().position(|c| c.0 == x.0 && c.1 == x.1) { g.free.remove(i); }
            if b.is_none() { return lines; }
        }
        // C: the same input X again, fee below the minimum (never pooled)
        g.free.push(x);
        let Some(lc) = gen_emit(g, &[x], &[], 100, 1, None) else { return lines };
        let c = g.next_tid - 1;
        lines.push(lc);
        for _ in 0..mines {
            lines.push("mine".to_string());
        }
        let props = if rng.chance(1, 2) { vec![c] } else { vec![c, a, b.unwrap()] };
        let len = (back + 1).max(w_close + 1) + rng.below(2);
        lines.push(format!("forkx {} {} {} {}", back, len, list_usize(&props), c));
        return lines;
    }
    if kind >= 12 && kind < 14 {
        // (round 6) R: a pooled transaction is proposed by another miner, never committed, and proposed AGAIN
        // around the block at which the first proposal leaves the window (offsets w_far-1, w_far, w_far+1 after
        // the first proposal): at w_far it is detached and back in the gap part at the same chain change
        let Some(y) = fresh(g, &[]) else { return lines };
        let Some(lv) = gen_emit(g, &[y], &[], *rng.pick(&[1000u64, 2000, 5000]), 2, None) else { return lines };
        let v = g.next_tid - 1;
        lines.push(lv);
        let k = rng.below(2);
        gen_chain(g, rng, v, k, &mut lines);
        if rng.chance(1, 4) {
            // proposed by an UNCLE of the second block; abandoned later (detached uncle proposals) or left to expire
            lines.push(format!("forkx 0 2 - - {}", v));
            if rng.chance(1, 2) {
                lines.push("forkx 1 2 - -".to_string());
            } else {
                lines.push(format!("forkx 0 {} - -", w_far));
            }
            return lines;
        }
        lines.push(format!("forkx 0 1 {} -", v));
        let off = match rng.below(4) { 0 => w_far - 1, 1 => w_far + 1, _ => w_far };
        if off > 1 {
            lines.push(format!("forkx 0 {} - -", off - 1));
        }
        lines.push(format!("forkx 0 1 {} -", v));
        for _ in 0..rng.below(3) {
            lines.push(if rng.chance(1, 2) { "mine".to_string() } else { "forkx 0 1 - -".to_string() });
        }
        return lines;
    }
    if kind >= 14 {
        // (round 6) T: a parent is committed in one block, its child (and an independent transaction) in a
        // LATER block, by another miner; then both blocks are abandoned: the re-adds must go in block order
        let Some(y) = fresh(g, &[]) else { return lines };
        let Some(lp) = gen_emit(g, &[y], &[], 2000, 2, None) else { return lines };
        let p = g.next_tid - 1;
        lines.push(lp);
        let ext = w_close + 1;
        lines.push(format!("forkx 0 {} {} {}", ext, p, p));
        let before = g.next_tid;
        let kq = rng.range(1, 2);
        gen_chain(g, rng, p, kq, &mut lines);
        let mut second: Vec<usize> = (before..g.next_tid).collect();
        if second.is_empty() { return lines; }
        if rng.chance(1, 2) {
            if let Some(z) = fresh(g, &[]) {
                if let Some(lr) = gen_emit(g, &[z], &[], 1000, 1, None) {
                    lines.push(lr);
                    second.push(g.next_tid - 1);
                }
            }
        }
        lines.push(format!("forkx 0 {} {} {}", ext, list_usize(&second), list_usize(&second)));
        let depth = 2 * ext;
        lines.push(format!("forkx {} {} - -", depth, depth + 1));
        return lines;
    }
    if kind < 5 {
        // B depends on cell X, A spends X; A (and what it needs) is committed without B
        let Some(y) = fresh(g, &[]) else { return lines };
        // X: a fresh genesis cell, or an output of a (probably pooled) recent transaction
        let x = if rng.chance(1, 3) { g.free.iter().rev().find(|c| c.0 != 0).cloned() } else { None };
        let Some(x) = x.or_else(|| fresh(g, &[y])) else { return lines };
        let Some(lb) = gen_emit(g, &[y], &[x], *rng.pick(&[1000u64, 2000, 5000]), 2, None) else { return lines };
        let b = g.next_tid - 1;
        lines.push(lb);
        let k = rng.below(3);
        gen_chain(g, rng, b, k, &mut lines);
        let mut a_in = vec![x];
        if rng.chance(1, 4) {
            if let Some(z) = fresh(g, &[x]) {
                a_in.push(z);
            }
        }
        // (100 shannons: below the pool's min fee, A is then known to the other miner only)
        let Some(la) = gen_emit(g, &a_in, &[], *rng.pick(&[1000u64, 2000, 100_000, 100]), 2, None) else { return lines };
        let a = g.next_tid - 1;
        lines.push(la);
        let k = rng.below(3);
        gen_chain(g, rng, a, k, &mut lines);
        for _ in 0..mines {
            lines.push("mine".to_string());
        }
        let skip: HashSet<usize> = [b].into_iter().collect();
        if let Some(commits) = gen_closure(g, a, &skip) {
            let mut props = commits.clone();
            if rng.chance(1, 2) {
                props.push(b);
            }
            let len = (back + 1).max(w_close + 1 + (commits.len() as u64) / 4) + rng.below(2);
            lines.push(format!("forkx {} {} {} {}", back, len, list_usize(&props), list_usize(&commits)));
        }
    } else if kind < 8 {
        // C and C' spend the same cell (the pool keeps one of them): the other miner commits either
        let Some(y) = fresh(g, &[]) else { return lines };
        let Some(lc) = gen_emit(g, &[y], &[], *rng.pick(&[1000u64, 2000]), 2, None) else { return lines };
        let c = g.next_tid - 1;
        lines.push(lc);
        let k = rng.below(4);
        gen_chain(g, rng, c, k, &mut lines);
        // the twin: same input again (refused, or replaces C and its chain when it pays enough)
        g.free.push(y);
        let Some(lt) = gen_emit(g, &[y], &[], *rng.pick(&[500u64, 1000, 100_000, 100]), 1, None) else { return lines };
        let t = g.next_tid - 1;
        lines.push(lt);
        for _ in 0..mines {
            lines.push("mine".to_string());
        }
        let pick = if rng.chance(2, 3) { t } else { c };
        let commits = vec![pick];
        let props = if rng.chance(1, 2) { vec![c, t] } else { vec![pick] };
        let len = (back + 1).max(w_close + 1) + rng.below(2);
        lines.push(format!("forkx {} {} {} {}", back, len, list_usize(&props), list_usize(&commits)));
    } else {
        // H has a header dep on a recent block, with a chain behind it; a branch without any
        // commitment detaches that block
        let Some(y) = fresh(g, &[]) else { return lines };
        let Some(lh) = gen_emit(g, &[y], &[], 2000, 2, Some(rng.below(3))) else { return lines };
        let h = g.next_tid - 1;
        lines.push(lh);
        let k = rng.below(3);
        gen_chain(g, rng, h, k, &mut lines);
        let back = rng.range(1, w_far + 2);
        lines.push(format!("forkx {} {} - -", back, back + 1 + rng.below(2)));
    }
    lines
}


/// directed families around the ancestor limit `m` = max_ancestors_count (round 5):
///  D1  a chain whose head was committed is completed to `m` pooled entries; a reorg re-adds the head
///      (the tail is now over the limit, nothing checks that); then the proposal of an entry near the
///      limit is detached (its window expires unused, or the proposing blocks are abandoned):
///      `remove_by_detached_proposal` takes it out with its descendants and its re-add is refused
///  D2  everything of a chain a1..a_k, a transaction B that has cell X as a cell dep, and a transaction t
///      that spends X (B is a cell-ref parent of t) is committed and then detached: the re-add of t is over
///      the limit only because of B, so `check_and_record_ancestors` evicts B
///      (V1: B is unrelated otherwise; V2: t also spends an output of B; V3: t also spends an output of a
///      child of B, the insertion is refused after the eviction)
fn gen_deep(g: &mut Gen, rng: &mut Rng, w_close: u64, w_far: u64, m: u64) -> Vec<String> {
    let mut lines: Vec<String> = vec![];
    let fresh = |g: &Gen, not: &[(usize, usize, u64)]| -> Option<(usize, usize, u64)> { g.free.iter().find(|c| c.0 == 0 && !not.iter().any(|n| n.0 == c.0 && n.1 == c.1)).cloned() };
    let ext_len = w_close + 1;
    let out0 = |g: &Gen, t: usize| -> Option<(usize, usize, u64)> { g.free.iter().find(|c| c.0 == t && c.1 == 0).cloned() };
    if m > 8 || m < 4 {
        return lines;
    }
    if rng.chance(1, 2) {
        // ---- D1
        let Some(y) = fresh(g, &[]) else { return lines };
        let k = rng.range(1, 3) as usize;
        let Some(l) = gen_emit(g, &[y], &[], 2000, 1, None) else { return lines };
        let first = g.next_tid - 1;
        lines.push(l);
        gen_chain(g, rng, first, k as u64 - 1, &mut lines);
        if g.next_tid - 1 != first + k - 1 {
            return lines;
        }
        let prefix: Vec<usize> = (first..first + k).collect();
        lines.push(format!("forkx 0 {} {} {}", ext_len, list_usize(&prefix), list_usize(&prefix)));
        gen_chain(g, rng, first + k - 1, m, &mut lines);
        let last = g.next_tid - 1;
        if last != first + k - 1 + m as usize {
            return lines;
        }
        lines.push(format!("forkx {} {} - -", ext_len, ext_len + 1));
        // the victim: the first entry over the limit, one of the two before it, or the last one
        let over_first = first + m as usize;
        let v = match rng.below(4) {
            0 | 1 => over_first,
            2 => over_first - 1 - rng.below(2) as usize,
            _ => last,
        };
        if rng.chance(2, 3) {
            // proposed by another miner, never committed: the proposal leaves the window
            lines.push(format!("forkx 0 {} {} -", w_close, v));
            lines.push(format!("forkx 0 {} - -", w_far - w_close + 1));
        } else {
            // proposed on blocks that are abandoned afterwards
            lines.push(format!("forkx 0 {} {} -", w_close, v));
            lines.push(format!("forkx {} {} - -", w_close, w_close + 1));
        }
    } else {
        // ---- D2
        let variant = rng.below(3);
        let Some(y) = fresh(g, &[]) else { return lines };
        let Some(x) = fresh(g, &[y]) else { return lines };
        let Some(z) = fresh(g, &[y, x]) else { return lines };
        let Some(l) = gen_emit(g, &[y], &[], 2000, 1, None) else { return lines };
        let a1 = g.next_tid - 1;
        lines.push(l);
        lines.push(format!("forkx 0 {} {} {}", ext_len, a1, a1));
        // V1, V2: a2..a_{m-1}; V3: a2..a_{m-2}
        let more = if variant == 2 { m - 3 } else { m - 2 };
        gen_chain(g, rng, a1, more, &mut lines);
        let a_last = g.next_tid - 1;
        if a_last != a1 + more as usize {
            return lines;
        }
        let Some(al0) = out0(g, a_last) else { return lines };
        let fee = *rng.pick(&[1000u64, 2000, 5000]);
        let t_in: Vec<(usize, usize, u64)>;
        if variant == 0 {
            let Some(lb) = gen_emit(g, &[z], &[x], fee, 1, None) else { return lines };
            lines.push(lb);
            t_in = vec![al0, x];
        } else if variant == 1 {
            let Some(lb) = gen_emit(g, &[al0], &[x], fee, 1, None) else { return lines };
            let b = g.next_tid - 1;
            lines.push(lb);
            let Some(b0) = out0(g, b) else { return lines };
            t_in = vec![b0, x];
        } else {
            let Some(lb) = gen_emit(g, &[z], &[x], fee, 1, None) else { return lines };
            let b = g.next_tid - 1;
            lines.push(lb);
            let Some(b0) = out0(g, b) else { return lines };
            let Some(lc) = gen_emit(g, &[b0], &[], 2000, 1, None) else { return lines };
            let c = g.next_tid - 1;
            lines.push(lc);
            let Some(c0) = out0(g, c) else { return lines };
            t_in = vec![al0, c0, x];
        }
        let Some(lt) = gen_emit(g, &t_in, &[], 5000, 1, None) else { return lines };
        let t = g.next_tid - 1;
        lines.push(lt);
        let all: Vec<usize> = (a1 + 1..=t).collect();
        let blocks = (all.len() as u64 + 3) / 4;
        if blocks > w_far - w_close + 1 {
            return lines;
        }
        let len2 = w_close + blocks;
        lines.push(format!("forkx 0 {} {} {}", len2, list_usize(&all), list_usize(&all)));
        let back = ext_len + len2;
        lines.push(format!("forkx {} {} - -", back, back + 1));
    }
    lines
}

/// (round 6) directed families for a submission that is paused between its verification and `submit_entry`
/// while the chain (and the pool's view of it) moves: `psubmit` … chain ops … `prelease`
fn gen_paused(g: &mut Gen, rng: &mut Rng, w_close: u64, w_far: u64, m: u64) -> Vec<String> {
    let mut lines: Vec<String> = vec![];
    let fresh = |g: &Gen, not: &[(usize, usize, u64)]| -> Option<(usize, usize, u64)> { g.free.iter().find(|c| c.0 == 0 && !not.iter().any(|n| n.0 == c.0 && n.1 == c.1)).cloned() };
    let out0 = |g: &Gen, t: usize| -> Option<(usize, usize, u64)> { g.free.iter().find(|c| c.0 == t && c.1 == 0).cloned() };
    let paused = |l: String| -> String { format!("p{l}") };
    let ext = w_close + 1;
    let fee = *rng.pick(&[1000u64, 2000, 5000]);
    match rng.below(8) {
        0 => {
            // a foreign spender C of the same cell is committed while t is paused: t must be refused (dead input)
            let Some(x) = fresh(g, &[]) else { return lines };
            let Some(lc) = gen_emit(g, &[x], &[], 100, 1, None) else { return lines };
            let c = g.next_tid - 1;
            lines.push(lc);
            g.free.push(x);
            let mut ins = vec![x];
            if rng.chance(1, 3) {
                if let Some(z) = fresh(g, &[x]) { ins.push(z); }
            }
            let Some(lt) = gen_emit(g, &ins, &[], fee, 2, None) else { return lines };
            lines.push(paused(lt));
            let back = if rng.chance(1, 2) { 0 } else { rng.range(1, w_far + 1) };
            // sometimes released one block BEFORE the commitment (still live: accepted, then conflicting at the commit)
            let len = if rng.chance(1, 4) { (back + 1).max(w_close) } else { (back + 1).max(ext) };
            lines.push(format!("forkx {} {} {} {}", back, len, c, c));
        }
        1 => {
            // t spends an output of a pooled parent; the parent is committed (own blocks or another miner's),
            // sometimes abandoned again (re-added, or conflicted away) before the release
            let Some(y) = fresh(g, &[]) else { return lines };
            let Some(lp) = gen_emit(g, &[y], &[], fee, 2, None) else { return lines };
            let p = g.next_tid - 1;
            lines.push(lp);
            let Some(p0) = out0(g, p) else { return lines };
            let Some(lt) = gen_emit(g, &[p0], &[], 2000, 1, None) else { return lines };
            lines.push(paused(lt));
            match rng.below(4) {
                0 => { for _ in 0..ext + 1 { lines.push("mine".to_string()); } }
                1 => lines.push(format!("forkx 0 {} {} {}", ext, p, p)),
                2 => {
                    lines.push(format!("forkx 0 {} {} {}", ext, p, p));
                    lines.push(format!("forkx {} {} - -", ext, ext + 1));
                }
                _ => {
                    // the parent is committed and abandoned, and a foreign twin of the parent is committed instead
                    g.free.push(y);
                    if let Some(lq) = gen_emit(g, &[y], &[], 100, 1, None) {
                        let q = g.next_tid - 1;
                        // (the twin is refused by the pool: a conflict with the pooled parent, and below the min fee)
                        lines.push(lq);
                        lines.push(format!("forkx 0 {} {} {}", ext, p, p));
                        lines.push(format!("forkx {} {} {} {}", ext, ext + 1 + w_close, q, q));
                    }
                }
            }
        }
        2 => {
            // a header dep on a recent block; the block is detached (or not) while t is paused
            let Some(y) = fresh(g, &[]) else { return lines };
            let Some(lt) = gen_emit(g, &[y], &[], fee, 1, Some(rng.below(2))) else { return lines };
            lines.push(paused(lt));
            if rng.chance(3, 4) {
                let back = rng.range(1, 2);
                lines.push(format!("forkx {} {} - -", back, back + 1));
            } else {
                lines.push("forkx 0 1 - -".to_string());
            }
        }
        3 => {
            // t is proposed by another miner while it is paused: the stage comes from the CURRENT window
            let Some(y) = fresh(g, &[]) else { return lines };
            let Some(lt) = gen_emit(g, &[y], &[], fee, 1, None) else { return lines };
            let t = g.next_tid - 1;
            lines.push(paused(lt));
            let k = *rng.pick(&[1, w_close, w_close + 1, w_far, w_far + 1]);
            lines.push(format!("forkx 0 {} {} -", k.max(1), t));
        }
        4 if m >= 4 && m <= 8 => {
            // at the ancestor limit when submit_entry runs: a chain of m-1 (or m) pooled entries, t behind the last;
            // sometimes t also spends a cell that a pooled B has as a cell dep (B is evicted to make room)
            let Some(y) = fresh(g, &[]) else { return lines };
            let Some(l) = gen_emit(g, &[y], &[], 2000, 1, None) else { return lines };
            let a1 = g.next_tid - 1;
            lines.push(l);
            let over = rng.chance(1, 3);
            let more = if over { m - 1 } else { m - 2 };
            gen_chain(g, rng, a1, more, &mut lines);
            let last = g.next_tid - 1;
            if last != a1 + more as usize { return lines; }
            let Some(l0) = out0(g, last) else { return lines };
            let mut ins = vec![l0];
            if !over && rng.chance(2, 3) {
                let Some(x) = fresh(g, &[]) else { return lines };
                let Some(z) = fresh(g, &[x]) else { return lines };
                let Some(lb) = gen_emit(g, &[z], &[x], fee, 1, None) else { return lines };
                lines.push(lb);
                ins.push(x);
            }
            let Some(lt) = gen_emit(g, &ins, &[], 5000, 1, None) else { return lines };
            lines.push(paused(lt));
            lines.push(if rng.chance(1, 2) { "forkx 0 1 - -".to_string() } else { "mine".to_string() });
        }
        6 if rng.chance(1, 2) => {
            // SUSPECTED defect: the parent P of the paused t is replaced through RBF by P' (same input, higher fee) at
            // the SAME tip: submit_entry re-checks nothing and t is pooled with an input nobody creates
            let Some(y) = fresh(g, &[]) else { return lines };
            let Some(lp) = gen_emit(g, &[y], &[], 1000, 1, None) else { return lines };
            let p = g.next_tid - 1;
            lines.push(lp);
            let Some(p0) = out0(g, p) else { return lines };
            let Some(lt) = gen_emit(g, &[p0], &[], 2000, 1, None) else { return lines };
            lines.push(paused(lt));
            g.free.push(y);
            let Some(lq) = gen_emit(g, &[y], &[], 100_000, 1, None) else { return lines };
            lines.push(lq);
        }
        5 => {
            // released at the tip of its pre-check (nothing is re-checked)
            let Some(y) = fresh(g, &[]) else { return lines };
            let Some(lt) = gen_emit(g, &[y], &[], fee, 2, None) else { return lines };
            lines.push(paused(lt));
            if rng.chance(1, 2) {
                if let Some(l) = gen_submit(g, rng) { lines.push(l); }
            }
        }
        _ => {
            // any submission of the random stream, paused over one or two random chain changes
            let Some(l) = gen_submit(g, rng) else { return lines };
            lines.push(paused(l));
            for _ in 0..rng.range(1, 2) {
                match rng.below(3) {
                    0 => lines.push("mine".to_string()),
                    1 => lines.push(format!("fork {} {} {} {}", rng.range(1, w_far + 1), rng.range(1, 2), rng.below(6), rng.below(4))),
                    _ => {
                        if let Some(l) = gen_forkx(g, rng, w_close, w_far) { lines.push(l); } else { lines.push("mine".to_string()); }
                    }
                }
            }
        }
    }
    lines.push("prelease".to_string());
    lines
}

/// the transactions `t` needs committed before it (creators of its inputs and cell deps), `t` last
fn gen_closure(g: &Gen, t: usize, skip: &HashSet<usize>) -> Option<Vec<usize>> {
    let mut need: Vec<usize> = vec![];
    let mut stack = vec![t];
    while let Some(x) = stack.pop() {
        if skip.contains(&x) {
            return None; // cannot be committed without a transaction that is to be left out
        }
        if need.contains(&x) {
            continue;
        }
        need.push(x);
        let gt = &g.txs[x - 1];
        for (p, _) in gt.inputs.iter().chain(gt.deps.iter()) {
            if *p != 0 {
                stack.push(*p);
            }
        }
    }
    need.sort();
    Some(need)
}

/// blocks of another miner: commit a transaction WITHOUT the transactions it conflicts with
fn gen_forkx(g: &Gen, rng: &mut Rng, w_close: u64, w_far: u64) -> Option<String> {
    let n = g.txs.len();
    if n == 0 {
        return None;
    }
    let recent = |rng: &mut Rng| -> usize { n - rng.below((n as u64).min(12)) as usize };
    let mut commits: Vec<usize> = vec![];
    let mut skip: HashSet<usize> = HashSet::new();
    let shape = rng.below(10);
    if shape < 5 {
        // a spender A of a cell X that another transaction B depends on: commit A, leave B out
        let mut pairs: Vec<(usize, usize)> = vec![];
        for (ai, a) in g.txs.iter().enumerate() {
            for (bi, b) in g.txs.iter().enumerate() {
                if ai != bi && b.deps.iter().any(|d| a.inputs.contains(d)) {
                    pairs.push((ai + 1, bi + 1));
                }
            }
        }
        if pairs.is_empty() {
            return None;
        }
        // prefer the latest pairs (still pooled)
        let k = pairs.len() - 1 - rng.below((pairs.len() as u64).min(4)) as usize;
        let (a, b) = pairs[k];
        skip.insert(b);
        commits = gen_closure(g, a, &skip)?;
    } else if shape < 8 {
        // one of two transactions spending the same cell (the later one was refused by the pool or
        // replaced the earlier one): commit it with what it needs
        let mut seen: HashMap<(usize, usize), usize> = HashMap::new();
        let mut twins: Vec<(usize, usize)> = vec![];
        for (i, t) in g.txs.iter().enumerate() {
            for inp in &t.inputs {
                if let Some(first) = seen.get(inp) {
                    twins.push((*first, i + 1));
                } else {
                    seen.insert(*inp, i + 1);
                }
            }
        }
        if twins.is_empty() {
            return None;
        }
        let k = twins.len() - 1 - rng.below((twins.len() as u64).min(4)) as usize;
        let (first, second) = twins[k];
        let (c, other) = if rng.chance(2, 3) { (second, first) } else { (first, second) };
        skip.insert(other);
        commits = gen_closure(g, c, &skip)?;
    } else {
        // a recent transaction with what it needs, nothing else
        let t = recent(rng);
        commits = gen_closure(g, t, &skip)?;
    }
    if rng.chance(1, 4) {
        // and an unrelated recent one
        let t = recent(rng);
        if !skip.contains(&t) {
            if let Some(more) = gen_closure(g, t, &skip) {
                for x in more {
                    if !commits.contains(&x) {
                        commits.push(x);
                    }
                }
                commits.sort();
            }
        }
    }
    let mut props = commits.clone();
    for _ in 0..rng.below(3) {
        let t = recent(rng);
        if !props.contains(&t) {
            props.push(t);
        }
    }
    let back = if rng.chance(2, 5) { 0 } else { rng.range(1, w_far + 2) };
    let need = (commits.len() as u64 + 3) / 4;
    let len = (back + 1).max(w_close + need) + rng.below(2);
    let l = |v: &Vec<usize>| v.iter().map(|x| x.to_string()).collect::<Vec<_>>().join(",");
    if len >= 2 && rng.chance(1, 5) {
        // proposals of an uncle of the second block
        let mut up: Vec<usize> = vec![];
        for _ in 0..rng.range(1, 2) {
            let t = recent(rng);
            if !props.contains(&t) && !up.contains(&t) {
                up.push(t);
            }
        }
        if !up.is_empty() {
            return Some(format!("forkx {} {} {} {} {}", back, len, l(&props), l(&commits), l(&up)));
        }
    }
    Some(format!("forkx {} {} {} {}", back, len, l(&props), l(&commits)))
}

fn gen_case(out: &mut Out, base: &Path, rng: &mut Rng, steps: u64) {
    let w_close = rng.range(1, 2);
    let w_far = w_close + rng.range(1, 3);
    let expiry_case = rng.chance(1, 3);
    let max_anc = *rng.pick(&[25u64, 25, 6, 6, 5]);
    let cfgl = format!("cfg {} {} {} {} {} {}", rng.range(4, 9), w_close, w_far, *rng.pick(&[0u64, 0, 5]), if expiry_case { 1 } else { 12 }, max_anc);
    out.begin_case(&format!("window={w_close},{w_far} expiry={expiry_case}"));
    let mut w: Option<World> = None;
    exec(&mut w, out, base, &cfgl);
    let mut g = Gen { free: (0..24).map(|i| (0usize, i, 50_000 * CKB)).collect(), spent: vec![], dep_cells: vec![], txs: vec![], next_tid: 1 };
    let mut fp = String::new();
    for _ in 0..steps {
        let r = rng.below(100);
        if r >= 92 && rng.chance(1, 2) {
            // a directed family (several lines)
            let burst = if rng.chance(1, 3) {
                gen_paused(&mut g, rng, w_close, w_far, max_anc)
            } else if max_anc <= 8 && rng.chance(2, 3) {
                gen_deep(&mut g, rng, w_close, w_far, max_anc)
            } else {
                gen_burst(&mut g, rng, w_close, w_far)
            };
            for line in burst {
                fp.push(if line.starts_with("forkx") { 'X' } else if line.starts_with("ps") { 'Q' } else if line.starts_with("pr") { 'R' } else { (line.as_bytes()[0] as char).to_ascii_uppercase() });
                exec(&mut w, out, base, &line);
            }
            continue;
        }
        let line = if r < 45 {
            match gen_submit(&mut g, rng) {
                Some(l) => l,
                None => continue,
            }
        } else if r < 70 {
            "mine".to_string()
        } else if r < 82 {
            let back = rng.range(1, w_far + 2);
            format!("fork {} {} {} {}", back, rng.range(1, 2), rng.below(10), rng.below(5))
        } else if r < 92 {
            match gen_forkx(&g, rng, w_close, w_far) {
                Some(l) => l,
                None => continue,
            }
        } else if expiry_case {
            format!("time {}", rng.range(10, 35) * 60 * 1000)
        } else {
            format!("time {}", rng.range(1, 50))
        };
        fp.push(if line.starts_with("forkx") { 'x' } else { line.as_bytes()[0] as char });
        exec(&mut w, out, base, &line);
    }
    exec(&mut w, out, base, "mine");
    out.nontrivial(fp);
    if let Some(world) = w.take() {
        world.finish();
    }
}

pub fn run(opts: &Opts) {
    install_panic_watch();
    let base = scratch_dir(&opts.out, "c12");
    let mut out = Out::new(&opts.out);
    let mut rng = Rng::new(opts.seed ^ 0xC12);
    if let Some(p) = &opts.replay {
        let ops = read_replay_ops(p);
        let mut w: Option<World> = None;
        for l in ops {
            if l.starts_with("case ") {
                out.begin_case(l.splitn(3, ' ').nth(2).unwrap_or("replay"));
                continue;
            }
            if out.case == 0 {
                out.begin_case("replay");
            }
            exec(&mut w, &mut out, &base, &l);
        }
        if let Some(world) = w.take() {
            world.finish();
        }
    } else {
        let cases = if opts.thorough() { 150 } else { 16 } * opts.scale;
        for _ in 0..cases {
            let steps = rng.range(40, 90);
            gen_case(&mut out, &base, &mut rng, steps);
        }
    }
    let _ = std::fs::remove_dir_all(&base);
    out.finish("a case is non-trivial by its op-kind sequence (submit/mine/fork/forkx/time)");
    std::process::exit(0);
}
